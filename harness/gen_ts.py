"""Shared generator of random *valid* table collections (no msprime), as JSON-able
descriptions.  All coordinates and times are integers in the description; build_tables
maps coordinate x to x*scale (scale may be non-integer) so that "non-integer
coordinates" are exercised while the order structure is known exactly.

desc = {
  "L": int, "scale": float,
  "nodes": [[flags, time, population, individual, metadata_hex]],
  "edges": [[left, right, parent, child, metadata_hex]],          (valid, any row order)
  "sites": [[position, ancestral_state, metadata_hex]],          (sorted, unique positions)
  "mutations": [[site, node, derived_state, parent, time_or_None, metadata_hex]],
  "individuals": [[flags, location(list of ints), parents(list), metadata_hex]],
  "populations": [[metadata_hex]],
  "migrations": [[left, right, node, source, dest, time, metadata_hex]],
}
Shapes covered: unary nodes, polytomies, internal samples, isolated samples, multiple
roots, dead (non-sample) branches, gaps with no edges, zero edges, zero samples.
"""
import random

NULL = -1


def hx(rng, maxlen=3, p=0.5):
    if rng.random() > p:
        return ""
    return bytes(rng.randrange(256) for _ in range(rng.randrange(0, maxlen + 1))).hex()


def random_desc(rng, max_nodes=8, max_L=6, max_sites=3, max_muts=4, metadata=True,
                individuals=True, populations=True, migrations=False, p_internal_sample=0.15,
                p_gap=0.15, p_root=0.2, alleles=("A", "C", "G", "T", "", "AC"),
                unknown_times=None, scale=None):
    n = rng.randrange(0, max_nodes + 1) if rng.random() < 0.05 else rng.randrange(2, max_nodes + 1)
    L = rng.randrange(1, max_L + 1)
    if scale is None:
        scale = rng.choice([1, 1, 0.5, 0.25, 2.5, 1 / 3])
    md = (lambda: hx(rng)) if metadata else (lambda: "")
    npop = rng.randrange(0, 3) if populations else 0
    nind = rng.randrange(0, 4) if individuals else 0
    # node times: a block of time-0 samples, then increasing (with ties) times
    nleaf = rng.randrange(0, n + 1) if n else 0
    times, t = [], 0
    for i in range(n):
        if i >= nleaf:
            t += rng.choice([0, 1, 1, 2]) if i > nleaf else 1
        times.append(t)
    nodes = []
    for i in range(n):
        is_sample = (times[i] == 0 and rng.random() < 0.9) or (times[i] > 0 and rng.random() < p_internal_sample)
        nodes.append([1 if is_sample else 0, times[i],
                      rng.randrange(npop) if npop and rng.random() < 0.7 else NULL,
                      rng.randrange(nind) if nind and rng.random() < 0.6 else NULL, md()])
    # breakpoints and per-segment forests
    nb = rng.randrange(0, min(L, 4))
    bps = [0] + sorted(rng.sample(range(1, L), nb)) + [L] if L > 1 else [0, L]
    segs = list(zip(bps[:-1], bps[1:]))
    parent = [NULL] * n

    def attach(u):
        older = [v for v in range(n) if times[v] > times[u]]
        if not older or rng.random() < p_root:
            return NULL
        # prefer the closest few older nodes so that deep trees appear
        older.sort(key=lambda v: (times[v], v))
        return older[min(int(rng.expovariate(0.7)), len(older) - 1)]

    for u in range(n):
        parent[u] = attach(u)
    forests = []
    for k, (a, b) in enumerate(segs):
        if k > 0:
            parent = list(parent)
            for _ in range(rng.randrange(1, 3)):
                if n:
                    u = rng.randrange(n)
                    parent[u] = attach(u)
        if rng.random() < p_gap:
            forests.append([NULL] * n)
        else:
            forests.append(list(parent))
    edges = []
    for u in range(n):
        k = 0
        while k < len(segs):
            p = forests[k][u]
            if p == NULL:
                k += 1
                continue
            j = k
            # merge abutting segments with the same parent, sometimes leave them unsquashed
            while j + 1 < len(segs) and forests[j + 1][u] == p and rng.random() < 0.85:
                j += 1
            edges.append([segs[k][0], segs[j][1], p, u, md()])
            k = j + 1
    rng.shuffle(edges)
    # sites + mutations
    ns = rng.randrange(0, max_sites + 1)
    cand = [2 * x for x in range(L)] + [2 * x + 1 for x in range(L)]   # half-integer lattice
    pos2 = sorted(rng.sample(cand, min(ns, len(cand))))
    sites = [[p2 / 2 if p2 % 2 else p2 // 2, rng.choice(alleles), md()] for p2 in pos2]
    if unknown_times is None:
        unknown_times = rng.random() < 0.5
    mutations = []
    for s, (pos, anc, _m) in enumerate(sites):
        k = max(i for i, (a, b) in enumerate(segs) if a <= pos)
        par = forests[k]
        nm = rng.randrange(0, max_muts + 1) if n else 0
        ms = sorted((rng.randrange(n) for _ in range(nm)), key=lambda u: -times[u])
        last_on = {}
        base = len(mutations)
        for idx, u in enumerate(ms):
            v, mp = u, NULL
            while v != NULL:
                if v in last_on:
                    mp = last_on[v]
                    break
                v = par[v]
            if unknown_times:
                mt = None
            else:
                # any time in [node time, min(parent mutation time, parent node time)]: use node time
                # for the most recent on a node chain; strictly valid choice: node time.
                mt = times[u]
                if mp != NULL and mutations[mp][4] is not None and mutations[mp][1] == u:
                    mt = mutations[mp][4]
            mutations.append([s, u, rng.choice(alleles), mp, mt, md()])
            last_on[u] = base + idx
    inds = []
    for i in range(nind):
        inds.append([rng.randrange(0, 4), [rng.randrange(-3, 4) for _ in range(rng.randrange(0, 3))],
                     [rng.choice([NULL] + list(range(i))) for _ in range(rng.randrange(0, 3))], md()])
    pops = [[md()] for _ in range(npop)]
    migs = []
    if migrations and npop >= 2 and n:
        for _ in range(rng.randrange(0, 3)):
            a = rng.randrange(0, L)
            migs.append([a, rng.randrange(a + 1, L + 1), rng.randrange(n), 0, 1,
                         rng.randrange(0, max(times) + 2), md()])
        migs.sort(key=lambda m: m[5])
    return {"L": L, "scale": scale, "nodes": nodes, "edges": edges, "sites": sites,
            "mutations": mutations, "individuals": inds, "populations": pops, "migrations": migs}


def build_tables(desc, sort=True, index=True):
    import tskit
    s = desc.get("scale", 1)
    tc = tskit.TableCollection(desc["L"] * s)
    for m, in desc["populations"]:
        tc.populations.add_row(metadata=bytes.fromhex(m))
    for fl, loc, par, m in desc["individuals"]:
        tc.individuals.add_row(flags=fl, location=loc, parents=par, metadata=bytes.fromhex(m))
    for fl, t, p, i, m in desc["nodes"]:
        tc.nodes.add_row(flags=fl, time=t, population=p, individual=i, metadata=bytes.fromhex(m))
    for l, r, p, c, m in desc["edges"]:
        tc.edges.add_row(l * s, r * s, p, c, metadata=bytes.fromhex(m))
    for pos, a, m in desc["sites"]:
        tc.sites.add_row(pos * s, a, metadata=bytes.fromhex(m))
    for site, node, d, par, t, m in desc["mutations"]:
        tc.mutations.add_row(site, node, d, parent=par, time=tskit.UNKNOWN_TIME if t is None else t,
                             metadata=bytes.fromhex(m))
    for l, r, node, src, dst, t, m in desc["migrations"]:
        tc.migrations.add_row(l * s, r * s, node, src, dst, t, metadata=bytes.fromhex(m))
    if sort:
        tc.sort()
    if index:
        tc.build_index()
    return tc


def parent_at(desc, x):
    """Definition: parent(u)=p at integer-lattice position x iff an edge (l,r,p,u) has l<=x<r."""
    par = [NULL] * len(desc["nodes"])
    for l, r, p, c, _ in desc["edges"]:
        if l <= x < r:
            par[c] = p
    return par


def breakpoints(desc):
    pts = {0, desc["L"]}
    for l, r, _p, _c, _m in desc["edges"]:
        pts.add(l)
        pts.add(r)
    return sorted(pts)


def permute_node_ids(rng, desc, p=0.6):
    """tskit puts no constraint on node ids (only times order parents and children).
    random_desc numbers nodes in non-decreasing time order, samples first; this returns an
    equivalent description with the node ids permuted (fully reversed 'ancestors first' with
    probability ~p/3, a random permutation otherwise) and the permutation pi (old id -> new id),
    or (desc, None) when left unchanged.  Edge/mutation/migration row order is preserved."""
    n = len(desc["nodes"])
    if n < 2 or rng.random() >= p:
        return desc, None
    if rng.random() < 1 / 3:
        pi = [n - 1 - u for u in range(n)]
    else:
        pi = list(range(n))
        rng.shuffle(pi)
    nodes = [None] * n
    for u in range(n):
        nodes[pi[u]] = desc["nodes"][u]
    d2 = dict(desc)
    d2["nodes"] = nodes
    d2["edges"] = [[l, r, pi[p_], pi[c], m] for l, r, p_, c, m in desc["edges"]]
    d2["mutations"] = [[s, pi[u], ds, par, t, m] for s, u, ds, par, t, m in desc["mutations"]]
    d2["migrations"] = [[l, r, pi[u], a, b, t, m] for l, r, u, a, b, t, m in desc["migrations"]]
    return d2, pi
