"""Correspondence + oracle runner.  Executed by ./check inside the implementation
environment (PYTHONPATH = staged build of /repo, then /verif).

A property module harness/props/cNN.py defines FAMILIES = [Family subclasses].
For every family the runner
  1. collects cases: corpus/<Cnn>/<family>.jsonl first, then family.generate(rng, tier);
  2. runs the implementation on each case in forked workers (a hang or a crash of
     the C library is an observation, not the end of the run);
  3. evaluates the independent property oracle on (case, observation);
  4. writes cases_*.v files in which the *Coq model* (the definitions the theorems
     are about) is evaluated by vm_compute on the same cases and compared with the
     implementation's observation; coqc prints the indices that disagree.
The result is written as JSON for ./check, which applies the violation protocol.
"""
import importlib
import json
import os
import random
import re
import select
import signal
import sys
import time
import traceback
from concurrent.futures import ThreadPoolExecutor

from harness import common
from harness.common import log


class Family:
    name = "family"
    prelude = ""            # Coq Require lines for the case files
    timeout = 20.0          # CPU seconds per case before it is recorded as a hang (see _is_hung)
    shard = 400             # cases per cases_*.v
    coq_timeout = 900
    workers = int(os.environ.get("VERIF_WORKERS", "6"))

    def generate(self, rng, tier):
        return []

    def observe(self, case):
        raise NotImplementedError

    def oracle(self, case, obs):
        """Independent evaluation of the property on the implementation's output.
        Returns a list of (key, message); empty when the property holds here."""
        return []

    def coq_check(self, case, obs):
        """A Coq term of type bool: `model(case) =? obs`.  None = not modelled."""
        return None

    def nontrivial(self, case, obs):
        return True

    def describe(self, case, obs):
        """Labels for the input-distribution counters in the evidence."""
        return {}

    def shrink(self, case):
        """Smaller variants of a case (for minimising a failing one)."""
        return []


HANG = {"__hang__": True}


def crash_obs(status):
    return {"__crash__": status}


def _cpu_seconds(pid):
    """CPU time (user+system, all threads) consumed so far by process pid, or None."""
    try:
        with open("/proc/%d/stat" % pid) as f:
            parts = f.read().rsplit(")", 1)[1].split()
        return (int(parts[11]) + int(parts[12])) / float(os.sysconf("SC_CLK_TCK"))
    except Exception:
        return None


def _is_hung(a, now, timeout):
    """A case is a hang when the worker has burnt more than `timeout` seconds of CPU on it,
    or has produced nothing for 10 x timeout of wall time (blocked without using CPU).
    Wall time alone is not used below that cap: on a loaded machine a starved worker is
    not a hung one (this was a false alarm once: C02 thorough, load average 40)."""
    wall = now - a["t"]
    if wall <= timeout:
        return False
    cpu = _cpu_seconds(a["pid"])
    if cpu is None:
        return wall > 3 * timeout
    return (cpu - a["cpu"]) > timeout or wall > max(10 * timeout, 300.0)


def _worker(family, cases, wfd):
    out = os.fdopen(wfd, "w")
    for i, c in cases:
        try:
            o = family.observe(c)
        except Exception as e:  # adapter bug: surfaced, never swallowed
            o = {"__adapter_exception__": "%s: %s" % (type(e).__name__, e),
                 "tb": traceback.format_exc()[-1500:]}
        out.write(json.dumps([i, o]) + "\n")
        out.flush()
    out.close()
    os._exit(0)


def observe_all(family, cases):
    """Run family.observe over cases in forked children; returns list of obs."""
    n = len(cases)
    obs = [None] * n
    pending = list(enumerate(cases))
    nw = max(1, min(family.workers, (n + 7) // 8))
    chunks = [pending[k::nw] for k in range(nw)]
    active = []

    def spawn(chunk):
        if not chunk:
            return
        r, w = os.pipe()
        pid = os.fork()
        if pid == 0:
            os.close(r)
            signal.signal(signal.SIGINT, signal.SIG_DFL)
            try:
                _worker(family, chunk, w)
            finally:
                os._exit(1)
        os.close(w)
        active.append({"pid": pid, "fd": r, "buf": b"", "chunk": chunk, "done": 0,
                       "t": time.time(), "cpu": 0.0})

    for ch in chunks:
        spawn(ch)
    while active:
        fds = [a["fd"] for a in active]
        rl, _, _ = select.select(fds, [], [], 0.5)
        now = time.time()
        for a in list(active):
            if a["fd"] in rl:
                data = os.read(a["fd"], 1 << 16)
                if data:
                    a["buf"] += data
                    while b"\n" in a["buf"]:
                        line, a["buf"] = a["buf"].split(b"\n", 1)
                        i, o = json.loads(line)
                        obs[i] = o
                        a["done"] += 1
                        a["t"] = now
                        a["cpu"] = _cpu_seconds(a["pid"]) or a["cpu"]
                    continue
                # EOF: child finished or died
                _, status = os.waitpid(a["pid"], 0)
                os.close(a["fd"])
                active.remove(a)
                if a["done"] < len(a["chunk"]):
                    i, _c = a["chunk"][a["done"]]
                    sig = os.WTERMSIG(status) if os.WIFSIGNALED(status) else None
                    code = os.WEXITSTATUS(status) if os.WIFEXITED(status) else None
                    obs[i] = crash_obs({"signal": sig, "exit": code})
                    spawn(a["chunk"][a["done"] + 1:])
            elif _is_hung(a, now, family.timeout):
                os.kill(a["pid"], signal.SIGKILL)
                os.waitpid(a["pid"], 0)
                os.close(a["fd"])
                active.remove(a)
                i, _c = a["chunk"][a["done"]]
                obs[i] = HANG
                spawn(a["chunk"][a["done"] + 1:])
    return obs


def run_coq_shards(family, terms, workdir, tag):
    """terms: list of (index, coq bool term).  Returns (bad indices, errors)."""
    shards = [terms[k:k + family.shard] for k in range(0, len(terms), family.shard)]
    texts = []
    for s in shards:
        body = ";\n  ".join("(%d%%nat, (%s))" % (i, t) for i, t in s)
        texts.append(
            family.prelude + "\n"
            "Require Import Coq.Lists.List Coq.ZArith.ZArith Coq.Bool.Bool.\nImport ListNotations.\n"
            "Definition verif_cases : list (nat * bool) := [\n  " + body + "].\n"
            "Definition verif_bad := map fst (filter (fun p => negb (snd p)) verif_cases).\n"
            "Eval vm_compute in verif_bad.\n")
    bad, errors = [], []

    def one(k):
        rc, out = common.coqc_text(texts[k], workdir, "cases_%s_%d" % (tag, k),
                                   timeout=family.coq_timeout)
        return k, rc, out

    with ThreadPoolExecutor(max_workers=int(os.environ.get("VERIF_COQ_JOBS", "6"))) as ex:
        for k, rc, out in ex.map(one, range(len(texts))):
            flat = " ".join(out.split())
            m = re.search(r"= \[(.*?)\]\s*: list nat", flat)
            if rc != 0 or not m:
                errors.append({"shard": k, "rc": rc, "output": out[-2000:]})
                continue
            inner = m.group(1).strip()
            if inner:
                bad += [int(x.replace("%nat", "")) for x in inner.split(";")]
    return bad, errors


def load_corpus(prop, family):
    p = os.path.join(common.VERIF, "corpus", prop, family.name + ".jsonl")
    if not os.path.exists(p):
        return []
    return [json.loads(l) for l in open(p) if l.strip()]


def special(o):
    return isinstance(o, dict) and any(k in o for k in ("__hang__", "__crash__", "__adapter_exception__"))


def run_family(prop, family, seed, tier, workdir, model_ok, only_case=None):
    rng = random.Random("%s/%s/%d" % (prop, family.name, seed))
    t0 = time.time()
    if only_case is not None:
        cases = [only_case]
        ncorpus = 0
    else:
        cases = load_corpus(prop, family)
        ncorpus = len(cases)
        cases += list(family.generate(rng, tier))
    obs = observe_all(family, cases)
    t_obs = time.time() - t0
    fails, terms, dist, distinct = [], [], {}, set()
    adapter_errors = []
    for i, (c, o) in enumerate(zip(cases, obs)):
        if isinstance(o, dict) and "__adapter_exception__" in o:
            adapter_errors.append({"index": i, "case": c, "obs": o})
            continue
        if isinstance(o, dict) and "__hang__" in o:
            fs = [("hang", "call used more than %.0fs of CPU (or blocked 10x as long) without returning" % family.timeout)]
        elif isinstance(o, dict) and "__crash__" in o:
            fs = [("crash", "process died: %s" % o["__crash__"])]
        else:
            try:
                fs = [(str(k), str(m)) for k, m in (family.oracle(c, o) or [])]
            except Exception as e:
                adapter_errors.append({"index": i, "case": c, "obs": o,
                                       "oracle_exception": traceback.format_exc()[-1500:]})
                continue
        if fs:
            fails.append({"index": i, "case": c, "obs": o, "failures": fs})
        if not special(o):
            try:
                t = family.coq_check(c, o)
            except Exception:
                adapter_errors.append({"index": i, "case": c, "obs": o,
                                       "coq_check_exception": traceback.format_exc()[-1500:]})
                t = None
            if t is not None:
                terms.append((i, t))
            if family.nontrivial(c, o):
                distinct.add(common.case_hash(c))
            for k, v in (family.describe(c, o) or {}).items():
                d = dist.setdefault(k, {})
                d[str(v)] = d.get(str(v), 0) + 1
    t1 = time.time()
    bad, errors = ([], [])
    if terms and model_ok:
        bad, errors = run_coq_shards(family, terms, workdir, prop + "_" + family.name)
    disagreements = [{"index": i, "case": cases[i], "obs": obs[i]} for i in sorted(set(bad))]
    samples = []
    pick = [i for i in range(len(cases)) if not special(obs[i])]
    for i in pick[:1] + pick[len(pick) // 2:len(pick) // 2 + 1] + pick[-1:]:
        samples.append({"family": family.name, "case": cases[i], "obs": obs[i]})
    return {
        "family": family.name, "cases": len(cases), "corpus_cases": ncorpus,
        "model_evaluated": len(terms) if model_ok else 0,
        "distinct_nontrivial": len(distinct),
        "oracle_failures": fails, "disagreements": disagreements,
        "coq_errors": errors, "adapter_errors": adapter_errors[:20],
        "n_adapter_errors": len(adapter_errors),
        "distribution": dist, "samples": samples,
        "t_observe": round(t_obs, 2), "t_coq": round(time.time() - t1, 2),
    }


def minimise(prop, family, entry, workdir, model_ok, kind):
    """Greedy shrink of a failing / disagreeing case while the same thing persists."""
    want = {k for k, _ in entry.get("failures", [])}

    def still(c):
        o = observe_all(family, [c])[0]
        if kind == "oracle":
            if special(o):
                keys = {"hang"} if "__hang__" in o else ({"crash"} if "__crash__" in o else set())
                return o, bool(keys & want)
            # a smaller case only counts if it fails in (one of) the same way(s)
            return o, bool({str(k) for k, _ in (family.oracle(c, o) or [])} & want)
        if special(o) or not model_ok:
            return o, False
        t = family.coq_check(c, o)
        if t is None:
            return o, False
        bad, errs = run_coq_shards(family, [(0, t)], workdir, prop + "_" + family.name + "_min")
        return o, bool(bad)
    case, obs = entry["case"], entry["obs"]
    budget = 60
    progress = True
    while progress and budget > 0:
        progress = False
        for cand in family.shrink(case):
            budget -= 1
            if budget <= 0:
                break
            try:
                o, bad = still(cand)
            except Exception:
                continue
            if bad:
                case, obs, progress = cand, o, True
                break
    entry = dict(entry)
    entry["case"], entry["obs"] = case, obs
    if kind == "oracle" and not special(obs):
        entry["failures"] = [(str(k), str(m)) for k, m in family.oracle(case, obs)]
    return entry


def main():
    prop, tier, seed, workdir, outpath = sys.argv[1:6]
    model_ok = sys.argv[6] == "1"
    replay = sys.argv[7] if len(sys.argv) > 7 else None
    common.assert_impl_is_staged()
    mod = importlib.import_module("harness.props." + prop.lower())
    fams = [f() if isinstance(f, type) else f for f in mod.FAMILIES]
    results = []
    if replay:
        rp = json.load(open(replay))
        fams = [f for f in fams if f.name == rp.get("family")]
        for f in fams:
            results.append(run_family(prop, f, int(seed), tier, workdir, model_ok, only_case=rp["case"]))
    else:
        only = os.environ.get("VERIF_FAMILY")
        for f in fams:
            if only and f.name not in only.split(","):
                continue
            t0 = time.time()
            r = run_family(prop, f, int(seed), tier, workdir, model_ok)
            # minimise the first few failing cases of each kind
            r["oracle_failures"] = [minimise(prop, f, e, workdir, model_ok, "oracle") if k < 3 else e
                                    for k, e in enumerate(r["oracle_failures"])]
            r["disagreements"] = [minimise(prop, f, e, workdir, model_ok, "model") if k < 3 else e
                                  for k, e in enumerate(r["disagreements"])]
            log("[%s/%s] %d cases, %d model-evaluated, %d oracle failures, %d disagreements, %.1fs"
                % (prop, f.name, r["cases"], r["model_evaluated"], len(r["oracle_failures"]),
                   len(r["disagreements"]), time.time() - t0))
            results.append(r)
    with open(outpath, "w") as f:
        json.dump({"property": prop, "families": results,
                   "not_covered": getattr(mod, "NOT_COVERED", [])}, f)


if __name__ == "__main__":
    main()
