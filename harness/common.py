"""Shared infrastructure of the tskit Rocq/Coq verification framework.

Everything here runs under the *system* python3 or /venv/bin/python: only the
standard library is used.  Nothing in this module imports tskit; the
implementation under test is always the copy built from /repo's working tree
by build_impl() and put first on PYTHONPATH of a child process.
"""
import fcntl
import hashlib
import json
import os
import re
import shutil
import subprocess
import sys
import time

VERIF = os.path.dirname(os.path.dirname(os.path.abspath(__file__)))
REPO = os.environ.get("VERIF_REPO", "/repo")
COQ = os.path.join(VERIF, "coq")
THEORIES = os.path.join(COQ, "theories")
SCRATCH_ROOT = os.environ.get("VERIF_SCRATCH", "/var/tmp/tskit-verif")
VENV_PY = "/venv/bin/python"
HOOK_GUARD = "TSKIT_VERIF_HOOKS"
NS = "TskVerif"

FORBIDDEN = re.compile(
    r"\b(Admitted|admit|Axiom|Axioms|Parameter|Parameters|Conjecture|Conjectures|"
    r"Admit Obligations|bypass_check|native_compute)\b|Unset\s+Guard|"
    r"Unset\s+Positivity|Unset\s+Universe\s+Checking|-type-in-type|-impredicative-set"
)
# Variable/Hypothesis are fine inside a Section only; checked separately.


def log(*a):
    print(*a, file=sys.stderr, flush=True)


class Lock:
    def __init__(self, name):
        os.makedirs(SCRATCH_ROOT, exist_ok=True)
        self.path = os.path.join(SCRATCH_ROOT, name + ".lock")

    def __enter__(self):
        self.f = open(self.path, "w")
        fcntl.flock(self.f, fcntl.LOCK_EX)
        return self

    def __exit__(self, *a):
        fcntl.flock(self.f, fcntl.LOCK_UN)
        self.f.close()


# --------------------------------------------------------------------------
# Building the implementation from /repo's current working tree
# --------------------------------------------------------------------------

def _build_inputs():
    """Every file that enters the staged build (python package + C sources)."""
    out = []
    for top in ("python/tskit", "python/lwt_interface", "c/tskit", "c/subprojects/kastore"):
        base = os.path.join(REPO, top)
        for d, dirs, files in os.walk(base):
            dirs[:] = sorted(x for x in dirs if x not in ("__pycache__", "build", "tests"))
            for f in sorted(files):
                if f.endswith((".py", ".c", ".h", ".json", ".txt")):
                    out.append(os.path.join(d, f))
    for f in ("python/_tskitmodule.c", "python/setup.py", "python/pyproject.toml"):
        out.append(os.path.join(REPO, f))
    return out


def repo_hash(extra=""):
    h = hashlib.sha256()
    for p in _build_inputs():
        h.update(p.encode())
        with open(p, "rb") as f:
            h.update(f.read())
    h.update(extra.encode())
    return h.hexdigest()[:16]


def build_impl(asan=False):
    """Stage /repo/python + /repo/c under SCRATCH_ROOT/<hash>[-asan] and build
    _tskit there.  Returns the directory to put on PYTHONPATH.  Cached by the
    content hash of the sources; stale builds of the same flavour are removed."""
    flavour = "asan" if asan else "opt"
    hooks = os.environ.get(HOOK_GUARD, "")
    sha = repo_hash(flavour + hooks)
    dest = os.path.join(SCRATCH_ROOT, "%s-%s" % (flavour, sha))
    pyroot = os.path.join(dest, "python")
    with Lock("build-" + flavour):
        if os.path.exists(os.path.join(dest, "OK")):
            os.utime(dest)
            return pyroot
        os.makedirs(SCRATCH_ROOT, exist_ok=True)
        old = sorted((d for d in os.listdir(SCRATCH_ROOT)
                      if d.startswith(flavour + "-") and d != os.path.basename(dest)),
                     key=lambda d: os.path.getmtime(os.path.join(SCRATCH_ROOT, d)))
        for d in old[:-2]:      # keep the two most recent other builds (cheap revert)
            shutil.rmtree(os.path.join(SCRATCH_ROOT, d), ignore_errors=True)
        shutil.rmtree(dest, ignore_errors=True)
        os.makedirs(dest)
        t0 = time.time()
        ign = shutil.ignore_patterns("__pycache__", "build", "*.so", "*.o", "tests",
                                     "benchmark", "examples", ".git")
        shutil.copytree(os.path.join(REPO, "python"), pyroot, symlinks=True, ignore=ign)
        shutil.copytree(os.path.join(REPO, "c"), os.path.join(dest, "c"), symlinks=True,
                        ignore=ign)
        env = dict(os.environ)
        env.pop("PYTHONPATH", None)
        if asan:
            env["CFLAGS"] = "-fsanitize=address,undefined -fno-omit-frame-pointer -O1 -g"
            env["LDFLAGS"] = "-fsanitize=address,undefined"
        r = subprocess.run([VENV_PY, "setup.py", "build_ext", "--inplace", "-j16"],
                           cwd=pyroot, env=env, stdout=subprocess.PIPE,
                           stderr=subprocess.STDOUT, text=True)
        if r.returncode != 0:
            log(r.stdout[-4000:])
            raise BuildError("building _tskit from %s failed" % REPO)
        shutil.rmtree(os.path.join(pyroot, "build"), ignore_errors=True)
        with open(os.path.join(dest, "OK"), "w") as f:
            f.write("%s %.1fs\n" % (sha, time.time() - t0))
        log("[build] %s build of /repo in %.1fs -> %s" % (flavour, time.time() - t0, dest))
    return pyroot


class BuildError(Exception):
    pass


def impl_env(pyroot, asan=False):
    env = dict(os.environ)
    env["PYTHONPATH"] = pyroot + os.pathsep + VERIF
    env["PYTHONHASHSEED"] = "0"
    env["VERIF_IMPL_ROOT"] = pyroot
    env["PYTHONDONTWRITEBYTECODE"] = "1"
    if asan:
        def lib(n):
            return subprocess.run(["gcc", "-print-file-name=" + n], stdout=subprocess.PIPE,
                                  text=True).stdout.strip()
        env["LD_PRELOAD"] = lib("libasan.so") + " " + lib("libubsan.so")
        env["ASAN_OPTIONS"] = "detect_leaks=0:abort_on_error=0:exitcode=86"
        env["UBSAN_OPTIONS"] = "halt_on_error=1:exitcode=87:print_stacktrace=1"
    return env


def assert_impl_is_staged():
    """Called inside the implementation process: refuse the 1.0.3 wheel."""
    root = os.environ["VERIF_IMPL_ROOT"]
    import tskit
    import _tskit
    for m in (tskit, _tskit):
        if not os.path.abspath(m.__file__).startswith(os.path.abspath(root)):
            raise SystemExit("import guard: %s loaded from %s, not from %s"
                             % (m.__name__, m.__file__, root))


# --------------------------------------------------------------------------
# Coq side
# --------------------------------------------------------------------------

def scan_forbidden(files):
    """Source scan for declared axioms / admitted proofs / disabled checks."""
    hits = []
    for p in files:
        txt = strip_coq_comments(open(p).read())
        depth = 0
        for n, line in enumerate(txt.split("\n"), 1):
            if re.match(r"\s*Section\b", line):
                depth += 1
            if re.match(r"\s*End\b", line) and depth > 0:
                depth -= 1
            m = FORBIDDEN.search(line)
            if m:
                hits.append("%s:%d: %s" % (p, n, m.group(0)))
            if depth == 0 and re.match(r"\s*(Variables?|Hypothes[ie]s|Context)\b", line):
                hits.append("%s:%d: %s outside a Section" % (p, n, line.strip()[:40]))
    return hits


def strip_coq_comments(s):
    out, depth, i = [], 0, 0
    instr = False
    while i < len(s):
        if not instr and s.startswith("(*", i):
            depth += 1
            i += 2
            continue
        if not instr and depth and s.startswith("*)", i):
            depth -= 1
            i += 2
            continue
        c = s[i]
        if depth == 0:
            if c == '"':
                instr = not instr
            out.append(c)
        elif c == "\n":
            out.append(c)
        i += 1
    return "".join(out)


def coq_files():
    out = []
    for d, dirs, files in os.walk(THEORIES):
        dirs.sort()
        for f in sorted(files):
            if f.endswith(".v"):
                out.append(os.path.join(d, f))
    return out


def module_of(path):
    rel = os.path.relpath(path, THEORIES)[:-2]
    return NS + "." + rel.replace(os.sep, ".")


def path_of(module):
    assert module.startswith(NS + ".")
    return os.path.join(THEORIES, module[len(NS) + 1:].replace(".", os.sep) + ".v")


REQ = re.compile(r"^\s*(?:From\s+(\S+)\s+)?Require\s+(?:Import\s+|Export\s+)?([^.]*(?:\.[A-Za-z_][^.\s]*)*)\s*\.\s*$")


def requires(path):
    """TskVerif modules required by a .v file (Require sentences end at '.' + whitespace)."""
    res = []
    txt = strip_coq_comments(open(path).read()) + "\n"
    for m in re.finditer(r"(?:\bFrom\s+(\S+)\s+)?\bRequire\s+(?:Import\s+|Export\s+)?(.*?)\.(?=\s)", txt, re.S):
        frm, mods = m.group(1), m.group(2).split()
        for mod in mods:
            cands = [mod]
            if frm:
                cands.append(frm + "." + mod)
            cands.append(NS + "." + mod)
            for full in cands:
                if full.startswith(NS + ".") and os.path.exists(path_of(full)):
                    if full not in res:
                        res.append(full)
                    break
    return res


def cone(module):
    seen, todo = [], [module]
    while todo:
        m = todo.pop()
        if m in seen:
            continue
        seen.append(m)
        todo.extend(requires(path_of(m)))
    return seen


PROOF_KW = re.compile(r"^\s*(?:(?:Local|Global|Program|#\[[^\]]*\])\s+)*(Theorem|Lemma|Corollary|Proposition|Fact|Remark|Example|Instance)\s+([A-Za-z_][\w']*)", re.M)


def count_obligations(modules):
    """Statements with a proof script in the given modules: (name list, qed count)."""
    names, qed = [], 0
    for m in modules:
        txt = strip_coq_comments(open(path_of(m)).read())
        names += [m + "." + x[1] for x in PROOF_KW.findall(txt)]
        qed += len(re.findall(r"\b(Qed|Defined)\s*\.", txt))
    return names, qed


def coq_make(jobs=16, timeout=3000, clean=False, modules=None, pre=None):
    """Full .vo build (make -k) of coq/.  Returns (ok, logtext)."""
    with Lock("coqmake"):
        if pre is not None:
            pre()       # e.g. regenerate Gen/Generated.v under the same lock as the build
        gen_coqproject()
        if clean:
            subprocess.run("make -f Makefile.coq cleanall >/dev/null 2>&1; rm -f Makefile.coq Makefile.coq.conf",
                           shell=True, cwd=COQ)
        if not os.path.exists(os.path.join(COQ, "Makefile.coq")) or \
                os.path.getmtime(os.path.join(COQ, "_CoqProject")) > os.path.getmtime(os.path.join(COQ, "Makefile.coq")):
            subprocess.run(["coq_makefile", "-f", "_CoqProject", "-o", "Makefile.coq"], cwd=COQ,
                           check=True, stdout=subprocess.DEVNULL)
        targets = []
        if modules:
            targets = [os.path.relpath(path_of(m), COQ)[:-2] + ".vo" for m in modules
                       if os.path.exists(path_of(m))]
        per_file = int(os.environ.get("VERIF_COQC_TIMEOUT", "900"))
        r = subprocess.run(["timeout", str(timeout), "make", "-k", "-f", "Makefile.coq", "-j%d" % jobs,
                            "COQC=timeout %d coqc" % per_file] + targets,
                           cwd=COQ, stdout=subprocess.PIPE, stderr=subprocess.STDOUT, text=True)
        return r.returncode == 0, r.stdout


def gen_coqproject():
    files = [os.path.relpath(p, COQ) for p in coq_files()]
    body = "-Q theories %s\n-arg -w -arg -notation-overridden,-deprecated-hint-without-locality,-deprecated-instance-without-locality\n" % NS + "\n".join(files) + "\n"
    p = os.path.join(COQ, "_CoqProject")
    if not os.path.exists(p) or open(p).read() != body:
        with open(p, "w") as f:
            f.write(body)


def vo_ok(module):
    v = path_of(module)
    vo = v[:-2] + ".vo"
    return os.path.exists(vo) and os.path.getmtime(vo) >= os.path.getmtime(v)


def coqc_text(text, workdir, name, timeout=600):
    """Compile a throw-away .v (outside theories/) against the built library."""
    os.makedirs(workdir, exist_ok=True)
    p = os.path.join(workdir, name + ".v")
    with open(p, "w") as f:
        f.write(text)
    r = subprocess.run("ulimit -s unlimited 2>/dev/null; timeout %d coqc -Q %s %s -w none %s" % (timeout, THEORIES, NS, p),
                       shell=True, cwd=workdir, stdout=subprocess.PIPE, stderr=subprocess.STDOUT, text=True)
    return r.returncode, r.stdout


def print_assumptions(prop_module, theorems, workdir):
    """{theorem: 'closed' | [axioms...]} using Print Assumptions on the built .vo."""
    txt = "Require Import %s.\n" % prop_module
    for t in theorems:
        txt += 'Goal True. idtac "@@BEGIN %s". Abort.\nPrint Assumptions %s.\nGoal True. idtac "@@END". Abort.\n' % (t, t)
    rc, out = coqc_text(txt, workdir, "assumptions_" + prop_module.split(".")[-1])
    res = {}
    if rc != 0:
        return None, out
    for m in re.finditer(r"@@BEGIN (\S+)\n(.*?)@@END", out, re.S):
        body = m.group(2).strip()
        if body.startswith("Closed under the global context"):
            res[m.group(1)] = "closed"
        else:
            res[m.group(1)] = [l.split(":")[0].strip() for l in body.split("\n")
                               if re.match(r"^[A-Za-z_][\w'.]*\s*:", l)]
    return res, out


# --------------------------------------------------------------------------
# Coq term printing helpers used by the harness modules
# --------------------------------------------------------------------------

def cz(n):
    n = int(n)
    return "(%d)%%Z" % n if n < 0 else "%d%%Z" % n


def cn(n):
    assert n >= 0
    return "%d%%nat" % int(n)


def cN(n):
    assert n >= 0
    return "%d%%N" % int(n)


def cbool(b):
    return "true" if b else "false"


def clist(xs, f=cz):
    return "[" + "; ".join(f(x) for x in xs) + "]"


def copt(x, f=cz):
    return "None" if x is None else "(Some %s)" % f(x)


def cpair(a, b):
    return "(%s, %s)" % (a, b)


def cbytes(bs):
    return clist(list(bs), cz)


def cJ(o):
    """Generic observation tree (Base/J.v): ints, bools, None, str/bytes, lists."""
    if o is None:
        return "JN"
    if isinstance(o, bool):
        return "(JZ %s)" % cz(int(o))
    if isinstance(o, int):
        return "(JZ %s)" % cz(o)
    if isinstance(o, (bytes, bytearray)):
        return "(JL [" + "; ".join("JZ %s" % cz(b) for b in o) + "])"
    if isinstance(o, str):
        return cJ(o.encode("utf8"))
    if isinstance(o, (list, tuple)):
        return "(JL [" + "; ".join(cJ(x) for x in o) + "])"
    raise TypeError("cJ: %r" % (o,))


def canon(o):
    return json.dumps(o, sort_keys=True, separators=(",", ":"), default=str)


def case_hash(o):
    return hashlib.sha256(canon(o).encode()).hexdigest()[:12]
