"""C06 — a Tree's state depends only on where it is, not on how it got there.

Families
  nav_random   random valid ts x tree options x random op sequences (<= 60 ops)
  nav_exh      EXHAUSTIVE op sequences (length 4 quick / 5 thorough) over an alphabet
               instantiated with every tree index and one position per tree + boundaries,
               on small ts (1 tree, gaps at both ends, many equal end-points, ...)
  nav_iter     TreeIterator (ts.trees(), reversed(ts.trees())) against fresh trees
  seek_nan     Tree.seek(float('nan')) must raise (was finding F4, fixed by eee123e; the call
               runs in a grand-child process with a short timeout so that a hang is an
               ordinary observation)
  model        implementation vs the Coq model (C06/Model.v) run on the same
               (edge table, index, breakpoints, op list) by vm_compute

After every op the *full observable state* of the tree is compared (oracle) with a
fresh `ts.at_index(i)` built with the same options (or a fresh null Tree), and with the
definition (parent / children / counts / roots / sites / edge recomputed from the rows).

Coordinates: the ts description is on the integer lattice; all model coordinates are
2*lattice so that seek positions strictly inside a tree are integers too.  The float
used for lattice point c2 is pos_float(desc, c2) (= (c2//2)*scale for even c2, exactly
the float stored in the tables).
"""
import math
import os
import random
import signal
import time

from harness.runner import Family
from harness.common import cz, clist
from harness import gen_ts

NULL = -1


# ----------------------------------------------------------------------------------
# tree-sequence descriptions
# ----------------------------------------------------------------------------------

def many_trees_desc(rng, max_nodes=8, max_segs=8, p_gap=0.15, p_root=0.25, scale=None,
                    max_sites=4, squash=0.85, churn=2, p_internal=0.2, min_segs=1):
    """Own generator: arbitrary number of segments (gen_ts.random_desc caps at 4)."""
    n = rng.randrange(2, max_nodes + 1)
    nseg = rng.randrange(min_segs, max_segs + 1)
    # segment end-points on the integer lattice, not necessarily consecutive
    L = nseg + rng.randrange(0, 3)
    bps = [0] + sorted(rng.sample(range(1, L), nseg - 1)) + [L]
    segs = list(zip(bps[:-1], bps[1:]))
    if scale is None:
        scale = rng.choice([1, 1, 0.5, 0.25, 2.5, 1 / 3, 1e-3, 1e6 + 0.5])
    nleaf = rng.randrange(1, n + 1)
    times, t = [], 0
    for i in range(n):
        if i >= nleaf:
            t += rng.choice([0, 1, 1, 2]) if i > nleaf else 1
        times.append(t)
    nodes = []
    for i in range(n):
        samp = (times[i] == 0 and rng.random() < 0.9) or (times[i] > 0 and rng.random() < p_internal)
        # application-defined flag bits must not matter: only bit 0 makes a sample
        extra = rng.choice([0, 0, 1 << 16, 1 << 19, (1 << 16) | (1 << 20)])
        nodes.append([(1 if samp else 0) | extra, times[i], NULL, NULL, ""])

    def attach(u):
        older = [v for v in range(n) if times[v] > times[u]]
        if not older or rng.random() < p_root:
            return NULL
        older.sort(key=lambda v: (times[v], v))
        return older[min(int(rng.expovariate(0.7)), len(older) - 1)]

    parent = [attach(u) for u in range(n)]
    forests = []
    for k in range(len(segs)):
        if k > 0:
            parent = list(parent)
            for _ in range(rng.randrange(0, churn + 1)):
                u = rng.randrange(n)
                parent[u] = attach(u)
        forests.append([NULL] * n if rng.random() < p_gap else list(parent))
    edges = []
    for u in range(n):
        k = 0
        while k < len(segs):
            p = forests[k][u]
            if p == NULL:
                k += 1
                continue
            j = k
            while j + 1 < len(segs) and forests[j + 1][u] == p and rng.random() < squash:
                j += 1
            edges.append([segs[k][0], segs[j][1], p, u, ""])
            k = j + 1
    rng.shuffle(edges)
    ns = rng.randrange(0, max_sites + 1)
    cand = list(range(2 * L))
    pos2 = sorted(rng.sample(cand, min(ns, len(cand))))
    sites = [[p2 / 2 if p2 % 2 else p2 // 2, "A", ""] for p2 in pos2]
    d = {"L": L, "scale": scale, "nodes": nodes, "edges": edges, "sites": sites,
         "mutations": [], "individuals": [], "populations": [], "migrations": []}
    # tskit puts no constraint on node ids: renumber (reversed or random) most of the time;
    # options / ops are generated from the returned description, so nothing needs remapping
    d, _pi = gen_ts.permute_node_ids(rng, d, p=0.6)
    return d


def ulp_desc(rng, max_nodes=6, max_segs=8):
    """Breakpoints that are CONSECUTIVE doubles (trees one, two or three ulps wide), with odd
    and even mantissas, near 1.0, near binade boundaries and at large / small magnitudes: any
    arithmetic on the coordinates (midpoints, distances) rounds to a neighbouring breakpoint."""
    d = many_trees_desc(rng, max_nodes=max_nodes, min_segs=3, max_segs=max_segs, scale=1, max_sites=4,
                        p_gap=0.1, churn=2)
    base = rng.choice([1.0, math.nextafter(1.0, 2.0), math.nextafter(1.0, 0.0), 1.5, math.nextafter(2.0, 0.0),
                       math.nextafter(4.0, 0.0), 3.0, 2.0 ** 30 + 1, 1e15, 2.0 ** 52, 2.0 ** 53 - 8, 0.1, 1e-5,
                       7.0e5 + 0.25, 1 / 3])
    for _ in range(rng.randrange(0, 4)):
        base = math.nextafter(base, math.inf)           # both mantissa parities
    coords, x = [0.0], base
    for _ in range(d["L"]):
        coords.append(x)
        for _ in range(rng.choice([1, 1, 1, 2, 3])):
            x = math.nextafter(x, math.inf)
    d["coords"] = coords
    d["scale"] = 1
    d["sites"] = [[int(pos), a, m] for pos, a, m in d["sites"] if float(pos).is_integer()]
    return d


def pad_desc(desc, a, b):
    """Shift every coordinate by a and extend the sequence by a + b: gaps at both ends."""
    d = dict(desc)
    d["L"] = desc["L"] + a + b
    d["edges"] = [[l + a, r + a, p, c, m] for l, r, p, c, m in desc["edges"]]
    d["sites"] = [[pos + a, anc, m] for pos, anc, m in desc["sites"]]
    d["migrations"] = []
    return d


def strip_desc(desc):
    """Keep only what navigation can see (smaller case JSON)."""
    d = dict(desc)
    d["nodes"] = [[fl, t, NULL, NULL, ""] for fl, t, _p, _i, _m in desc["nodes"]]
    d["edges"] = [[l, r, p, c, ""] for l, r, p, c, _m in desc["edges"]]
    d["sites"] = [[pos, "A", ""] for pos, _a, _m in desc["sites"]]
    d["mutations"] = []
    d["individuals"] = []
    d["populations"] = []
    d["migrations"] = []
    return d


def special_descs(extra=False):
    """Hand-written shapes named in the task: 1 tree, gaps at both ends, many equal
    end-points, zero edges, a single edge in the middle."""
    def mk(L, nodes, edges, sites=(), scale=1):
        return {"L": L, "scale": scale, "nodes": [[f, t, NULL, NULL, ""] for f, t in nodes],
                "edges": [[l, r, p, c, ""] for l, r, p, c in edges],
                "sites": [[s, "A", ""] for s in sites], "mutations": [], "individuals": [],
                "populations": [], "migrations": []}
    out = []
    # one tree
    out.append(mk(3, [(1, 0), (1, 0), (0, 1)], [(0, 3, 2, 0), (0, 3, 2, 1)], [0, 1.5]))
    # zero edges (one tree, empty)
    out.append(mk(2, [(1, 0), (1, 0)], []))
    # gaps at both ends, one edge in the middle
    out.append(mk(4, [(1, 0), (0, 1)], [(1, 3, 1, 0)], [0.5, 2, 3.5]))
    # gaps at both ends and in the middle
    out.append(mk(7, [(1, 0), (1, 0), (0, 1), (0, 2)],
                  [(1, 3, 2, 0), (1, 3, 2, 1), (4, 6, 3, 0), (4, 6, 3, 1)], [0, 3.5, 6.5]))
    # many equal end-points: every edge breaks at the same points
    out.append(mk(3, [(1, 0), (1, 0), (1, 0), (0, 1), (0, 2)],
                  [(0, 1, 3, 0), (0, 1, 3, 1), (0, 1, 3, 2), (1, 2, 4, 0), (1, 2, 4, 1), (1, 2, 4, 2),
                   (2, 3, 3, 0), (2, 3, 3, 1), (2, 3, 4, 2), (1, 2, 4, 3)], [0.5, 1, 2.5]))
    # unsquashed abutting edges with the same parent (tree does not change at a breakpoint)
    out.append(mk(3, [(1, 0), (0, 1)], [(0, 1, 1, 0), (1, 2, 1, 0), (2, 3, 1, 0)], scale=0.5))
    # staircase: one edge starts and one ends at every breakpoint
    out.append(mk(5, [(1, 0), (1, 0), (1, 0), (0, 1), (0, 2)],
                  [(0, 2, 3, 0), (2, 5, 4, 0), (0, 1, 3, 1), (1, 4, 4, 1), (3, 5, 3, 2), (0, 5, 4, 3)],
                  [0, 2, 4.5], scale=1 / 3))
    # no samples at all
    out.append(mk(2, [(0, 0), (0, 1)], [(0, 1, 1, 0)]))
    if extra:   # not in the exhaustive families (cost)
        # unary chain 0-2-3-1 with an internal sample, node ids NOT in time order, shortened on the right
        out.append(mk(2, [(1, 0), (0, 3), (1, 1), (0, 2)], [(0, 2, 2, 0), (0, 2, 3, 2), (0, 1, 1, 3)], [0.5]))
        # a long trailing edge-less region (more than half of L) after two trees
        out.append(mk(9, [(1, 0), (1, 0), (0, 1), (0, 2)], [(0, 2, 2, 0), (0, 1, 2, 1), (1, 2, 3, 1), (0, 2, 3, 2)], [0, 5]))
        # ... and a long leading one
        out.append(mk(9, [(1, 0), (1, 0), (0, 1), (0, 2)], [(7, 9, 2, 0), (7, 8, 2, 1), (8, 9, 3, 1), (7, 9, 3, 2)], [3, 8]))
    return out


def lat_float(desc, c):
    """The double of lattice point c: c * scale, or desc["coords"][c] for descriptions whose
    breakpoints are arbitrary doubles (e.g. consecutive doubles: one-ulp-wide trees)."""
    if "coords" in desc:
        return float(desc["coords"][c]) if 0 <= c < len(desc["coords"]) else (
            -1.0 - abs(c) if c < 0 else float(desc["coords"][-1]) * 2 + c)
    return c * desc.get("scale", 1)


def build_ts(desc):
    if "coords" not in desc:
        return gen_ts.build_tables(desc).tree_sequence()
    import tskit
    tc = tskit.TableCollection(lat_float(desc, desc["L"]))
    for fl, t, p, i, m in desc["nodes"]:
        tc.nodes.add_row(flags=fl, time=t)
    for l, r, p, c, m in desc["edges"]:
        tc.edges.add_row(lat_float(desc, l), lat_float(desc, r), p, c)
    for pos, a, m in desc["sites"]:
        tc.sites.add_row(lat_float(desc, int(pos)), a)
    tc.sort()
    tc.build_index()
    return tc.tree_sequence()


def pos_float(desc, pos):
    """Float position for a seek argument description.
       ["h", c2]     point c2/2 of the integer lattice (c2 even: exactly the table float)
       ["below", c]  the largest double below lattice point c
       ["above", c]  the smallest double above lattice point c
       ["raw", v]    v ("nan", "inf", "-inf", "-0.0" or a number)"""
    s = desc.get("scale", 1)
    kind, v = pos
    if kind == "h":
        if "coords" in desc:
            a = lat_float(desc, v // 2)
            if v % 2 == 0:
                return a
            b = lat_float(desc, v // 2 + 1)
            m = a + (b - a) / 2
            return m if a < m < b else a        # a one-ulp interval has no interior double
        return (v // 2) * s if v % 2 == 0 else (v / 2) * s
    if kind == "below":
        return math.nextafter(lat_float(desc, v), -math.inf)
    if kind == "above":
        return math.nextafter(lat_float(desc, v), math.inf)
    if kind == "raw":
        return float(v)
    raise ValueError(pos)


def pos_lattice4(desc, pos):
    """Exact location of a finite in-range position on the lattice scaled by 4 (below /
    above a lattice point = +-1), used only to decide which tree should contain it."""
    kind, v = pos
    if kind == "h":
        return 2 * v
    if kind == "below":
        return 4 * v - 1
    if kind == "above":
        return 4 * v + 1
    return None


# ----------------------------------------------------------------------------------
# observation of a Tree
# ----------------------------------------------------------------------------------

def tree_kwargs(opts):
    kw = {"sample_lists": bool(opts.get("sample_lists")),
          "root_threshold": int(opts.get("root_threshold", 1))}
    if opts.get("tracked") is not None:
        how = opts.get("tracked_as", "list")
        tr = list(opts["tracked"])
        if how == "list":
            kw["tracked_samples"] = tr
        else:
            import numpy as np
            if how == "int32":
                kw["tracked_samples"] = np.array(tr, dtype=np.int32)
            elif how == "int64":
                kw["tracked_samples"] = np.array(tr, dtype=np.int64)
            elif how == "strided":      # non-contiguous view
                buf = np.zeros(2 * len(tr), dtype=np.int32)
                buf[::2] = tr
                kw["tracked_samples"] = buf[::2]
            else:                       # reversed view of the reversed data
                kw["tracked_samples"] = np.array(tr[::-1], dtype=np.int32)[::-1]
    return kw


def chain(first, nxt, u, limit):
    out, v = [], int(first[u])
    while v != NULL and len(out) <= limit:
        out.append(v)
        v = int(nxt[v])
    return out


ARRAY_NAMES = ["parent_array", "left_child_array", "right_child_array", "left_sib_array", "right_sib_array",
               "num_children_array", "edge_array"]


def arrays_live(tree):
    """The numpy arrays a Tree hands out (cached at creation / copy) are read-only live views:
    after any move they must equal what the low-level tree reports now, and stay read-only."""
    import numpy as np
    bad = []
    for name in ARRAY_NAMES:
        held = getattr(tree, name)
        now = getattr(tree._ll_tree, name)
        if held.flags.writeable or now.flags.writeable:
            bad.append(name + ":writeable")
        if held.shape != now.shape or not np.array_equal(held, now):
            bad.append(name + ":stale")
    return bad


def tree_state(tree, cmap):
    """Canonical observable state (children as sorted lists, samples as sorted lists).
    cmap maps the floats that can legitimately appear as interval end-points to lattice*2."""
    ts = tree.tree_sequence
    N = ts.num_nodes
    iv = tree.interval
    lc, rc = tree.left_child_array, tree.right_child_array
    ls, rs = tree.left_sib_array, tree.right_sib_array
    kids_l = [sorted(chain(lc, rs, u, N + 1)) for u in range(N + 1)]
    kids_r = [sorted(chain(rc, ls, u, N + 1)) for u in range(N + 1)]
    st = {
        "index": int(tree.index),
        "iv": [cmap.get(float(iv.left), "f:%r" % float(iv.left)),
               cmap.get(float(iv.right), "f:%r" % float(iv.right))],
        "parent": [int(x) for x in tree.parent_array],
        "children": kids_l,
        "children_rl": kids_r,
        "num_children": [int(x) for x in tree.num_children_array],
        "edge": [int(x) for x in tree.edge_array],
        "num_edges": int(tree.num_edges),
        "roots": sorted(int(r) for r in tree.roots),
        "num_roots": int(tree.num_roots),
        "num_samples": [int(tree.num_samples(u)) for u in range(N + 1)],
        "num_tracked": [int(tree.num_tracked_samples(u)) for u in range(N + 1)],
        "samples": [sorted(int(s) for s in tree.samples(u)) for u in range(N + 1)],
        "sites": [int(s.id) for s in tree.sites()],
        "num_sites": int(tree.num_sites),
        "root_threshold": int(tree.root_threshold),
        "span": cmap.get(float(iv.right), 0) - cmap.get(float(iv.left), 0)
        if float(iv.right) in cmap and float(iv.left) in cmap else None,
        "arrays_live": arrays_live(tree),
    }
    if tree._ll_tree.get_options() & 2:   # _tskit.SAMPLE_LISTS: raw linked list too
        ll = tree._ll_tree
        nsamp = ts.num_samples
        lists = []
        for u in range(N + 1):
            a, b = ll.get_left_sample(u), ll.get_right_sample(u)
            out = []
            if a != NULL:
                v = a
                while len(out) <= nsamp:
                    out.append(int(ts.samples()[v]))
                    if v == b:
                        break
                    v = ll.get_next_sample(v)
                    if v == NULL:
                        out.append("broken")
                        break
            lists.append(out if "broken" in out else sorted(out))
        st["sample_lists"] = lists
    return st


def coord_map(desc):
    m = {}
    for c in range(desc["L"] + 1):
        m[float(lat_float(desc, c))] = 2 * c
    return m


class Interner:
    def __init__(self):
        self.states, self.idx = [], {}

    def add(self, st):
        import json
        k = json.dumps(st, sort_keys=True)
        if k not in self.idx:
            self.idx[k] = len(self.states)
            self.states.append(st)
        return self.idx[k]


def exc_name(e):
    return type(e).__name__


def apply_op(desc, cur, other, op):
    """Returns (cur, other, ret, exc, x) after one op on the real implementation."""
    k = op[0]
    ret, exc, x = None, None, None
    try:
        if k == "first":
            ret = cur.first()
        elif k == "last":
            ret = cur.last()
        elif k == "next":
            ret = cur.next()
        elif k == "prev":
            ret = cur.prev()
        elif k == "clear":
            ret = cur.clear()
        elif k == "seek":
            x = pos_float(desc, op[1])
            ret = cur.seek(x)
        elif k == "seek_index":
            ret = cur.seek_index(op[1])
        elif k == "ll_seek":
            x = pos_float(desc, op[1])
            ret = cur._ll_tree.seek(x)
        elif k == "ll_seek_index":
            ret = cur._ll_tree.seek_index(op[1])
        elif k == "copy":
            other, cur = cur, cur.copy()
        elif k == "swap":
            cur, other = other, cur
        else:
            raise RuntimeError("unknown op %r" % (op,))
    except (ValueError, IndexError, OverflowError, TypeError) as e:
        exc = exc_name(e)
    except Exception as e:          # LibraryError etc.
        exc = exc_name(e)
    if isinstance(ret, bool):
        ret = int(ret)
    return cur, other, ret, exc, x


def run_ops(desc, ts, opts, ops, interner, cmap):
    """[[ret, exc, state idx of cur, state idx of other, [ivl, ivr] floats]] per op."""
    import tskit
    kw = tree_kwargs(opts)
    cur = tskit.Tree(ts, **kw)
    other = tskit.Tree(ts, **kw)
    steps = []
    for op in ops:
        cur, other, ret, exc, x = apply_op(desc, cur, other, op)
        iv = cur.interval
        import numpy as np
        alias = bool(cur is not other and any(np.shares_memory(getattr(cur, n), getattr(other, n)) for n in ARRAY_NAMES))
        steps.append([ret, exc, interner.add(tree_state(cur, cmap)),
                      interner.add(tree_state(other, cmap)), [float(iv.left), float(iv.right), alias]])
    return steps


def fresh_states(ts, opts, interner, cmap):
    import tskit
    kw = tree_kwargs(opts)
    null = interner.add(tree_state(tskit.Tree(ts, **kw), cmap))
    out = []
    for i in range(ts.num_trees):
        try:
            out.append(interner.add(tree_state(ts.at_index(i, **kw), cmap)))
        except Exception as e:      # a fresh at_index that raises is an observation, not an adapter bug
            out.append(interner.add({"index": "at_index(%d) raised %s" % (i, exc_name(e)), "iv": [None, None],
                                     "parent": [], "children": [], "children_rl": [], "num_children": [],
                                     "edge": [], "num_edges": -1, "roots": [], "num_roots": 0,
                                     "num_samples": [], "num_tracked": [], "samples": [], "sites": [],
                                     "num_sites": 0, "root_threshold": 0, "span": None}))
    return {"null": null, "at_index": out}


def table_obs(ts, cmap):
    t = ts.tables
    return {
        "edges": [[cmap[float(l)], cmap[float(r)], int(p), int(c)]
                  for l, r, p, c in zip(t.edges.left, t.edges.right, t.edges.parent, t.edges.child)],
        "I": [int(x) for x in t.indexes.edge_insertion_order],
        "O": [int(x) for x in t.indexes.edge_removal_order],
        "bps": [cmap[float(b)] for b in ts.breakpoints(as_array=True)],
        "bps_f": [float(b) for b in ts.breakpoints(as_array=True)],
        "samples": [int(s) for s in ts.samples()],
        "site_pos": [float(p) for p in t.sites.position],
        "N": int(ts.num_nodes),
        "L2": cmap[float(ts.sequence_length)],
    }


# ----------------------------------------------------------------------------------
# the independent oracle
# ----------------------------------------------------------------------------------

def definition_state(desc, tab, opts, k):
    """State of tree k straight from the definition (rows -> parent map -> everything)."""
    N = tab["N"]
    bps = tab["bps"]
    a, b = bps[k], bps[k + 1]
    parent = [NULL] * (N + 1)
    edge = [NULL] * (N + 1)
    ne = 0
    for eid, (l, r, p, c) in enumerate(tab["edges"]):
        if l <= a < r:
            parent[c] = p
            edge[c] = eid
            ne += 1
    children = [[] for _ in range(N + 1)]
    for c in range(N):
        if parent[c] != NULL:
            children[parent[c]].append(c)
    is_sample = [False] * (N + 1)
    for s in tab["samples"]:
        is_sample[s] = True
    tracked = set(opts.get("tracked") or [])

    def below(u):
        out, todo = [], [u]
        while todo:
            v = todo.pop()
            out.append(v)
            todo.extend(children[v])
        return out
    ns = [sum(1 for v in below(u) if is_sample[v]) for u in range(N)]
    nt = [sum(1 for v in below(u) if v in tracked) for u in range(N)]
    thr = int(opts.get("root_threshold", 1))
    roots = sorted(u for u in range(N) if parent[u] == NULL and ns[u] >= thr)
    samples = [sorted(v for v in below(u) if is_sample[v]) for u in range(N)]
    children[N] = list(roots)
    fa, fb = tab["bps_f"][k], tab["bps_f"][k + 1]
    sites = [i for i, p in enumerate(tab["site_pos"]) if fa <= p < fb]
    return {"index": k, "iv": [a, b], "parent": parent, "edge": edge, "num_edges": ne,
            "children": [sorted(x) for x in children], "roots": roots, "num_roots": len(roots),
            "num_samples": ns, "num_tracked": nt, "samples": samples, "sites": sites,
            "num_sites": len(sites)}


def diff_fields(a, b, fields=None):
    out = []
    for f in (fields or sorted(set(a) | set(b))):
        if a.get(f) != b.get(f):
            out.append(f)
    return out


def classify_diff(desc, opts, tab, st, ref, states, fresh):
    """Differences between a reached state and the fresh tree of the same index, keyed by
    input class.  Two classes are recognised precisely (the former findings F14 / F15, fixed
    in /repo: their keys are ordinary violations now); anything else gets the generic key."""
    bad = diff_fields(st, ref)
    if not bad:
        return []
    out = []
    kind = "null" if st["index"] == -1 else "tree"
    g_sites = [f for f in bad if f in ("sites", "num_sites")]
    g_tr = [f for f in bad if f == "num_tracked"]
    rest = [f for f in bad if f not in g_sites and f not in g_tr]
    if g_sites:
        stale = st["index"] == -1 and st["num_sites"] == len(st["sites"]) and any(
            states[i]["sites"] == st["sites"] for i in fresh["at_index"])
        key = "stale-sites-in-null-state" if stale else "state-differs-from-fresh:%s:%s" % (kind, ",".join(g_sites))
        out.append((key, "sites %r, fresh tree has %r" % (st["sites"], ref["sites"])))
    if g_tr:
        # nodes whose tracked count may be polluted by a stale count on an internal sample:
        # internal samples (a sample that is the parent of some edge) and everything above them
        samples = set(tab["samples"])
        up = {p for _l, _r, p, _c in tab["edges"] if p in samples}
        grew = True
        while grew:
            grew = False
            for _l, _r, p, c in tab["edges"]:
                if c in up and p not in up:
                    up.add(p)
                    grew = True
        a, b = st["num_tracked"], ref["num_tracked"]
        differing = [u for u in range(len(a)) if a[u] != b[u]]
        stale = bool(opts.get("tracked")) and all(u in up and a[u] > b[u] for u in differing)
        key = "stale-tracked-count-internal-sample" if stale else "state-differs-from-fresh:%s:num_tracked" % kind
        out.append((key, "num_tracked %r, fresh tree has %r" % (a, b)))
    if rest:
        out.append(("state-differs-from-fresh:%s:%s" % (kind, ",".join(rest)),
                    repr({f: (st.get(f), ref.get(f)) for f in rest[:3]})))
    return out



def expected_tree_of(tab, desc, pos):
    """Index of the tree that should contain the position, straight from the definition on the
    doubles: the tree k with breakpoints[k] <= x < breakpoints[k+1] (None: out of range / NaN)."""
    x = pos_float(desc, pos)
    bf = tab["bps_f"]
    if x != x or not (0 <= x < bf[-1]):
        return None
    k = 0
    for i, b in enumerate(bf[:-1]):
        if b <= x:
            k = i
    return k


def check_state_internal(st, N):
    """Consistency of the linked structure inside one state (no reference needed)."""
    out = []
    if st["children"] != st["children_rl"]:
        out.append("children-chains")
    if st["num_children"] != [len(c) for c in st["children"]]:
        out.append("num_children")
    byparent = [[] for _ in range(N + 1)]
    for c, p in enumerate(st["parent"][:N]):
        if p != NULL:
            byparent[p].append(c)
    if [sorted(x) for x in byparent[:N]] != st["children"][:N]:
        out.append("children-vs-parent")
    if st["children"][N] != st["roots"]:
        out.append("virtual-root-children-vs-roots")
    if "sample_lists" in st and st["sample_lists"][:N] != st["samples"][:N]:
        out.append("sample_lists-vs-samples")
    if st["num_roots"] != len(st["roots"]) or st["num_sites"] != len(st["sites"]):
        out.append("num_roots/num_sites")
    if st.get("arrays_live"):
        out.append("arrays-not-live:" + ",".join(st["arrays_live"]))
    return out


def oracle_steps(desc, opts, tab, states, fresh, ops, steps, tag=""):
    """The property text evaluated naively on implementation output."""
    fails = []
    T = len(tab["bps"]) - 1
    N = tab["N"]
    # (0) every fresh tree is what the definition says, the fresh null tree is null
    for k, si in enumerate(fresh["at_index"]):
        d = definition_state(desc, tab, opts, k)
        st = states[si]
        bad = [f for f in d if (st[f][:N] if f in ("num_samples", "num_tracked", "samples") else st[f]) != d[f]]
        if bad:
            fails.append(("fresh-vs-definition:" + ",".join(bad), "tree %d: %r" % (k, {f: (st[f], d[f]) for f in bad})))
        bad = check_state_internal(st, N)
        if bad:
            fails.append(("fresh-inconsistent:" + ",".join(bad), "tree %d" % k))
    nst = states[fresh["null"]]
    if nst["index"] != -1 or nst["iv"] != [0, 0] or any(p != NULL for p in nst["parent"]) or nst["num_edges"] != 0:
        fails.append(("fresh-null-not-null", repr(nst)))
    # (1) the walk
    idx_cur, idx_other = -1, -1
    for n, (op, (ret, exc, si, so, ivf)) in enumerate(zip(ops, steps)):
        st, sto = states[si], states[so]
        k = op[0]
        exp_exc = None
        exp_idx = idx_cur
        if k == "first":
            exp_idx = 0
        elif k == "last":
            exp_idx = T - 1
        elif k == "next":
            exp_idx = idx_cur + 1 if idx_cur + 1 < T else -1
        elif k == "prev":
            exp_idx = (T - 1) if idx_cur == -1 else idx_cur - 1
        elif k == "clear":
            exp_idx = -1
        elif k == "seek":
            e = expected_tree_of(tab, desc, op[1])
            if op[1][0] == "raw" and str(op[1][1]) == "nan":
                exp_exc = "ValueError"
            elif e is None:
                exp_exc = "ValueError"
            else:
                exp_idx = e
        elif k == "seek_index":
            i = op[1]
            if -T <= i < T:
                exp_idx = i % T
            else:
                exp_exc = "IndexError"
        elif k == "ll_seek":            # only the C guard of tsk_tree_seek
            e = expected_tree_of(tab, desc, op[1])
            if e is None:
                exp_exc = "LibraryError"
            else:
                exp_idx = e
        elif k == "ll_seek_index":      # only the C guard of tsk_tree_seek_index
            if 0 <= op[1] < T:
                exp_idx = op[1]
            else:
                exp_exc = "LibraryError"
        elif k == "copy":
            idx_other = idx_cur
        elif k == "swap":
            idx_cur, idx_other = idx_other, idx_cur
            exp_idx = idx_cur
        where = "%sstep %d %r" % (tag, n, op)
        if exc != exp_exc:
            fails.append(("exception:%s:%s-instead-of-%s" % (k, exc, exp_exc), where))
        if exp_exc is None and exc is None:
            idx_cur = exp_idx
        if st["index"] != idx_cur:
            fails.append(("index-transition:%s" % k, "%s: index %d, expected %d" % (where, st["index"], idx_cur)))
        if sto["index"] != idx_other:
            fails.append(("other-tree-moved:%s" % k, "%s: index %d, expected %d" % (where, sto["index"], idx_other)))
        if k in ("next", "prev") and exc is None:
            if ret not in (0, 1) or (ret == 0) != (st["index"] == -1):
                fails.append(("return-value:%s" % k, "%s returned %r, index now %d" % (where, ret, st["index"])))
        if len(ivf) > 2 and ivf[2]:
            fails.append(("copy-shares-arrays", "%s: arrays of the two trees share memory" % where))
        if k in ("seek", "ll_seek") and exc is None:
            x = pos_float(desc, op[1])
            if not (ivf[0] <= x < ivf[1]):
                fails.append(("seek-not-in-interval", "%s: x=%r interval=%r" % (where, x, ivf)))
        # (2) the state equals the fresh tree of the same index (or a fresh null tree)
        for which, s in (("cur", st), ("other", sto)):
            i = s["index"]
            ref = states[fresh["null"]] if i == -1 else (states[fresh["at_index"][i]] if 0 <= i < T else None)
            if ref is None:
                fails.append(("index-out-of-range", "%s: %s index %d" % (where, which, i)))
                continue
            for key, msg in classify_diff(desc, opts, tab, s, ref, states, fresh):
                fails.append((key, "%s (%s tree, index %d): %s" % (where, which, i, msg)))
        if len(fails) > 6:
            break
    return fails


# ----------------------------------------------------------------------------------
# op generators
# ----------------------------------------------------------------------------------

def random_pos(rng, desc, tab_bps=None):
    L = desc["L"]
    r = rng.random()
    if r < 0.55:
        return ["h", rng.randrange(0, 2 * L)]
    if r < 0.65:
        return ["h", 0]
    if r < 0.75:
        return ["below", L]                     # L - eps
    if r < 0.85:
        return ["below", rng.randrange(1, L + 1)]
    if r < 0.9:
        return ["above", rng.randrange(0, L)]
    return rng.choice([["raw", "-0.0"], ["raw", "inf"], ["raw", "-inf"], ["h", 2 * L], ["h", -1],
                       ["above", L], ["below", 0], ["h", 2 * L + 3]])


def random_ops(rng, desc, T, n):
    ops = []
    mode = rng.choice(["mixed", "mixed", "walk", "seeky", "nullish"])
    for _ in range(n):
        r = rng.random()
        if mode == "walk":
            w = [("next", 30), ("prev", 30), ("first", 3), ("last", 3), ("clear", 3), ("seek", 8),
                 ("seek_index", 8), ("copy", 3), ("swap", 2)]
        elif mode == "seeky":
            w = [("next", 8), ("prev", 8), ("first", 2), ("last", 2), ("clear", 6), ("seek", 35),
                 ("seek_index", 25), ("copy", 4), ("swap", 3)]
        elif mode == "nullish":
            w = [("next", 10), ("prev", 10), ("first", 4), ("last", 4), ("clear", 25), ("seek", 20),
                 ("seek_index", 15), ("copy", 5), ("swap", 4)]
        else:
            w = [("next", 15), ("prev", 15), ("first", 5), ("last", 5), ("clear", 8), ("seek", 20),
                 ("seek_index", 15), ("copy", 5), ("swap", 4)]
        tot = sum(x for _, x in w)
        r *= tot
        for name, x in w:
            r -= x
            if r < 0:
                break
        if name == "seek":
            ops.append(["ll_seek" if rng.random() < 0.15 else "seek", random_pos(rng, desc)])
        elif name == "seek_index":
            if rng.random() < 0.12:
                # ids below -1 are rejected by tsk_id_converter (_tskitmodule.c) before the C library is reached
                ops.append(["ll_seek_index", rng.choice([rng.randrange(0, T), rng.randrange(-1, T + 2)])])
            elif rng.random() < 0.85:
                ops.append(["seek_index", rng.randrange(-T, T)])
            else:
                ops.append(["seek_index", rng.choice([T, -T - 1, T + 5, -T - 7])])
        else:
            ops.append([name])
        if name == "clear" and rng.random() < 0.3:
            ops.append(["clear"])               # repeated clear
    return ops[:n]


def random_opts(rng, desc):
    samples = [i for i, nd in enumerate(desc["nodes"]) if nd[0] & 1]
    tracked = None
    if rng.random() < 0.6:
        tracked = sorted(rng.sample(samples, rng.randrange(0, len(samples) + 1)))
    return {"sample_lists": rng.random() < 0.5, "tracked": tracked,
            "tracked_as": rng.choice(["list", "list", "int32", "int64", "strided", "reversed"]),
            "root_threshold": rng.choice([1, 1, 2, 3])}


def random_ts_desc(rng):
    for _ in range(20):
        d = random_ts_desc1(rng)
        if num_trees_of(d) > 1 or rng.random() < 0.15:
            break
    return d


def random_ts_desc1(rng):
    r = rng.random()
    if r < 0.45:
        d = many_trees_desc(rng, max_nodes=rng.choice([4, 6, 8, 12]), max_segs=rng.choice([2, 4, 8, 12]))
    elif r < 0.8:
        d = strip_desc(gen_ts.random_desc(rng, max_nodes=rng.choice([4, 8, 12]), max_L=rng.choice([4, 8, 10]),
                                          metadata=False, individuals=False, populations=False, max_muts=0))
        d, _pi = gen_ts.permute_node_ids(rng, d, p=0.6)
    elif r < 0.9:
        d = many_trees_desc(rng, max_nodes=10, max_segs=2, squash=0.3)      # many equal end-points
    else:
        d = rng.choice(special_descs(extra=True))
    r = rng.random()
    if r < 0.2:
        d = pad_desc(d, rng.randrange(0, 3), rng.randrange(0, 3))            # gaps at the ends
    elif r < 0.4:
        d = long_gap_desc(rng, d)
    return d


def long_gap_desc(rng, d):
    """Leading and / or trailing edge-less region longer than the whole edge span (so it covers
    more than half of the genome: a seek into it from the null state uses the scan direction
    that has to run over EVERY edge)."""
    big = d["L"] + rng.randrange(1, 4)
    which = rng.choice(["lead", "trail", "trail", "both"])
    return pad_desc(d, big if which in ("lead", "both") else rng.randrange(0, 2),
                    big if which in ("trail", "both") else rng.randrange(0, 2))


def continue_ops(rng, desc, T, n_targets=4, ll=True):
    """Histories that CONTINUE after every way of arriving somewhere: seek / seek_index from the
    null state or from a tree, clear, running off either end — followed by a run of prev() or
    next() steps (the cursor bookmark left by an arrival is only observable one step later)."""
    L = desc["L"]
    bps = gen_ts.breakpoints(desc)
    ops = []
    for _ in range(n_targets):
        if rng.random() < 0.6:
            ops.append(["clear"])
        r = rng.random()
        k = rng.choice([0, T - 1, rng.randrange(0, T)])
        if r < 0.4:
            ops.append(["seek", ["h", bps[k] + bps[k + 1]]])
        elif r < 0.55:
            ops.append(["seek", ["h", 2 * bps[k]]])
        elif r < 0.8:
            ops.append(["seek_index", rng.choice([k, k - T])])
        elif r < 0.9 and ll:
            ops.append(["ll_seek_index", k])
        else:
            ops.append(rng.choice([["first"], ["last"], ["next"], ["prev"]]))
        step = rng.choice(["prev", "next"])
        for _ in range(rng.choice([1, 2, T, T + 2])):
            ops.append([step])
        if rng.random() < 0.5:                      # and back again
            back = "next" if step == "prev" else "prev"
            for _ in range(rng.choice([1, 2, T + 1])):
                ops.append([back])
    return ops[:60]


def num_trees_of(desc):
    return len(gen_ts.breakpoints(desc)) - 1


def shrink_ops_case(case):
    ops = case["ops"]
    nan = [op for op in ops if op[0] in ("seek", "ll_seek") and op[1][0] == "raw" and str(op[1][1]) == "nan"]
    if nan:
        # a NaN seek that is not rejected may hang: do not pay the hang timeout for every
        # shrink candidate, go straight to the minimal sequence
        if ops != [["first"], nan[0]]:
            c = dict(case)
            c["ops"] = [["first"], nan[0]]
            yield c
        return
    for i in range(len(ops)):
        c = dict(case)
        c["ops"] = ops[:i] + ops[i + 1:]
        yield c
    if len(ops) > 1:
        c = dict(case)
        c["ops"] = ops[:len(ops) // 2]
        yield c
    if case.get("opts", {}).get("sample_lists") or case.get("opts", {}).get("tracked") is not None \
            or case.get("opts", {}).get("root_threshold", 1) != 1:
        c = dict(case)
        c["opts"] = {"sample_lists": False, "tracked": None, "root_threshold": 1}
        yield c


# ----------------------------------------------------------------------------------
# families
# ----------------------------------------------------------------------------------

class NavRandom(Family):
    name = "nav_random"
    workers = 8
    timeout = 60.0

    def generate(self, rng, tier):
        n = 700 if tier == "quick" else 12000
        for _ in range(n):
            d = random_ts_desc(rng)
            T = num_trees_of(d)
            yield {"desc": d, "opts": random_opts(rng, d),
                   "ops": random_ops(rng, d, T, rng.choice([5, 15, 30, 60]))}

    def observe(self, case):
        desc = case["desc"]
        ts = build_ts(desc)
        cmap = coord_map(desc)
        it = Interner()
        fresh = fresh_states(ts, case["opts"], it, cmap)
        steps = run_ops(desc, ts, case["opts"], case["ops"], it, cmap)
        return {"tab": table_obs(ts, cmap), "fresh": fresh, "steps": steps, "states": it.states}

    def oracle(self, case, obs):
        return oracle_steps(case["desc"], case["opts"], obs["tab"], obs["states"], obs["fresh"],
                            case["ops"], obs["steps"])

    def nontrivial(self, case, obs):
        return len(obs["tab"]["bps"]) > 2 and len(case["ops"]) >= 5

    def describe(self, case, obs):
        T = len(obs["tab"]["bps"]) - 1
        return {"num_trees": T if T < 8 else ("8-29" if T < 30 else "30+"), "ops": len(case["ops"]),
                "sample_lists": case["opts"]["sample_lists"],
                "root_threshold": case["opts"]["root_threshold"],
                "tracked": case["opts"]["tracked"] is not None}

    def shrink(self, case):
        return shrink_ops_case(case)


def exh_alphabet(desc, kind="full"):
    bps = gen_ts.breakpoints(desc)
    T = len(bps) - 1
    L = desc["L"]
    if kind == "core":
        alpha = [["first"], ["last"], ["next"], ["prev"], ["clear"]]
        alpha += [["seek_index", i] for i in range(T)]
        alpha += [["seek", ["h", bps[i] + bps[i + 1]]] for i in range(T)]
        return alpha
    alpha = [["first"], ["last"], ["next"], ["prev"], ["clear"], ["copy"], ["swap"]]
    for i in range(T):
        alpha.append(["seek_index", i])
    alpha.append(["seek_index", -1])
    for i in range(T):
        alpha.append(["seek", ["h", bps[i] + bps[i + 1]]])     # midpoint of tree i (lattice*2)
    alpha.append(["seek", ["h", 0]])
    alpha.append(["seek", ["below", L]])
    seen, out = set(), []
    for a in alpha:
        k = repr(a)
        if k not in seen:
            seen.add(k)
            out.append(a)
    return out


def sequences(alpha, n):
    if n == 0:
        yield []
        return
    for s in sequences(alpha, n - 1):
        for a in alpha:
            yield s + [a]


class NavExhaustive(Family):
    """All op sequences of a fixed length over the alphabet; a case = (ts, opts, prefix of
    length 2) and all completions are run inside observe (each from a brand-new Tree)."""
    name = "nav_exh"
    workers = 8
    timeout = 300.0

    def descs(self, rng, tier):
        out = list(special_descs())
        n = 1 if tier == "quick" else 6
        while len(out) < len(special_descs()) + n:
            d = many_trees_desc(rng, max_nodes=5, max_segs=4, max_sites=2)
            if rng.random() < 0.3:
                d = pad_desc(d, 1, 1)
            if 2 <= num_trees_of(d) <= 4:
                out.append(d)
        return out

    def generate(self, rng, tier):
        # quick:    full alphabet x length 3, core alphabet x length 4 (<= 3 trees)
        # thorough: full alphabet x length 4, core alphabet x length 5 (<= 4 trees)
        for d in self.descs(rng, tier):
            T = num_trees_of(d)
            if tier == "quick":
                plans = [("full", 3)] + ([("core", 4)] if T <= 3 else [])
            else:
                plans = [("full", 4 if T <= 3 else 3), ("core", 5 if T <= 2 else 4)]
            for kind, length in plans:
                alpha = exh_alphabet(d, kind)
                opts = random_opts(rng, d)
                for pre in sequences(alpha, length - 2):
                    yield {"desc": d, "opts": opts, "prefix": pre, "length": length, "alphabet": kind}

    def observe(self, case):
        desc = case["desc"]
        ts = build_ts(desc)
        cmap = coord_map(desc)
        it = Interner()
        fresh = fresh_states(ts, case["opts"], it, cmap)
        alpha = exh_alphabet(desc, case.get("alphabet", "full"))
        runs = []
        for suf in sequences(alpha, case["length"] - len(case["prefix"])):
            ops = case["prefix"] + suf
            runs.append([ops, run_ops(desc, ts, case["opts"], ops, it, cmap)])
        return {"tab": table_obs(ts, cmap), "fresh": fresh, "runs": runs, "states": it.states}

    def oracle(self, case, obs):
        fails = []
        for ops, steps in obs["runs"]:
            fails += oracle_steps(case["desc"], case["opts"], obs["tab"], obs["states"], obs["fresh"],
                                  ops, steps, tag="%r: " % (ops,))
            if len(fails) > 4:
                break
        return fails

    def nontrivial(self, case, obs):
        return True

    def describe(self, case, obs):
        return {"num_trees": len(obs["tab"]["bps"]) - 1,
                "alphabet": "%s:%d" % (case.get("alphabet", "full"), len(exh_alphabet(case["desc"], case.get("alphabet", "full")))),
                "sequences_per_case": len(obs["runs"]), "length": case["length"]}


class NavIter(Family):
    """TreeIterator: ts.trees(**kw) and reversed(ts.trees(**kw)) visit every tree once, in
    order, in the state of a fresh tree; the iterator's tree ends in the null state."""
    name = "nav_iter"
    workers = 8
    prelude = "From TskVerif Require Import Base.Common C06.Model C06.IterProofs.\nOpen Scope Z_scope."
    shard = 100

    def generate(self, rng, tier):
        for d in special_descs(extra=True):
            yield {"desc": d, "opts": {"sample_lists": True, "tracked": None, "root_threshold": 1}}
        for _ in range(150 if tier == "quick" else 2000):
            d = random_ts_desc(rng)
            yield {"desc": d, "opts": random_opts(rng, d)}
        for _ in range(25 if tier == "quick" else 300):  # one-ulp-wide trees: at_index / aslist / copies
            d = ulp_desc(rng)
            yield {"desc": d, "opts": random_opts(rng, d)}
        k = 0
        while k < (60 if tier == "quick" else 600):     # small ts: also evaluated in Coq
            d = many_trees_desc(rng, max_nodes=rng.choice([3, 5, 8]), max_segs=rng.choice([2, 4, 7]),
                                scale=rng.choice([1, 0.5, 2.5]), p_internal=0.3)
            if len(d["edges"]) > 10:
                continue
            k += 1
            yield {"desc": d, "opts": random_opts(rng, d)}

    def observe(self, case):
        desc = case["desc"]
        ts = build_ts(desc)
        cmap = coord_map(desc)
        it = Interner()
        fresh = fresh_states(ts, case["opts"], it, cmap)
        kw = tree_kwargs(case["opts"])
        fwd = [it.add(tree_state(t, cmap)) for t in ts.trees(**kw)]
        itr = ts.trees(**kw)
        rev = [it.add(tree_state(t, cmap)) for t in reversed(itr)]
        end = it.add(tree_state(itr.tree, cmap))
        # exhausted iterator keeps raising StopIteration
        again = 0
        try:
            next(itr)
            again = 1
        except StopIteration:
            pass
        # stale state: the exhausted iterator's tree, and a copy of it, are re-used
        reuse = []
        tx = itr.tree
        for op in (["next"], ["prev"], ["prev"], ["seek_index", -1], ["next"], ["clear"], ["last"]):
            tx, _o, ret_, exc_, _x = apply_op(desc, tx, tx, op)
            reuse.append([op, exc_, it.add(tree_state(tx, cmap))])
        tcopy = ts.trees(**kw)
        for _t in tcopy:
            pass
        tc2 = tcopy.tree.copy()
        tc2, _o, _r, exc_, _x = apply_op(desc, tc2, tc2, ["prev"])
        reuse.append([["copy-of-exhausted", "prev"], exc_, it.add(tree_state(tc2, cmap))])
        # mixed use: iterate two steps, then navigate the iterator's tree by hand
        itr2 = ts.trees(**kw)
        mixed = []
        try:
            t = next(itr2)
            mixed.append(it.add(tree_state(t, cmap)))
            t.last()
            mixed.append(it.add(tree_state(t, cmap)))
            t = next(itr2)
            mixed.append(it.add(tree_state(t, cmap)))
        except StopIteration:
            mixed.append("stop")
        # ts.aslist(): copies of the iterator's tree (Tree.copy -> tsk_tree_copy with TSK_NO_INIT),
        # each then navigated on its own (the copies must be independent of each other)
        lst = ts.aslist(**kw)
        aslist = [it.add(tree_state(t, cmap)) for t in lst]
        moved = []
        for i, t in enumerate(lst):
            (t.next if i % 2 == 0 else t.prev)()
            moved.append(it.add(tree_state(t, cmap)))
        # every navigation op applied to a COPY of every aslist() element (a copy of a positioned
        # tree must continue in the edge indexes exactly where the original stands), and the
        # element itself must stay where it was
        copy_ops = []
        T_ = ts.num_trees
        if T_ <= 8:
            bps_l = [cmap[float(b)] for b in ts.breakpoints(as_array=True)]
            cand = [["next"], ["prev"]] + [["seek_index", j] for j in range(-1, T_)] + \
                   [["seek", ["h", (bps_l[j] + bps_l[j + 1]) // 2]] for j in range(T_)]
            lst2 = ts.aslist(**kw)
            for i, t in enumerate(lst2):
                for op in cand:
                    c = t.copy()
                    c, _o, ret, exc, _x = apply_op(desc, c, c, op)
                    copy_ops.append([i, op, ret, exc, it.add(tree_state(c, cmap)), it.add(tree_state(t, cmap))])
        # every __next__ call (T + 2 of them) of a forward and of a reversed iterator
        calls = {}
        for name, mk in (("fwd", lambda: ts.trees(**kw)), ("rev", lambda: reversed(ts.trees(**kw)))):
            itx = mk()
            seq = []
            for _ in range(ts.num_trees + 2):
                try:
                    next(itx)
                    y = 1
                except StopIteration:
                    y = 0
                seq.append([y, it.add(tree_state(itx.tree, cmap))])
            calls[name] = seq
        return {"tab": table_obs(ts, cmap), "fresh": fresh, "fwd": fwd, "rev": rev, "end": end,
                "again": again, "mixed": mixed, "states": it.states, "calls": calls,
                "aslist": aslist, "aslist_moved": moved, "copy_ops": copy_ops, "reuse": reuse,
                "flags": [int(f) for f in ts.tables.nodes.flags], "nsites": int(ts.num_sites)}

    def coq_check(self, case, obs):
        tab = obs["tab"]
        if tab["N"] > 8 or len(tab["edges"]) > 10 or len(tab["bps"]) > 9:
            return None
        st = obs["states"]
        tree_sites = [st[i]["sites"] for i in obs["fresh"]["at_index"]]
        tracked0 = st[obs["fresh"]["null"]]["num_tracked"]
        ts = coq_ts(tab, obs["flags"], tree_sites, obs["nsites"], tracked0, time_ranks(case["desc"]))
        out = []
        for name, fwd in (("fwd", "true"), ("rev", "false")):
            exp = "; ".join("JL [JZ %s; %s]" % (cz(y), coq_J_state(st[si])) for y, si in obs["calls"][name])
            out.append("check_iter ts %s [%s]" % (fwd, exp))
        return "(let ts := %s in valid_tsb ts && %s)" % (ts, " && ".join(out))

    def oracle(self, case, obs):
        fr = obs["fresh"]["at_index"]
        fails = []
        if obs["fwd"] != fr:
            fails.append(("iter-forward", "forward iteration states %r, fresh %r" % (obs["fwd"], fr)))
        if obs["rev"] != fr[::-1]:
            fails.append(("iter-reversed", "reversed iteration states %r, fresh %r" % (obs["rev"], fr[::-1])))
        st = obs["states"]
        for key, msg in classify_diff(case["desc"], case["opts"], obs["tab"], st[obs["end"]],
                                      st[obs["fresh"]["null"]], st, obs["fresh"]):
            fails.append((key, "iterator's tree after exhaustion: " + msg))
        if obs["again"]:
            fails.append(("iter-restarts", "next() after StopIteration yielded a tree"))
        if obs["aslist"] != fr:
            fails.append(("aslist-states", "aslist states %r, fresh %r" % (obs["aslist"], fr)))
        nullst = obs["fresh"]["null"]
        expm = [(fr[i + 1] if i + 1 < len(fr) else nullst) if i % 2 == 0 else (fr[i - 1] if i >= 1 else nullst)
                for i in range(len(fr))]
        if obs["aslist_moved"] != expm:
            fails.append(("aslist-copies-not-independent", "%r expected %r" % (obs["aslist_moved"], expm)))
        for i, op, ret, exc, sc, so in obs.get("copy_ops", []):
            Tn = len(fr)
            if op[0] == "next":
                e = i + 1 if i + 1 < Tn else -1
            elif op[0] == "prev":
                e = i - 1
            elif op[0] == "seek_index":
                e = op[1] % Tn
            else:
                e = expected_tree_of(obs["tab"], case["desc"], op[1])
            exp_state = nullst if e == -1 else fr[e]
            if exc is not None or sc != exp_state:
                fails.append(("copy-then-%s" % op[0], "copy of aslist()[%d] then %r: exc=%r, state %r expected %r"
                              % (i, op, exc, st[sc].get("index"), e)))
            if so != fr[i]:
                fails.append(("copy-moved-original", "aslist()[%d] changed when its copy did %r" % (i, op)))
            if len(fails) > 6:
                break
        if obs.get("reuse"):
            Tn = len(fr)
            # null -next-> 0 -prev-> null -prev-> T-1 -seek_index(-1)-> T-1 -next-> null -clear-> null -last-> T-1
            expi = [0, -1, Tn - 1, Tn - 1, -1, -1, Tn - 1, Tn - 1]
            for (op, exc_, si), e in zip(obs["reuse"], expi):
                exp_state = nullst if e == -1 else fr[e]
                if exc_ is not None or si != exp_state:
                    fails.append(("reuse-after-exhaustion", "%r on the exhausted iterator's tree: exc=%r index %r expected %r"
                                  % (op, exc_, st[si].get("index"), e)))
        # call by call: yields T trees then StopIteration for ever, tree null afterwards
        T = len(fr)
        for name, order in (("fwd", fr), ("rev", fr[::-1])):
            exp = [[1, x] for x in order] + [[0, obs["fresh"]["null"]]] * 2
            if obs["calls"][name] != exp:
                fails.append(("iter-calls-" + name, "%r expected %r" % (obs["calls"][name], exp)))
        # mixed: first tree, then last(), then next(): last tree -> next enters null -> StopIteration
        exp = [fr[0], fr[T - 1], "stop"]
        if len(obs["mixed"]) != 3 or obs["mixed"][2] != "stop":
            fails.append(("iter-mixed", "%r expected %r" % (obs["mixed"], exp)))
        else:
            for a, b in zip(obs["mixed"][:2], exp[:2]):
                for key, msg in classify_diff(case["desc"], case["opts"], obs["tab"], st[a], st[b], st, obs["fresh"]):
                    fails.append((key, "iterator then last(): " + msg))
        return fails

    def describe(self, case, obs):
        T = len(obs["tab"]["bps"]) - 1
        return {"num_trees": T if T < 8 else "8+"}


class SeekNan(Family):
    """Tree.seek(nan).  The property demands that seek lands on the tree containing x;
    no tree contains NaN, so the call must be rejected like any other out-of-range
    position (ValueError).  The call is made in a grand-child process: a hang is
    reported as an observation {"returned": false}."""
    name = "seek_nan"
    workers = 4
    timeout = 30.0
    HANG_S = 2.0

    def generate(self, rng, tier):
        ds = special_descs()[:3]
        for _ in range(2 if tier == "quick" else 30):
            ds.append(random_ts_desc(rng))
        for d in ds:
            for pre in ([], [["first"]], [["last"]], [["seek_index", -1], ["prev"]]):
                for level in ("python", "lowlevel"):
                    yield {"desc": d, "prefix": pre, "level": level}

    def observe(self, case):
        import tskit
        desc = case["desc"]
        # everything except the call under test happens before the fork, so that the
        # timeout measures the seek alone (not imports / table building under load)
        ts = build_ts(desc)
        t = tskit.Tree(ts)
        for op in case["prefix"]:
            apply_op(desc, t, t, op)
        r, w = os.pipe()
        pid = os.fork()
        if pid == 0:
            code = 9
            try:
                os.close(r)
                try:
                    if case["level"] == "python":
                        t.seek(float("nan"))
                    else:
                        t._ll_tree.seek(float("nan"))
                    msg = "returned index=%d" % t.index
                except Exception as e:
                    msg = "raised %s" % exc_name(e)
                os.write(w, msg.encode())
                code = 0
            finally:
                os._exit(code)
        os.close(w)
        t0 = time.time()
        done = False
        while time.time() - t0 < self.HANG_S:
            p, status = os.waitpid(pid, os.WNOHANG)
            if p == pid:
                done = True
                break
            time.sleep(0.01)
        if not done:
            os.kill(pid, signal.SIGKILL)
            os.waitpid(pid, 0)
            os.close(r)
            return {"returned": False}
        msg = os.read(r, 1000).decode()
        os.close(r)
        return {"returned": True, "msg": msg, "status": status}

    def oracle(self, case, obs):
        if not obs["returned"]:
            return [("seek-nan-hang", "Tree.seek(nan) after %r did not return within %.0fs (%s level)"
                     % (case["prefix"], self.HANG_S, case["level"]))]
        if obs["msg"].startswith("returned"):
            return [("seek-nan-accepted", "Tree.seek(nan) after %r %s: no tree contains NaN"
                     % (case["prefix"], obs["msg"]))]
        if obs["msg"] not in ("raised ValueError", "raised LibraryError"):
            return [("seek-nan-wrong-exception", obs["msg"])]
        return []

    def describe(self, case, obs):
        return {"outcome": "hang" if not obs["returned"] else obs["msg"].split(" index")[0],
                "from_null": not case["prefix"]}

    def shrink(self, case):
        if case["prefix"]:
            c = dict(case)
            c["prefix"] = case["prefix"][:-1]
            yield c


# ----------------------------------------------------------------------------------
# correspondence with the Coq model
# ----------------------------------------------------------------------------------

RET_CODE = {None: 2, "ValueError": -1, "IndexError": -2, "LibraryError": -3}


def coq_coord(desc, pos):
    if pos[0] == "raw" and str(pos[1]) == "nan":
        return "NaN"
    assert pos[0] == "h"
    return "(Fin %s)" % cz(pos[1])


def coq_op(desc, op):
    k = op[0]
    if k == "seek":
        return "(OpSeek %s)" % coq_coord(desc, op[1])
    if k == "seek_index":
        return "(OpSeekIndex %s)" % cz(op[1])
    if k == "ll_seek":
        return "(OpLLSeek %s)" % coq_coord(desc, op[1])
    if k == "ll_seek_index":
        return "(OpLLSeekIndex %s)" % cz(op[1])
    return {"first": "OpFirst", "last": "OpLast", "next": "OpNext", "prev": "OpPrev",
            "clear": "OpClear", "copy": "OpCopy", "swap": "OpSwap"}[k]


def time_ranks(desc):
    """Node times as dense ranks (the model only compares them)."""
    ts = sorted(set(nd[1] for nd in desc["nodes"]))
    return [ts.index(nd[1]) for nd in desc["nodes"]]


def coq_ts(tab, flags, tree_sites, nsites, tracked0, times):
    edges = "[" + "; ".join("mkEdge %s %s %s %s" % (cz(l), cz(r), cz(p), cz(c)) for l, r, p, c in tab["edges"]) + "]"
    return "(mkTs %s %s %s %s %s %s %s %s %s %s %s)" % (
        cz(tab["L2"]), cz(tab["N"]), edges, clist(tab["I"]), clist(tab["O"]), clist(tab["bps"]),
        clist(flags), "[" + "; ".join(clist(x) for x in tree_sites) + "]", cz(nsites), clist(tracked0),
        clist(times))


def coq_J_state(st):
    return "JL [JZ %s; JZ %s; JZ %s; jz_list %s; jz_list %s; JZ %s; jz_list %s; jz_list %s]" % (
        cz(st["index"]), cz(st["iv"][0]), cz(st["iv"][1]), clist(st["parent"]), clist(st["edge"]),
        cz(st["num_edges"]), clist(st["num_tracked"]), clist(st["sites"]))


def model_ops(rng, desc, T, n):
    """Ops the model speaks: lattice positions (in and out of range) and NaN."""
    L = desc["L"]
    ops = random_ops(rng, desc, T, n)
    out = []
    for op in ops:
        if op[0] in ("seek", "ll_seek"):
            r = rng.random()
            if r < 0.85:
                op = [op[0], ["h", rng.randrange(0, 2 * L)]]
            elif r < 0.9:
                op = [op[0], ["h", rng.choice([-1, -2, 2 * L, 2 * L + 1])]]
            elif r < 0.95:
                op = [op[0], ["h", rng.choice([0, 2 * L - 1, L, L + 1, L - 1])]]
                if not 0 <= op[1][1] < 2 * L:
                    op = [op[0], ["h", 0]]
            else:
                op = [op[0], ["raw", "nan"]]         # rejected since fix eee123e (was finding F4)
        out.append(op)
    return out[:n]


class Model(Family):
    """Implementation vs C06/Model.v after every op: return value / exception class, index,
    interval (lattice*2), parent array, edge array, num_edges, tracked counts, site ids, and
    the index of the other tree; plus valid_tsb of the tables the implementation built (the
    hypothesis of the theorems)."""
    name = "model"
    timeout = 10.0
    prelude = "From TskVerif Require Import Base.Common C06.Model C06.SampleLists.\nOpen Scope Z_scope."
    workers = 8
    shard = 60
    coq_timeout = 1200

    def generate(self, rng, tier):
        for d in special_descs(extra=True):
            T = num_trees_of(d)
            for _ in range(3 if tier == "quick" else 20):
                yield {"desc": d, "opts": random_opts(rng, d), "ops": model_ops(rng, d, T, 25)}
        n = 330 if tier == "quick" else 4000
        k = 0
        while k < n:
            r = rng.random()
            if r < 0.6:
                d = many_trees_desc(rng, max_nodes=rng.choice([3, 5, 8]), max_segs=rng.choice([2, 4, 7]),
                                    scale=rng.choice([1, 0.5, 0.25, 2.5]))
            else:
                d = strip_desc(gen_ts.random_desc(rng, max_nodes=8, max_L=6, metadata=False, individuals=False,
                                                  populations=False, max_muts=0, scale=rng.choice([1, 0.5, 2.5])))
                d, _pi = gen_ts.permute_node_ids(rng, d, p=0.6)
            r = rng.random()
            if r < 0.2:
                d = pad_desc(d, rng.randrange(0, 2), rng.randrange(0, 2))
            elif r < 0.45:
                d = long_gap_desc(rng, d)           # edge-less region over more than half of L
            if len(d["edges"]) > 10 or len(d["nodes"]) > 8:
                continue
            T = num_trees_of(d)
            if T == 1 and rng.random() < 0.7:
                continue
            k += 1
            if rng.random() < 0.35:                 # arrive somewhere, then keep walking
                ops = continue_ops(rng, d, T, n_targets=rng.choice([2, 4]))
            else:
                ops = model_ops(rng, d, T, rng.choice([4, 10, 20, 30]))
            yield {"desc": d, "opts": random_opts(rng, d), "ops": ops}

    def observe(self, case):
        import tskit
        desc = case["desc"]
        ts = build_ts(desc)
        cmap = coord_map(desc)
        it = Interner()
        fresh = fresh_states(ts, case["opts"], it, cmap)
        steps = run_ops(desc, ts, case["opts"], case["ops"], it, cmap)
        return {"tab": table_obs(ts, cmap), "fresh": fresh, "steps": steps, "states": it.states,
                "flags": [int(f) for f in ts.tables.nodes.flags], "nsites": int(ts.num_sites)}

    def oracle(self, case, obs):
        ops = case["ops"]
        return oracle_steps(case["desc"], case["opts"], obs["tab"], obs["states"], obs["fresh"],
                            ops, obs["steps"])

    def coq_check(self, case, obs):
        st = obs["states"]
        tab = obs["tab"]
        tree_sites = [st[i]["sites"] for i in obs["fresh"]["at_index"]]
        tracked0 = st[obs["fresh"]["null"]]["num_tracked"]
        ts = coq_ts(tab, obs["flags"], tree_sites, obs["nsites"], tracked0, time_ranks(case["desc"]))
        exp = []
        for ret, exc, si, so, _ivf in obs["steps"]:
            code = RET_CODE[exc] if exc is not None else (2 if ret is None else int(ret))
            exp.append("JL [JZ %s; %s; JZ %s]" % (cz(code), coq_J_state(st[si]), cz(st[so]["index"])))
        ops = "[" + "; ".join(coq_op(case["desc"], o) for o in case["ops"]) + "]"
        # the same machine with EVERY sample tracked: its count array is num_samples; compare
        # num_samples, the children sets and the roots (root_threshold) after every op
        N = tab["N"]
        allsamp = [1 if (f & 1) else 0 for f in obs["flags"]] + [len(tab["samples"])]
        ts2 = coq_ts(tab, obs["flags"], tree_sites, obs["nsites"], allsamp, time_ranks(case["desc"]))
        views = []
        for ret, exc, si, so, _ivf in obs["steps"]:
            x = st[si]
            views.append("JL [jz_list %s; JL [%s]; jz_list %s]" % (
                clist(x["num_samples"][:N]), "; ".join("jz_list " + clist(c) for c in x["children"][:N]),
                clist(x["roots"])))
        thr = int(case["opts"].get("root_threshold", 1))
        term = ("(let ts := %s in valid_tsb ts && check_both ts %s [%s]) && "
                "(let ts := %s in valid_tsb ts && check_views ts %s %s [%s])"
                % (ts, ops, "; ".join(exp), ts2, cz(thr), ops, "; ".join(views)))
        if case["opts"].get("sample_lists"):
            # the raw sample linked lists (as sets) after every op satisfy the recurrence of
            # tsk_tree_update_sample_lists over the model's parent array (C06/SampleLists.v)
            sl = "; ".join("[" + "; ".join(clist(x) for x in st[si]["sample_lists"][:N]) + "]"
                           for _r, _e, si, _so, _iv in obs["steps"])
            term += " && (let ts := %s in check_slists ts %s [%s])" % (ts, ops, sl)
        return term

    def nontrivial(self, case, obs):
        return len(obs["tab"]["bps"]) > 2 and len(case["ops"]) >= 4

    def describe(self, case, obs):
        T = len(obs["tab"]["bps"]) - 1
        return {"num_trees": T, "ops": len(case["ops"]), "edges": len(obs["tab"]["edges"]),
                "tracked": case["opts"]["tracked"] is not None}

    def shrink(self, case):
        return shrink_ops_case(case)


class ModelExhaustive(Model):
    """Implementation vs Coq model on EVERY op sequence of length 3 (quick) / 4 (thorough)
    over the core alphabet (first,last,next,prev,clear, seek_index(i) and seek(midpoint of
    tree i) for every i) plus copy/swap, on small ts.  A case = (ts, options, first op);
    all completions are run inside observe and checked as one conjunction."""
    name = "model_exh"
    shard = 12
    timeout = 300.0

    def alphabet(self, d):
        return exh_alphabet(d, "core") + [["copy"], ["swap"]]

    def generate(self, rng, tier):
        descs = [d for d in special_descs() if num_trees_of(d) <= 3]
        n = 1 if tier == "quick" else 6
        while n > 0:
            d = many_trees_desc(rng, max_nodes=5, max_segs=3, max_sites=2, scale=rng.choice([1, 0.5, 2.5]))
            if rng.random() < 0.3:
                d = pad_desc(d, 1, 1)
            if 2 <= num_trees_of(d) <= 3 and len(d["edges"]) <= 10:
                descs.append(d)
                n -= 1
        length = 3 if tier == "quick" else 4
        for d in descs:
            opts = random_opts(rng, d)
            for pre in sequences(self.alphabet(d), length - 2):
                yield {"desc": d, "opts": opts, "prefix": pre, "length": length}

    def observe(self, case):
        desc = case["desc"]
        ts = build_ts(desc)
        cmap = coord_map(desc)
        it = Interner()
        fresh = fresh_states(ts, case["opts"], it, cmap)
        runs = []
        for suf in sequences(self.alphabet(desc), case["length"] - len(case["prefix"])):
            ops = case["prefix"] + suf
            runs.append([ops, run_ops(desc, ts, case["opts"], ops, it, cmap)])
        return {"tab": table_obs(ts, cmap), "fresh": fresh, "runs": runs, "states": it.states,
                "flags": [int(f) for f in ts.tables.nodes.flags], "nsites": int(ts.num_sites)}

    def oracle(self, case, obs):
        fails = []
        for ops, steps in obs["runs"]:
            fails += oracle_steps(case["desc"], case["opts"], obs["tab"], obs["states"], obs["fresh"],
                                  ops, steps, tag="%r: " % (ops,))
            if len(fails) > 4:
                break
        return fails

    def coq_check(self, case, obs):
        st = obs["states"]
        tab = obs["tab"]
        tree_sites = [st[i]["sites"] for i in obs["fresh"]["at_index"]]
        tracked0 = st[obs["fresh"]["null"]]["num_tracked"]
        ts = coq_ts(tab, obs["flags"], tree_sites, obs["nsites"], tracked0, time_ranks(case["desc"]))
        conj = ["valid_tsb ts"]
        for ops, steps in obs["runs"]:
            exp = []
            for ret, exc, si, so, _ivf in steps:
                code = RET_CODE[exc] if exc is not None else (2 if ret is None else int(ret))
                exp.append("JL [JZ %s; %s; JZ %s]" % (cz(code), coq_J_state(st[si]), cz(st[so]["index"])))
            conj.append("check_both ts [%s] [%s]" % ("; ".join(coq_op(case["desc"], o) for o in ops), "; ".join(exp)))
        return "(let ts := %s in %s)" % (ts, " && ".join(conj))

    def nontrivial(self, case, obs):
        return True

    def describe(self, case, obs):
        return {"num_trees": len(obs["tab"]["bps"]) - 1, "sequences_per_case": len(obs["runs"]),
                "length": case["length"]}

    def shrink(self, case):
        return []


class NavBlind(NavRandom):
    """Inputs the other families rarely produce (extension round):
      * very many trees (40-160): the binary search of tsk_tree_seek_from_null and long linear
        seeks with wrap-around, non-integer scales (1/3, 0.1, 0.7, 1e-3, 1e6+0.5);
      * positions exactly on every kind of breakpoint, one ulp below / above it, L - eps;
      * seek / seek_index mixtures on BOTH trees right after copy();
      * root_threshold > 1 together with sample_lists, tracked samples that are internal samples."""
    name = "nav_blind"

    def generate(self, rng, tier):
        n = 100 if tier == "quick" else 2000
        for k in range(n):
            kind = k % 5
            if kind == 4:       # long edge-less ends; histories that continue after every arrival
                T = 0
                while T < 2:
                    d = long_gap_desc(rng, many_trees_desc(rng, max_nodes=rng.choice([4, 7]), min_segs=1, max_segs=5,
                                                           p_gap=0.2, scale=rng.choice([1, 1 / 3, 2.5])))
                    T = num_trees_of(d)
                yield {"desc": d, "opts": random_opts(rng, d), "ops": continue_ops(rng, d, T, n_targets=6)}
                continue
            if kind == 3:       # one-ulp-wide trees: seek_index / at_index / negative indexes / copies
                T = 0
                while T < 3:
                    d = ulp_desc(rng)
                    T = num_trees_of(d)
                bps = gen_ts.breakpoints(d)
                ops = []
                for _ in range(rng.choice([8, 20])):
                    r = rng.random()
                    if r < 0.45:
                        ops.append(["seek_index", rng.randrange(-T, T)])
                    elif r < 0.75:
                        b = rng.randrange(0, T)
                        ops.append(["seek", rng.choice([["h", 2 * bps[b]], ["h", bps[b] + bps[b + 1]],
                                                        ["below", bps[b + 1]], ["above", bps[b]]])])
                    elif r < 0.85:
                        ops.append(["ll_seek_index", rng.randrange(0, T)])
                    else:
                        ops.append(rng.choice([["clear"], ["next"], ["prev"], ["copy"], ["swap"]]))
                yield {"desc": d, "opts": random_opts(rng, d), "ops": ops}
                continue
            if kind == 0:       # many trees
                T = 0
                while T < 30:
                    d = many_trees_desc(rng, max_nodes=rng.choice([4, 6, 9]), min_segs=40, max_segs=rng.choice([60, 160]),
                                        p_gap=0.05, churn=3, max_sites=6, squash=0.5,
                                        scale=rng.choice([1 / 3, 0.1, 0.7, 1e-3, 1e6 + 0.5, 1]))
                    T = num_trees_of(d)
                bps = gen_ts.breakpoints(d)
                ops = []
                for _ in range(rng.choice([10, 25])):
                    r = rng.random()
                    b = rng.randrange(0, T)
                    if r < 0.35:
                        pos = rng.choice([["h", 2 * bps[b]], ["above", bps[b]], ["h", bps[b] + bps[b + 1]]])
                    elif r < 0.6:
                        pos = ["below", bps[b + 1]]
                    elif r < 0.7:
                        pos = ["below", d["L"]]
                    else:
                        pos = None
                    if rng.random() < 0.5:
                        ops.append(["clear"])             # seek from the null state: binary search
                    ops.append(["seek", pos] if pos else ["seek_index", rng.randrange(-T, T)])
                    if rng.random() < 0.2:
                        ops.append(rng.choice([["next"], ["prev"]]))
                opts = random_opts(rng, d)
            elif kind == 1:     # copy, then seeks on both trees
                T = 0
                while T < 2:
                    d = many_trees_desc(rng, max_nodes=rng.choice([5, 8]), min_segs=3, max_segs=10,
                                        scale=rng.choice([1 / 3, 0.1, 2.5, 1]), p_internal=0.4)
                    T = num_trees_of(d)
                ops = [rng.choice([["first"], ["last"], ["seek_index", rng.randrange(-T, T)], ["clear"]])]
                for _ in range(rng.choice([4, 10])):
                    ops.append(["copy"])
                    for _ in range(rng.randrange(1, 4)):
                        ops.append(rng.choice([["seek", random_pos(rng, d)], ["seek_index", rng.randrange(-T, T)],
                                               ["ll_seek_index", rng.randrange(0, T)]]))
                        if rng.random() < 0.5:
                            ops.append(["swap"])
                opts = {"sample_lists": True, "tracked": random_opts(rng, d)["tracked"],
                        "root_threshold": rng.choice([1, 2, 3])}
            else:               # root_threshold > 1 + sample_lists + internal tracked samples
                T = 0
                while T < 2:
                    d = many_trees_desc(rng, max_nodes=rng.choice([6, 10]), min_segs=2, max_segs=6,
                                        p_internal=0.6, p_root=0.35)
                    T = num_trees_of(d)
                samples = [i for i, nd in enumerate(d["nodes"]) if nd[0] & 1]
                internal = [i for i in samples if d["nodes"][i][1] > 0]
                tracked = sorted(set(internal + [x for x in samples if rng.random() < 0.3]))
                opts = {"sample_lists": True, "tracked": tracked, "root_threshold": rng.choice([2, 3, 4])}
                ops = random_ops(rng, d, T, rng.choice([15, 40]))
            yield {"desc": d, "opts": opts, "ops": ops}


FAMILIES = [NavRandom, NavExhaustive, NavIter, SeekNan, Model, ModelExhaustive, NavBlind]

NOT_COVERED = [
    "children order (abstracted: the property says 'up to the order of children')",
    "Tree objects navigated concurrently from several threads",
    "float rounding in tsk_tree_seek_linear's distance comparison (affects only the direction taken, not the result)",
]
