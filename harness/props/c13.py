"""C13 — tables behave like a list of rows; tree sequences never change.

Families
  tableops   stateful differential oracle: random operation sequences (<= 40 ops) on each
             of the eight table classes against a plain Python list-of-rows reference
             written from the property text (class RefTable below).  After every
             operation the full column contents of the real table are compared with the
             reference.  The same sequences are replayed by the Coq columnar model
             (coq/theories/C13/Model.v, function run_ops) and its `abs` view and status
             are compared with the implementation's observation by vm_compute.
  pack       util.pack_bytes/unpack_bytes/pack_arrays/unpack_arrays vs the Coq model and
             the round-trip property.
  immut      immutability monitor (runtime, labelled partial): after random call
             sequences on TreeSequence / Tree / Variant objects, including an attempted
             write into every numpy array handed out, ts.dump_tables().asdict() is
             byte-identical; every array is read-only or a private copy.

Canonical values: every cell is an integer.  float64 cells are the IEEE bit pattern as an
unsigned 64 bit integer (so NaN payloads such as UNKNOWN_TIME are compared exactly), int8
cells are 0..255, strings are their UTF-8 bytes.
"""
import collections.abc as collections_abc
from itertools import islice as itertools_islice
import hashlib
import struct
import types

from harness.runner import Family
from harness.common import cz, clist, cbool

NULL = -1

# name -> (python class, fixed columns [(name, kind)], ragged columns [(name, kind, is_str)],
#          self reference: None | ("f", index) | ("r", index),
#          index of the ragged column treated as "metadata" by the C code (skipped by
#          keep_rows when its total length is 0), or None)
SCHEMAS = {
    "individuals": ("IndividualTable", [("flags", "u32")],
                    [("location", "f64", False), ("parents", "i32", False), ("metadata", "i8", False)],
                    ("r", 1), 2),
    "nodes": ("NodeTable", [("time", "f64"), ("flags", "u32"), ("population", "i32"), ("individual", "i32")],
              [("metadata", "i8", False)], None, 0),
    "edges": ("EdgeTable", [("left", "f64"), ("right", "f64"), ("parent", "i32"), ("child", "i32")],
              [("metadata", "i8", False)], None, 0),
    "migrations": ("MigrationTable", [("left", "f64"), ("right", "f64"), ("node", "i32"), ("source", "i32"),
                                      ("dest", "i32"), ("time", "f64")],
                   [("metadata", "i8", False)], None, 0),
    "sites": ("SiteTable", [("position", "f64")],
              [("ancestral_state", "i8", True), ("metadata", "i8", False)], None, 1),
    "mutations": ("MutationTable", [("site", "i32"), ("node", "i32"), ("time", "f64"), ("parent", "i32")],
                  [("derived_state", "i8", True), ("metadata", "i8", False)], ("f", 3), 1),
    "populations": ("PopulationTable", [], [("metadata", "i8", False)], None, 0),
    "provenances": ("ProvenanceTable", [], [("record", "i8", True), ("timestamp", "i8", True)], None, None),
}
TABLES = list(SCHEMAS)

# columns that set_columns / append_columns accept as omitted: fixed column index -> the value
# the NEW rows get; ragged column indexes whose new cells are then empty
OPTIONAL = {
    "individuals": ({}, [0, 1, 2]),
    "nodes": ({2: -1, 3: -1}, [0]),
    "edges": ({}, [0]),
    "migrations": ({}, [0]),
    "sites": ({}, [1]),
    "mutations": ({2: 0x7FF874736B697421, 3: -1}, [1]),
    "populations": ({}, []),
    "provenances": ({}, []),
}

UNKNOWN_TIME_BITS = 0x7FF874736B697421     # TSK_UNKNOWN_TIME_HEX (c/tskit/core.h)


def f2b(x):
    return struct.unpack("<Q", struct.pack("<d", float(x)))[0]


def b2f(b):
    return struct.unpack("<d", struct.pack("<Q", b))[0]


FLOATS = [f2b(v) for v in (0.0, 1.0, 2.0, 3.0, 0.5, 2.5, -1.0, 1e300, 1 / 3, float("inf"), -0.0)]


# --------------------------------------------------------------------------
# the reference: a plain Python list of rows, written from the property text
# --------------------------------------------------------------------------

class RefError(Exception):
    """The reference says this operation must be refused; `kinds` = acceptable
    exception class names (None = any exception)."""

    def __init__(self, kinds=None, why=""):
        self.kinds = kinds
        self.why = why


def wf_columns_why(nf, nr, cols, md=None, optional=None):
    """rows_of(columns) by the definition of the ragged encoding: (rows, None), or
    (None, why) when the columns are not a well-formed encoding (equal lengths, offsets
    start at 0, are non-decreasing and end at the data length)."""
    fixed, ragged = cols["f"], cols["r"]
    if len(fixed) != nf or len(ragged) != nr:
        return None, "shape"
    if any(c is None for c in fixed) or any(r is None for r in ragged):
        # omitted optional columns: the new rows get the default value / an empty cell
        fdef, ropt = optional or ({}, [])
        present = [c for c in fixed if c is not None]
        if any(c is None and j not in fdef for j, c in enumerate(fixed)) or \
                any(r is None and j not in ropt for j, r in enumerate(ragged)):
            return None, "required-column-missing"
        if present:
            n0 = len(present[0])
        else:
            firstr = next((r for r in ragged if r is not None), None)
            if firstr is None or len(firstr[1]) < 1:
                return None, "shape"
            n0 = len(firstr[1]) - 1
        fixed = [([fdef[j]] * n0 if c is None else c) for j, c in enumerate(fixed)]
        ragged = [([[], [0] * (n0 + 1)] if r is None else r) for r in ragged]
    n = None
    for c in fixed:
        if n is None:
            n = len(c)
        if len(c) != n:
            return None, "fixed-length"
    for j, (data, off) in enumerate(ragged):
        tag = "metadata-" if j == md else ""
        if len(off) < 1:
            return None, tag + "offset-length"
        if n is None:
            n = len(off) - 1
        if len(off) != n + 1:
            return None, tag + "offset-length"
        if off[0] != 0:
            return None, "offset-first"
        if off[-1] != len(data):
            return None, "offset-last"
        if any(off[k] > off[k + 1] for k in range(n)):
            return None, "offset-order"
    if n is None:
        return None, "shape"
    return [[[c[i] for c in fixed], [list(d[o[i]:o[i + 1]]) for d, o in ragged]] for i in range(n)], None


def wf_columns(nf, nr, cols):
    return wf_columns_why(nf, nr, cols)[0]


def columns_of(nf, nr, rows):
    fixed = [[r[0][j] for r in rows] for j in range(nf)]
    ragged = []
    for j in range(nr):
        data, off = [], [0]
        for r in rows:
            data += r[1][j]
            off.append(len(data))
        ragged.append([data, off])
    return {"f": fixed, "r": ragged}


class RefTable:
    def __init__(self, name, rows=None):
        self.name = name
        _, self.fixed, self.ragged, self.selfref, self.md = SCHEMAS[name]
        self.nf, self.nr = len(self.fixed), len(self.ragged)
        self.rows = [self.copyrow(r) for r in (rows or [])]

    @staticmethod
    def copyrow(r):
        return [list(r[0]), [list(x) for x in r[1]]]

    def index(self, i):
        n = len(self.rows)
        if i < 0:
            i += n
        if i < 0 or i >= n:
            raise RefError({"IndexError"})
        return i

    def check_row(self, r):
        """Domain of the row-level API: an id cell is NULL (-1) or in [0, TSK_MAX_ID]
        (TSK_MAX_ID = 2^31 - 2); anything else is not a row value and is refused."""
        for (cn, kind), v in zip(self.fixed, r[0]):
            if kind == "i32" and not (-1 <= v <= 2 ** 31 - 2):
                raise RefError({"ValueError", "OverflowError"})

    def apply(self, op):
        """Returns the expected result value (canonical); raises RefError if the
        operation must fail, in which case the list is unchanged."""
        k = op[0]
        rows, n = self.rows, len(self.rows)
        if k in ("add_row", "append"):
            self.check_row(op[1])
            rows.append(self.copyrow(op[1]))
            return n
        if k == "getitem":
            return self.copyrow(rows[self.index(op[1])])
        if k == "slice":
            s = slice(op[1], op[2], op[3])
            return [self.copyrow(r) for r in rows[s]]
        if k == "mask":
            if len(op[1]) != n:
                raise RefError({"IndexError"})
            return [self.copyrow(r) for r, m in zip(rows, op[1]) if m]
        if k == "ids":
            if any(i < 0 or i >= n for i in op[1]):
                raise RefError(None)
            return [self.copyrow(rows[i]) for i in op[1]]
        if k == "iter":
            return [self.copyrow(r) for r in rows]
        if k in ("setitem", "setitem_from"):
            i = self.index(op[1])
            new = op[2] if k == "setitem" else rows[self.index(op[2])]
            self.check_row(new)
            rows[i] = self.copyrow(new)
            return None
        if k == "truncate":
            if op[1] < 0 or op[1] > n:
                raise RefError(None)
            del rows[op[1]:]
            return None
        if k == "keep_rows":
            keep = op[1]
            if len(keep) != n:
                raise RefError({"ValueError"})
            idmap, nxt = [], 0
            for m in keep:
                idmap.append(nxt if m else NULL)
                nxt += 1 if m else 0
            if self.selfref is not None:
                kind, j = self.selfref
                for r, m in zip(rows, keep):
                    if not m:
                        continue
                    refs = [r[0][j]] if kind == "f" else r[1][j]
                    for p in refs:
                        if p == NULL:
                            continue
                        if p < 0 or p >= n or idmap[p] == NULL:
                            raise RefError(None)        # dangling reference: rejected, unchanged
            new = []
            for r, m in zip(rows, keep):
                if m:
                    r = self.copyrow(r)
                    if self.selfref is not None:
                        kind, j = self.selfref
                        if kind == "f":
                            r[0][j] = r[0][j] if r[0][j] == NULL else idmap[r[0][j]]
                        else:
                            r[1][j] = [p if p == NULL else idmap[p] for p in r[1][j]]
                    new.append(r)
            self.rows = new
            return idmap
        if k == "clear":
            self.rows = []
            return None
        if k in ("set_columns", "append_columns"):
            new, why = wf_columns_why(self.nf, self.nr, op[1], self.md, OPTIONAL[self.name])
            if new is None:
                raise RefError(None, why)
            self.rows = (rows if k == "append_columns" else []) + new
            return None
        if k == "packset":
            j, vals = op[1], op[2]
            if self.nf == 0 and self.nr == 1:
                # PopulationTable: its only column *is* the table, any number of values is
                # a legitimate new content (there is nothing it could disagree with)
                self.rows = [[[], [list(v)]] for v in vals]
                return None
            if len(vals) != n:
                raise RefError(None, ("metadata-" if j == self.md else "") + "offset-length")
            for r, v in zip(rows, vals):
                r[1][j] = list(v)
            return None
        if k == "setattr":
            # column attribute assignment: the table becomes rows_of(columns with this one replaced)
            kind, j, which, vals = op[1], op[2], op[3], op[4]
            cols = columns_of(self.nf, self.nr, rows)
            if kind == "f":
                cols["f"][j] = list(vals)
            else:
                cols["r"][j][0 if which == "data" else 1] = list(vals)
            new, why = wf_columns_why(self.nf, self.nr, cols, self.md)
            if new is None:
                raise RefError(None, why)
            self.rows = new
            return None
        if k == "drop_metadata":
            for r in rows:
                r[1][self.md] = []
            return None
        if k == "copy":
            return [self.copyrow(r) for r in rows]
        if k == "extend":
            other, idx = op[1], op[2]
            for r in other:
                self.check_row(r)
            if any(i < 0 or i >= len(other) for i in idx):
                raise RefError(None)
            rows.extend(self.copyrow(other[i]) for i in idx)
            return None
        raise ValueError("unknown op %r" % (k,))


# --------------------------------------------------------------------------
# implementation adapter
# --------------------------------------------------------------------------

def np_of(kind, vals):
    import numpy as np
    if kind == "f64":
        return np.array(vals, dtype=np.uint64).view(np.float64)
    if kind == "i8":
        return np.array(vals, dtype=np.uint8).view(np.int8)
    if kind == "u32":
        return np.array(vals, dtype=np.uint32)
    if kind == "i32":
        return np.array(vals, dtype=np.int32)
    raise ValueError(kind)


def ints_of(kind, arr):
    import numpy as np
    arr = np.asarray(arr)
    if kind == "f64":
        return [int(x) for x in np.ascontiguousarray(arr, dtype=np.float64).view(np.uint64)]
    if kind == "i8":
        return [int(x) & 0xFF for x in arr]
    return [int(x) for x in arr]


LAYOUTS = ["L:contig", "L:strided", "L:reversed", "L:col2d", "L:list", "L:wide"]


def lay(arr, layout):
    """The same values presented with another memory layout / container: a non-contiguous
    view (every second element of a longer array, a reversed view, a column of a 2-D array)
    of exactly the dtype the binding wants (so that no conversion copy is made), a Python
    list, or a wider dtype.  The call must behave as for a fresh contiguous copy."""
    import numpy as np
    arr = np.ascontiguousarray(arr)
    n = len(arr)
    if layout == "L:strided":
        big = np.empty(2 * n + 1, dtype=arr.dtype)
        big[...] = arr[0] if n else 0
        big[1::2] = np.roll(arr, 1) if n else arr      # junk between the real elements
        big[0:2 * n:2] = arr
        v = big[0:2 * n:2]
    elif layout == "L:reversed":
        v = np.ascontiguousarray(arr[::-1])[::-1]
    elif layout == "L:col2d":
        big = np.empty((n, 3), dtype=arr.dtype)
        for k in range(3):
            big[:, k] = np.roll(arr, k) if n else arr
        v = big[:, 0]
    elif layout == "L:list":
        return [x.item() for x in arr] if arr.dtype.kind != "b" else [bool(x) for x in arr]
    elif layout == "L:wide":
        wide = {"i": np.int64, "u": np.uint64, "b": np.bool_, "f": np.float64}[arr.dtype.kind]
        return arr.astype(wide) if arr.dtype != np.uint32 else arr.astype(np.int64)
    else:
        return arr
    assert np.array_equal(np.ascontiguousarray(v).view(np.uint8), arr.view(np.uint8)), layout
    return v


def layout_of(op):
    return op[-1] if isinstance(op[-1], str) and op[-1].startswith("L:") else "L:contig"


class Impl:
    def __init__(self, name, incr):
        import tskit
        self.tskit = tskit
        self.name = name
        self.clsname, self.fixed, self.ragged, self.selfref, self.md = SCHEMAS[name]
        self.cls = getattr(tskit, self.clsname)
        self.t = self.cls(max_rows_increment=incr)

    def kwargs(self, row):
        kw = {}
        for (cn, kind), v in zip(self.fixed, row[0]):
            kw[cn] = b2f(v) if kind == "f64" else v
        for (cn, kind, is_str), v in zip(self.ragged, row[1]):
            if is_str:
                kw[cn] = bytes(v).decode("utf8")
            elif kind == "i8":
                kw[cn] = bytes(v)
            elif kind == "f64":
                kw[cn] = [b2f(x) for x in v]
            else:
                kw[cn] = list(v)
        return kw

    def canon_row(self, r):
        fx = []
        for cn, kind in self.fixed:
            v = getattr(r, cn)
            fx.append(f2b(v) if kind == "f64" else int(v))
        rg = []
        for cn, kind, is_str in self.ragged:
            v = getattr(r, cn)
            if is_str:
                rg.append(list(v.encode("utf8")))
            elif kind == "i8":
                rg.append(list(bytes(v)))
            else:
                rg.append(ints_of(kind, v))
        return [fx, rg]

    def canon_table(self, t):
        return [self.canon_row(t[i]) for i in range(len(t))]

    def dump(self, t=None):
        t = self.t if t is None else t
        d = t.asdict()
        fixed = [ints_of(kind, d[cn]) for cn, kind in self.fixed]
        ragged = [[ints_of(kind, d[cn]), [int(x) for x in d[cn + "_offset"]]] for cn, kind, _ in self.ragged]
        return {"n": int(t.num_rows), "max_rows": int(t.max_rows), "f": fixed, "r": ragged}

    def cols_kwargs(self, cols, layout="L:contig"):
        import numpy as np
        kw = {}
        if layout == "L:wide":
            layout = "L:contig"        # a wider dtype is a different value domain for columns
        for (cn, kind), v in zip(self.fixed, cols["f"]):
            if v is not None:
                kw[cn] = lay(np_of(kind, v), layout)
        for (cn, kind, _), r in zip(self.ragged, cols["r"]):
            if r is not None:
                kw[cn] = lay(np_of(kind, r[0]), layout)
                kw[cn + "_offset"] = lay(np.array(r[1], dtype=np.uint64), layout)
        return kw

    def build(self, rows):
        t = self.cls()
        for r in rows:
            t.add_row(**self.kwargs(r))
        return t

    def apply(self, op):
        import numpy as np
        t, k = self.t, op[0]
        if k == "add_row":
            return int(t.add_row(**self.kwargs(op[1])))
        if k == "append":
            return int(t.append(types.SimpleNamespace(**self.kwargs(op[1]))))
        if k == "getitem":
            return self.canon_row(t[op[1]])
        if k == "slice":
            return self.canon_table(t[slice(op[1], op[2], op[3])])
        L = layout_of(op)
        if k == "mask":
            m = lay(np.array(op[1], dtype=bool), L if L != "L:list" or op[1] else "L:contig")
            return self.canon_table(t[m])
        if k == "ids":
            return self.canon_table(t[lay(np.array(op[1], dtype=np.int32), L if L != "L:list" or op[1] else "L:contig")])
        if k == "iter":
            return [self.canon_row(r) for r in t]
        if k == "setitem":
            t[op[1]] = types.SimpleNamespace(**self.kwargs(op[2]))
            return None
        if k == "setitem_from":
            t[op[1]] = t[op[2]]
            return None
        if k == "truncate":
            t.truncate(op[1])
            return None
        if k == "keep_rows":
            return [int(x) for x in t.keep_rows(lay(np.array(op[1], dtype=bool), L))]
        if k == "clear":
            t.clear()
            return None
        if k == "set_columns":
            t.set_columns(**self.cols_kwargs(op[1], L))
            return None
        if k == "append_columns":
            t.append_columns(**self.cols_kwargs(op[1], L))
            return None
        if k == "packset":
            cn, kind, is_str = self.ragged[op[1]]
            if is_str:
                vals = [bytes(v).decode("utf8") for v in op[2]]
            elif kind == "i8":
                vals = [bytes(v) for v in op[2]]
            elif kind == "f64":
                vals = [[b2f(x) for x in v] for v in op[2]]
            else:
                vals = [list(v) for v in op[2]]
            getattr(t, "packset_" + cn)(vals)
            return None
        if k == "setattr":
            kind, j, which, vals = op[1], op[2], op[3], op[4]
            if kind == "f":
                cn, ck = self.fixed[j]
                setattr(t, cn, lay(np_of(ck, vals), L if L != "L:wide" else "L:contig"))
            else:
                cn, ck, _ = self.ragged[j]
                if which == "data":
                    setattr(t, cn, lay(np_of(ck, vals), L if L != "L:wide" else "L:contig"))
                else:
                    setattr(t, cn + "_offset", lay(np.array(vals, dtype=np.uint64), L))
            return None
        if k == "drop_metadata":
            t.drop_metadata(keep_schema=bool(op[1]))
            return None
        if k == "copy":
            c = t.copy()
            res = self.canon_table(c)
            # the copy is independent: changing it must not change the original
            if len(c):
                c.truncate(len(c) - 1)
            c.clear()
            return res
        if k == "extend":
            other = self.build(op[1])
            t.ll_table.extend(other.ll_table, row_indexes=lay(np.array(op[2], dtype=np.int32), L if L not in ("L:wide", "L:list") else "L:contig"))
            return None
        raise ValueError("unknown op %r" % (k,))


def overread_hazard(impl, op):
    if impl.name not in ("sites", "mutations"):
        return False
    n = len(impl.t)
    k = op[0]
    if k == "packset" and op[1] == impl.md:
        return len(op[2]) > n
    if k in ("set_columns", "append_columns"):
        f, r = op[1]["f"], op[1]["r"]
        return bool(f) and f[0] is not None and r[impl.md] is not None and len(r[impl.md][1]) > len(f[0]) + 1
    if k == "setattr":
        if op[1] == "r" and op[2] == impl.md and op[3] == "offset":
            return len(op[4]) > n + 1
        if op[1] == "f" and op[2] == 0:
            return len(op[4]) < n
    return False


def run_impl(case):
    impl = Impl(case["table"], case.get("incr", 0))
    out = []
    prev = None
    for op in case["ops"]:
        # (F15, repaired by b50fe2e: a metadata_offset of the wrong length is refused again, so
        # such operations are executed like any other; `overread_hazard` is kept only as a
        # description of the input class and is no longer consulted.)
        try:
            res = ["ok", impl.apply(op)]
        except Exception as e:        # the exception class is the observation
            res = ["err", type(e).__name__, str(e)[:120]]
        st = impl.dump()
        out.append([res, "=" if st == prev else st])
        prev = st
        if wf_columns(len(st["f"]), len(st["r"]), st) is None:
            # the table's own columns are no longer a well-formed encoding: stop here (the
            # oracle reports it); continuing can abort the process (see family aftermath)
            break
    return out


# --------------------------------------------------------------------------
# generators
# --------------------------------------------------------------------------

STRS = ["", "A", "C", "G", "T", "AC", "ACGT", "é", "x" * 5]


def rand_bytes(rng, maxlen=4):
    r = rng.random()
    if r < 0.35:
        return []
    return [rng.randrange(256) for _ in range(rng.randrange(1, maxlen + 1))]


# generation profile of the sequence being generated: probability of a FORWARD reference
# (parent id >= own id: unsorted tables) and ragged columns kept entirely empty
PROFILE = {"fwd": 0.15, "empty": frozenset(), "p_empty": 1.0}


def rand_cell(rng, kind, n, ref=False):
    if kind == "f64":
        return UNKNOWN_TIME_BITS if rng.random() < 0.08 else rng.choice(FLOATS)
    if kind == "u32":
        return rng.choice([0, 1, 2, 3, 7, 2 ** 32 - 1, 65536])
    if kind == "i32":
        if ref:
            r = rng.random()
            if r < 0.35 or n == 0:
                return NULL if r < 0.9 or n else rng.choice([-2, 0, 1])
            if r < 0.93:
                if rng.random() < PROFILE["fwd"]:
                    return rng.randrange(n + 3)     # may point at a row added later (or never)
                return rng.randrange(n)
            return rng.choice([n, n + 3, 2 ** 31 - 2])     # out of range reference
        return rng.choice([NULL, 0, 1, 2, 5, 2 ** 31 - 2])
    raise ValueError(kind)


def rand_ragged(rng, kind, is_str, n, ref=False):
    if is_str:
        return list(rng.choice(STRS).encode("utf8"))
    if kind == "i8":
        return rand_bytes(rng)
    ln = 0 if rng.random() < 0.4 else rng.randrange(1, 4)
    return [rand_cell(rng, kind, n, ref) for _ in range(ln)]


def rand_row(rng, name, n):
    _, fixed, ragged, selfref, _ = SCHEMAS[name]
    fx = [rand_cell(rng, kind, n, selfref == ("f", j)) for j, (_, kind) in enumerate(fixed)]
    rg = [[] if (j in PROFILE["empty"] and rng.random() < PROFILE["p_empty"])
          else rand_ragged(rng, kind, is_str, n, selfref == ("r", j)) for j, (_, kind, is_str) in enumerate(ragged)]
    return [fx, rg]


def break_columns(rng, cols):
    """Make a column set malformed in one of the ways the property text excludes."""
    import copy
    cols = copy.deepcopy(cols)
    nr = len(cols["r"])
    choices = ["off0", "nonmono", "last", "shortoff", "fixedlen"]
    j = rng.randrange(nr)
    data, off = cols["r"][j]
    how = rng.choice(choices)
    if how == "off0":
        off[0] = 1
    elif how == "nonmono" and len(off) >= 3:
        # keep first and last right so that only the monotonicity check can reject it
        i = rng.randrange(1, len(off) - 1)
        off[i] = off[-1] + 1 + rng.randrange(3)
    elif how == "last":
        off[-1] = off[-1] + 1
    elif how == "shortoff":
        off.pop()
    elif how == "fixedlen" and cols["f"]:
        c = rng.choice(cols["f"])
        c.append(c[-1] if c else 0)
    else:
        off[0] = 2
    return cols


def omit_optional(rng, name, cols, rows):
    """Leave out optional columns, individually and in combination (the rows then must show
    the defaults: the generated rows are adjusted by the caller's reference, not here)."""
    fdef, ropt = OPTIONAL[name]
    cand = [("f", j) for j in fdef] + [("r", j) for j in ropt]
    if not cand:
        return cols
    k = rng.choice([1, 1, 2, len(cand)])
    for kind, j in rng.sample(cand, min(k, len(cand))):
        cols[kind][j] = None
    return cols


def gen_ops(rng, name, nops, p_bad=0.04, incr=0, profile=None, prefix=None):
    PROFILE.update({"fwd": 0.15, "empty": frozenset(), "p_empty": 1.0})
    PROFILE.update(profile or {})
    ref = RefTable(name)
    _, fixed, ragged, selfref, md = SCHEMAS[name]
    nf, nr = len(fixed), len(ragged)
    ops = []
    weights = [("add_row", 22), ("append", 6), ("getitem", 8), ("slice", 6), ("mask", 4), ("ids", 4),
               ("iter", 2), ("setitem", 9), ("setitem_from", 3), ("truncate", 5), ("keep_rows", 8),
               ("clear", 1), ("set_columns", 4), ("append_columns", 8), ("packset", 4), ("setattr", 5),
               ("drop_metadata", 1 if md is not None else 0), ("copy", 2), ("extend", 4)]
    names = [w[0] for w in weights]
    ws = [w[1] for w in weights]
    retry = None
    for op in (prefix(rng, ref) if prefix else []):
        ops.append(op)
        try:
            ref.apply(op)
        except RefError:
            pass
    for _ in range(nops):
        n = len(ref.rows)
        k = rng.choices(names, ws)[0]
        bad = rng.random() < p_bad
        if retry is not None:
            # error then reuse: a refused call is followed by the same operation with valid
            # arguments on the same object
            k, bad, retry = retry, False, None
        elif bad and k in ("keep_rows", "extend", "set_columns", "append_columns", "setitem", "packset", "setattr"):
            retry = k
        if k in ("add_row", "append"):
            op = [k, rand_row(rng, name, n + 1)]
        elif k == "getitem":
            op = [k, rng.choice([n, -n - 1, n + 5]) if bad or n == 0 else rng.randrange(-n, n)]
        elif k == "slice":
            def b():
                return None if rng.random() < 0.3 else rng.randrange(-n - 2, n + 3)
            op = [k, b(), b(), rng.choice([None, 1, 2, 3, -1, -2])]
        elif k == "mask":
            m = [rng.random() < 0.6 for _ in range(n + (1 if bad else 0))]
            op = [k, m]
        elif k == "ids":
            if bad:
                ids = [rng.randrange(n + 1) for _ in range(rng.randrange(0, 4))] + [rng.choice([n, n + 2, -1])]
            else:
                ids = [rng.randrange(n) for _ in range(rng.randrange(0, 5))] if n else []
            op = [k, ids]
        elif k == "iter":
            op = [k]
        elif k == "setitem":
            i = rng.choice([n, -n - 1]) if bad or n == 0 else rng.randrange(-n, n)
            if n and not bad and rng.random() < 0.5:
                # same ragged lengths as the current row: the in-place path of update_row
                cur = ref.rows[i]
                new = rand_row(rng, name, n)
                for j, (_, kind, is_str) in enumerate(ragged):
                    if is_str:
                        new[1][j] = [rng.choice([65, 67, 71, 84, 120]) for _ in cur[1][j]]
                    elif kind == "i8":
                        new[1][j] = [rng.randrange(256) for _ in cur[1][j]]
                    else:
                        new[1][j] = [rand_cell(rng, kind, n, selfref == ("r", j)) for _ in cur[1][j]]
                op = [k, i, new]
            else:
                op = [k, i, rand_row(rng, name, n)]
        elif k == "setitem_from":
            if n == 0:
                op = [k, 0, 0]
            else:
                op = [k, rng.randrange(-n, n), rng.randrange(-n, n)]
        elif k == "truncate":
            op = [k, rng.choice([n + 1, -1, n + 7]) if bad else rng.randrange(0, n + 1)]
        elif k == "keep_rows":
            if bad:
                keep = [rng.random() < 0.6 for _ in range(n + rng.choice([1, 2]))]
            else:
                keep = [rng.random() < 0.7 for _ in range(n)]
                pairs = []
                if selfref is not None:
                    kind, j = selfref
                    pairs = [(i, p) for i, r in enumerate(ref.rows)
                             for p in ([r[0][j]] if kind == "f" else r[1][j]) if 0 <= p < n and p != i]
                if pairs and rng.random() < 0.3:
                    # a kept row whose referenced row (before or after it: unsorted tables) is
                    # dropped, with the other dropped rows anywhere or nowhere
                    i, p = rng.choice(pairs)
                    other = rng.choice(["none", "after", "any"])
                    keep = [True] * n
                    for q in range(n):
                        if other == "any" or (other == "after" and q > max(i, p)):
                            keep[q] = rng.random() < 0.7
                    keep[i], keep[p] = True, False
                elif selfref is not None and rng.random() < 0.7:
                    # close the kept set under references most of the time so that the
                    # remapping (not only the rejection) is exercised
                    kind, j = selfref
                    changed = True
                    while changed:
                        changed = False
                        for i, r in enumerate(ref.rows):
                            if keep[i]:
                                for p in ([r[0][j]] if kind == "f" else r[1][j]):
                                    if 0 <= p < n and not keep[p]:
                                        keep[p] = True
                                        changed = True
            op = [k, keep]
        elif k == "clear":
            op = [k]
        elif k in ("set_columns", "append_columns"):
            m = rng.randrange(0, 4)
            base = n if k == "append_columns" else 0
            rows = [rand_row(rng, name, base + m) for _ in range(m)]
            cols = columns_of(nf, nr, rows)
            if bad or rng.random() < 0.03:
                cols = break_columns(rng, cols)
            elif rng.random() < 0.45:
                cols = omit_optional(rng, name, cols, rows)
            elif rng.random() < 0.08:
                # a REQUIRED column left out: TypeError before anything is changed
                fdef, ropt = OPTIONAL[name]
                req = [("f", j) for j in range(nf) if j not in fdef] + [("r", j) for j in range(nr) if j not in ropt]
                if req:
                    kind, j = rng.choice(req)
                    cols[kind][j] = None
            op = [k, cols]
        elif k == "packset":
            j = rng.randrange(nr)
            _, kind, is_str = ragged[j]
            m = n + (1 if bad else 0)
            if name == "populations":
                m = n       # its only column: any length is a legitimate new table (not generated)
            if bad and j == md and rng.random() < 0.5:
                m = max(n - 1, 0)       # shorter as well as longer lists (F15 class)
            op = [k, j, [rand_ragged(rng, kind, is_str, n, selfref == ("r", j)) for _ in range(m)]]
        elif k == "setattr":
            cols = columns_of(nf, nr, ref.rows)
            if nf and rng.random() < 0.5:
                j = rng.randrange(nf)
                vals = [rand_cell(rng, fixed[j][1], n, selfref == ("f", j)) for _ in range(n + (1 if bad else 0))]
                op = [k, "f", j, "data", vals]
            else:
                j = rng.randrange(nr)
                _, kind, is_str = ragged[j]
                data, off = cols["r"][j]
                if rng.random() < 0.5:
                    # new data of the same total length (offsets unchanged)
                    if is_str:
                        vals = [rng.choice([65, 67, 71, 84]) for _ in data]
                    elif kind == "i8":
                        vals = [rng.randrange(256) for _ in data]
                    else:
                        vals = [rand_cell(rng, kind, n, selfref == ("r", j)) for _ in data]
                    if bad:
                        vals = vals + [65]
                    op = [k, "r", j, "data", vals]
                else:
                    # new offsets over the same data: a random non-decreasing sequence
                    cuts = sorted(rng.randrange(len(data) + 1) for _ in range(max(n - 1, 0)))
                    vals = ([0] + cuts + [len(data)]) if n else [len(data)]
                    if is_str:
                        vals = off          # re-cutting UTF-8 could split a code point
                    if bad and len(vals) >= 3:
                        vals = list(vals)
                        vals[1] = vals[-1] + 1
                    op = [k, "r", j, "offset", list(vals)]
        elif k == "drop_metadata":
            op = [k, rng.random() < 0.5]
        elif k == "copy":
            op = [k]
        elif k == "extend":
            m = rng.randrange(0, 4)
            other = [rand_row(rng, name, m) for _ in range(m)]
            idx = [rng.randrange(m) for _ in range(rng.randrange(0, 5))] if m else []
            if bad:
                idx = idx + [rng.choice([m, -1, m + 3])] + ([0] if m and rng.random() < 0.5 else [])
            op = [k, other, idx]
        if k in ("mask", "ids", "keep_rows", "extend", "set_columns", "append_columns", "setattr") and rng.random() < 0.6:
            op.append(rng.choice(LAYOUTS))
        ops.append(op)
        before = [RefTable.copyrow(r) for r in ref.rows]
        try:
            ref.apply(op)
        except RefError:
            ref.rows = before
            if op[0] == "extend":
                # the C code appends row by row: keep the generator's idea of the table
                # size in step with it (the valid prefix stays appended)
                try:
                    for r in op[1]:
                        ref.check_row(r)
                    for i in op[2]:
                        if 0 <= i < len(op[1]):
                            ref.rows.append(RefTable.copyrow(op[1][i]))
                        else:
                            break
                except RefError:
                    pass
    return ops


# --------------------------------------------------------------------------
# Coq terms for the correspondence with coq/theories/C13/Harness.v
# --------------------------------------------------------------------------

def qz(n):
    n = int(n)
    return str(n) if n >= 0 else "(%d)" % n


def ql(xs, f=qz):
    return "[" + "; ".join(f(x) for x in xs) + "]"


def qll(xss):
    return ql(xss, ql)


def qrow(r):
    return "(%s, %s)" % (ql(r[0]), qll(r[1]))


def qopt(x):
    return "None" if x is None else "(Some %s)" % qz(x)


def qbools(bs):
    return ql(bs, lambda b: "true" if b else "false")


def qcols(c):
    return "(%s, %s)" % (ql(c["f"], lambda x: "None" if x is None else "(Some %s)" % ql(x)), ql(c["r"], lambda x: "None" if x is None else "(Some (%s, %s))" % (ql(x[0]), ql(x[1]))))


def qop(op):
    k = op[0]
    if k in ("add_row", "append"):
        return "OAddRow %s" % qrow(op[1])
    if k == "getitem":
        return "OGetItem %s" % qz(op[1])
    if k == "slice":
        return "OSlice %s %s %s" % (qopt(op[1]), qopt(op[2]), qz(1 if op[3] is None else op[3]))
    if k == "mask":
        return "OMask %s" % qbools(op[1])
    if k == "ids":
        return "OIds %s" % ql(op[1])
    if k == "iter":
        return "OIter"
    if k == "setitem":
        return "OSetItem %s %s" % (qz(op[1]), qrow(op[2]))
    if k == "setitem_from":
        return "OSetItemFrom %s %s" % (qz(op[1]), qz(op[2]))
    if k == "truncate":
        return "OTruncate %s" % qz(op[1])
    if k == "keep_rows":
        return "OKeepRows %s" % qbools(op[1])
    if k == "clear":
        return "OClear"
    if k == "set_columns":
        return "OSetColumns %s" % qcols(op[1])
    if k == "append_columns":
        return "OAppendColumns %s" % qcols(op[1])
    if k == "packset":
        return "OPackset %d%%nat %s" % (op[1], qll(op[2]))
    if k == "setattr":
        kind, j, which, vals = op[1], op[2], op[3], op[4]
        name = "OSetAttrFixed" if kind == "f" else ("OSetAttrData" if which == "data" else "OSetAttrOffset")
        return "%s %d%%nat %s" % (name, j, ql(vals))
    if k == "drop_metadata":
        return "ODropMetadata"
    if k == "copy":
        return "OCopy"
    if k == "extend":
        return "OExtend %s %s" % (ql(op[1], qrow), ql(op[2]))
    raise ValueError(k)


def qjrow(r):
    return "jrow %s" % qrow(r)


def qvalue(op, v):
    k = op[0]
    if k in ("add_row", "append"):
        return "JZ %s" % qz(v)
    if k == "getitem":
        return qjrow(v)
    if k in ("slice", "mask", "ids", "iter", "copy"):
        return "jrows %s" % ql(v, qrow)
    if k == "keep_rows":
        return "jz_list %s" % ql(v)
    return "JN"


def qdump(st):
    return "(%s, %s, %s, %s)" % (qz(st["n"]), qz(st["max_rows"]), qll(st["f"]),
                                 ql(st["r"], lambda x: "(%s, %s)" % (ql(x[0]), ql(x[1]))))


def coq_term(case, obs):
    ops, exps = [], []
    for op, (res, st) in zip(case["ops"], obs):
        ops.append(qop(op))
        val = qvalue(op, res[1]) if res[0] == "ok" else "JN"
        exps.append("(%s, %s, %s)" % ("true" if res[0] == "ok" else "false", val,
                                      "None" if st == "=" else "Some %s" % qdump(st)))
    return "c13_check d_%s %s [%s] [%s]" % (case["table"], qz(case.get("incr", 0)),
                                            "; ".join(ops), "; ".join(exps))


# --------------------------------------------------------------------------
# the stateful family
# --------------------------------------------------------------------------

def opclass(op):
    k = op[0]
    return {"getitem": "getitem-int", "slice": "getitem-slice", "mask": "getitem-slice",
            "ids": "getitem-slice"}.get(k, k.replace("_", "-"))


def rows_of_state(st):
    return wf_columns(len(st["f"]), len(st["r"]), st)


class TableOps(Family):
    name = "tableops"
    workers = 8
    shard = 150
    prelude = "From TskVerif Require Import Base.Common C13.Model C13.Harness.\nOpen Scope Z_scope."

    def generate(self, rng, tier):
        # every non-empty subset of the optional columns of every table left out of
        # append_columns (on a NON-EMPTY table whose rows hold non-default values there) and
        # of set_columns, followed by more appends
        import itertools
        for name in TABLES:
            fdef, ropt = OPTIONAL[name]
            cand = [("f", j) for j in fdef] + [("r", j) for j in ropt]
            _, fixed, ragged, selfref, _ = SCHEMAS[name]
            nf, nr = len(fixed), len(ragged)
            for k in range(1, len(cand) + 1):
                for sub in itertools.combinations(cand, k):
                    def rows(m, base):
                        out = []
                        for _ in range(m):
                            r = rand_row(rng, name, base)
                            for kind, j in cand:     # non-default values in the optional columns
                                if kind == "f":
                                    r[0][j] = rng.randrange(0, 5) if fixed[j][1] == "i32" else FLOATS[1 + rng.randrange(4)]
                                elif not r[1][j]:
                                    r[1][j] = [65 + rng.randrange(4)] if ragged[j][1] == "i8" else [rng.choice(FLOATS) if ragged[j][1] == "f64" else 0]
                            out.append(r)
                        return out

                    def omitted(m, base):
                        c = columns_of(nf, nr, rows(m, base))
                        for kind, j in sub:
                            c[kind][j] = None
                        return c
                    ops = [["add_row", r] for r in rows(3, 3)]
                    ops += [["append_columns", omitted(2, 5)], ["iter"], ["append_columns", omitted(3, 8)],
                            ["getitem", 1], ["set_columns", omitted(2, 2)], ["append_columns", omitted(1, 3)],
                            ["append_columns", columns_of(nf, nr, rows(2, 5))], ["iter"]]
                    yield {"table": name, "incr": rng.choice([0, 1]), "ops": ops}
        # keep_rows with arbitrary (forward, backward, self, NULL) references: every assignment
        # of the parent column of a 3-row mutation table x every keep mask; a sample (quick) /
        # all (thorough) of the same for the ragged parents column of individuals
        for name in ("mutations", "individuals"):
            _, fixed, ragged, selfref, _ = SCHEMAS[name]
            nf, nr = len(fixed), len(ragged)
            kind, j = selfref
            combos = list(itertools.product([-1, 0, 1, 2], repeat=3))
            masks = list(itertools.product([True, False], repeat=3))
            todo = [(c, m) for c in combos for m in masks]
            if name == "individuals" and tier == "quick":
                todo = rng.sample(todo, 160)
            PROFILE.update({"fwd": 0.0, "empty": frozenset(), "p_empty": 1.0})
            for refs, mask in todo:
                rows = [rand_row(rng, name, 0) for _ in range(3)]
                for i, p in enumerate(refs):
                    if kind == "f":
                        rows[i][0][j] = p
                    else:
                        rows[i][1][j] = [p] if p != -1 or rng.random() < 0.5 else []
                yield {"table": name, "incr": 0,
                       "ops": [["set_columns", columns_of(nf, nr, rows)], ["keep_rows", list(mask)], ["iter"]]}
        # one or several ragged columns entirely empty while their siblings are not: every
        # subset, for every table with two or more ragged columns, then every row operation
        for name in TABLES:
            _, fixed, ragged, selfref, _ = SCHEMAS[name]
            nr = len(ragged)
            if nr < 2:
                continue
            for k in range(1, nr + 1):
                for sub in itertools.combinations(range(nr), k):
                    def prefix(rng_, ref, name=name):
                        out = [["add_row", rand_row(rng_, name, i + 1)] for i in range(4)]
                        return out + [["keep_rows", [True, False, True, True]], ["iter"], ["copy"],
                                      ["keep_rows", [False, True, True]], ["copy"], ["truncate", 1]]
                    for rep in range(3 if tier == "quick" else 12):
                        yield {"table": name, "incr": rng.choice([0, 1]),
                               "ops": gen_ops(rng, name, 18, 0.03, 0,
                                              profile={"empty": frozenset(sub), "p_empty": rng.choice([1.0, 1.0, 0.9]),
                                                       "fwd": 0.0},
                                              prefix=prefix)}
        # exhaustive-ish small scope first: every table, every increment, short sequences
        per = 50 if tier == "quick" else 600
        for name in TABLES:
            for incr in (0, 1, 2):
                for _ in range(4 if tier == "quick" else 20):
                    yield {"table": name, "incr": incr, "ops": gen_ops(rng, name, rng.randrange(1, 9), 0.04, incr)}
            for _ in range(per):
                incr = rng.choice([0, 1, 1, 2, 3])
                yield {"table": name, "incr": incr,
                       "ops": gen_ops(rng, name, rng.randrange(8, 41), 0.04, incr)}
            # malformed stream: many refused operations
            for _ in range(per // 5):
                yield {"table": name, "incr": 1, "ops": gen_ops(rng, name, rng.randrange(4, 25), 0.3, 1)}

    def observe(self, case):
        return run_impl(case)

    def oracle(self, case, obs):
        name = case["table"]
        short = name[:-1] if name.endswith("s") else name
        ref = RefTable(name)
        out = []
        st = None
        for step, (op, (res, st_new)) in enumerate(zip(case["ops"], obs)):
            if st_new != "=":
                st = st_new
            before = [RefTable.copyrow(r) for r in ref.rows]
            try:
                exp = ["ok", ref.apply(op)]
            except RefError as e:
                exp = ["err", e.kinds, e.why]
            oc = opclass(op)
            where = "step %d %s" % (step, op[0])
            # --- result
            if exp[0] == "ok":
                if res[0] != "ok":
                    out.append(("%s-%s" % (short, oc), "%s: raised %s (%s), the list model returns %r"
                                % (where, res[1], res[2], exp[1])))
                elif res[1] != exp[1]:
                    out.append(("%s-%s-result" % (short, oc), "%s: returned %r, list model %r" % (where, res[1], exp[1])))
            else:
                if res[0] == "ok":
                    out.append(("%s-%s-accepted%s" % (short, oc, "-" + exp[2] if exp[2] else ""),
                                "%s: accepted, the list model refuses it (%s)" % (where, exp[2] or "invalid")))
                elif exp[1] is not None and res[1] not in exp[1]:
                    out.append(("%s-%s-errclass" % (short, oc), "%s: raised %s, expected one of %s" % (where, res[1], sorted(exp[1]))))
            # --- state
            got = rows_of_state(st)
            if got is None:
                out.append(("%s-%s-state-malformed%s" % (short, oc, "-" + exp[2] if exp[0] == "err" and exp[2] else ""),
                            "%s: after the call the table's columns are not a well-formed encoding "
                            "(lengths/offsets): %r" % (where, st)))
                break
            if st["n"] != len(got):
                out.append(("%s-%s-numrows" % (short, oc), "%s: num_rows=%d but columns hold %d rows" % (where, st["n"], len(got))))
                break
            if got == ref.rows:
                continue
            if op[0] == "extend" and exp[0] == "err":
                # low-level extend adds row by row; a bad index leaves the valid prefix
                # appended.  ll_table.extend is not in the property's operation list:
                # accept unchanged-or-prefix and resynchronise.
                pref = []
                for i in op[2]:
                    if 0 <= i < len(op[1]):
                        pref.append(RefTable.copyrow(op[1][i]))
                    else:
                        break
                if got == before + pref:
                    ref.rows = got
                    continue
            if res[0] == "err" and got == before:
                # refused something the list accepts (reported above), nothing changed
                ref.rows = before
                continue
            if res[0] == "err":
                out.append(("%s-%s-failed-call-changed-table%s" % (short, oc, "-" + exp[2] if exp[0] == "err" and exp[2] else ""),
                            "%s: the call raised %s (%s) but the table changed: %d rows before, %d after"
                            % (where, res[1], res[2], len(before), len(got))))
            elif exp[0] == "ok":
                k = next((i for i, (a, b) in enumerate(zip(got, ref.rows)) if a != b), min(len(got), len(ref.rows)))
                out.append(("%s-%s-state" % (short, oc),
                            "%s: contents differ from the list model at row %d: table %r, list %r (rows %d vs %d)"
                            % (where, k, got[k] if k < len(got) else None,
                               ref.rows[k] if k < len(ref.rows) else None, len(got), len(ref.rows))))
            break
        return out

    def coq_check(self, case, obs):
        return coq_term(case, obs)

    def nontrivial(self, case, obs):
        return len(case["ops"]) >= 3

    def describe(self, case, obs):
        d = {"table": case["table"], "len": len(case["ops"]) // 10 * 10}
        return d

    def shrink(self, case):
        ops = case["ops"]
        for i in range(len(ops) - 1, -1, -1):
            yield dict(case, ops=ops[:i] + ops[i + 1:])
        if len(ops) > 1:
            yield dict(case, ops=ops[:len(ops) // 2])



# --------------------------------------------------------------------------
# hazard: what happens after the defects found by tableops (forked: may abort)
# --------------------------------------------------------------------------

def in_child(fn, timeout=15):
    import json
    import os
    import select
    import signal
    r, w = os.pipe()
    pid = os.fork()
    if pid == 0:
        try:
            os.close(r)
            dn = os.open(os.devnull, os.O_WRONLY)
            os.dup2(dn, 2)
            try:
                out = fn()
            except Exception as e:
                out = {"exception": type(e).__name__ + ": " + str(e)[:200]}
            os.write(w, json.dumps(out).encode())
        finally:
            os._exit(0)
    os.close(w)
    buf = b""
    died = None
    while True:
        rl, _, _ = select.select([r], [], [], timeout)
        if not rl:
            os.kill(pid, signal.SIGKILL)
            died = "timeout"
            break
        d = os.read(r, 1 << 16)
        if not d:
            break
        buf += d
    os.close(r)
    _, status = os.waitpid(pid, 0)
    if died is None and os.WIFSIGNALED(status):
        died = os.WTERMSIG(status)
    if died is not None or not buf:
        return {"died": died if died is not None else "no-output"}
    return json.loads(buf)


class Hazard(Family):
    name = "hazard"
    workers = 4

    def generate(self, rng, tier):
        reps = 2 if tier == "quick" else 12
        for _ in range(reps):
            for name in TABLES:
                _, fixed, ragged, _, md = SCHEMAS[name]
                nb = rng.randrange(0, 4)
                base = [rand_row(rng, name, nb) for _ in range(nb)]
                m = rng.randrange(1, 4)
                batch = [rand_row(rng, name, nb + m) for _ in range(m)]
                for r in batch:
                    for j, (_, kind, is_str) in enumerate(ragged):
                        if not r[1][j]:
                            r[1][j] = [65] if kind == "i8" else [rand_cell(rng, kind, nb, False) if kind != "i32" else 0]
                for bad_col in range(len(ragged)):
                    yield {"kind": "refused-append-then-add", "table": name, "base": base, "batch": batch,
                           "how": rng.choice(["first", "order"]) if m >= 2 else "first", "bad_col": bad_col,
                           "new": rand_row(rng, name, nb + 1)}
            for name in ("individuals", "nodes", "edges", "migrations", "sites", "mutations"):
                for delta in (-1, 1):
                    for via in ("set_columns", "append_columns", "packset_metadata", "setattr"):
                        nb = rng.randrange(1, 5)
                        yield {"kind": "metadata-offset-length", "table": name, "delta": delta, "via": via,
                               "base": [rand_row(rng, name, nb) for _ in range(nb)]}

    _warm = set()

    def observe(self, case):
        import numpy as np
        name = case["table"]
        if name not in Hazard._warm:
            # lazy imports / caches are paid once in the parent, not in every forked child
            Hazard._warm.add(name)
            w = Impl(name, 0)
            w.t.add_row(**w.kwargs(rand_row(__import__("random").Random(1), name, 1)))
            w.t.append_columns(**w.cols_kwargs(columns_of(len(w.fixed), len(w.ragged), w.canon_table(w.t))))
            w.dump()

        def refused_append():
            impl = Impl(name, 0)
            for r in case["base"]:
                impl.t.add_row(**impl.kwargs(r))
            cols = columns_of(len(impl.fixed), len(impl.ragged), case["batch"])
            off = cols["r"][case["bad_col"]][1]
            if case["how"] == "first":
                off[0] = 1
            else:
                off[1] = off[-1] + 1
            try:
                impl.t.append_columns(**impl.cols_kwargs(cols))
                refused = False
            except Exception as e:
                refused = type(e).__name__
            st1 = impl.dump()
            impl.t.add_row(**impl.kwargs(case["new"]))       # may abort the process
            st2 = impl.dump()
            return {"refused": refused, "after_refusal": rows_of_state(st1), "final": rows_of_state(st2),
                    "last_row": impl.canon_row(impl.t[len(impl.t) - 1])}

        def md_offset_length():
            impl = Impl(name, 0)
            for r in case["base"]:
                impl.t.add_row(**impl.kwargs(r))
            n = len(case["base"])
            mdj = impl.md
            cn = impl.ragged[mdj][0]
            m = n + case["delta"]
            vals = [[1, 2]] * m
            cols = columns_of(len(impl.fixed), len(impl.ragged), case["base"])
            data, off = [], [0]
            for v in vals:
                data += v
                off.append(len(data))
            cols["r"][mdj] = [data, off]
            try:
                if case["via"] == "set_columns":
                    impl.t.set_columns(**impl.cols_kwargs(cols))
                elif case["via"] == "append_columns":
                    impl.t.append_columns(**impl.cols_kwargs(cols))
                elif case["via"] == "packset_metadata":
                    impl.t.packset_metadata([bytes(v) for v in vals])
                else:
                    # metadata is unchanged, only the offsets array has the wrong length
                    cur = [int(x) for x in impl.t.metadata_offset]
                    setattr(impl.t, cn + "_offset",
                            np.array(cur[:-1] if case["delta"] < 0 else cur + [cur[-1]], dtype=np.uint64))
                acc = True
            except Exception as e:
                acc = type(e).__name__
            return {"accepted": acc, "n_after": int(impl.t.num_rows)}

        return in_child(refused_append if case["kind"] == "refused-append-then-add" else md_offset_length)

    def oracle(self, case, obs):
        name = case["table"]
        short = name[:-1]
        out = []
        if case["kind"] == "refused-append-then-add":
            if "exception" in obs:
                return [("%s-hazard-adapter" % short, obs["exception"])]
            if "died" in obs:
                return [("%s-refused-append-then-add-row-abort" % short,
                         "append_columns with a bad last offset column was refused, the following add_row "
                         "killed the process (signal %s)" % obs["died"])]
            if not obs["refused"]:
                out.append(("%s-append-columns-accepted-offset-%s" % (short, case["how"]), "malformed offsets accepted"))
            want = case["base"] + [case["new"]]
            if obs["final"] != want:
                out.append(("%s-refused-append-then-add-row-wrong-row" % short,
                            "after the refused append_columns and one add_row the last row is %r, "
                            "the row added was %r" % (obs["last_row"], case["new"])))
            return out
        n = len(case["base"])
        if "exception" in obs:
            return [("%s-hazard-adapter" % short, obs["exception"])]
        if "died" in obs:
            return [("%s-metadata-offset-length-overread" % short, "process died (%s)" % obs["died"])]
        if obs["accepted"] is True:
            if case["via"] == "append_columns" and False:
                pass
            out.append(("%s-metadata-offset-length-%s" % (short, "overread" if case["delta"] > 0 else "accepted"),
                        "%s with %d metadata offsets for %d rows was accepted; table now has %d rows"
                        % (case["via"], n + case["delta"] + 1, n, obs["n_after"])))
        return out

    def describe(self, case, obs):
        return {"kind": case["kind"], "table": case["table"]}


# --------------------------------------------------------------------------
# pack / unpack
# --------------------------------------------------------------------------

class Pack(Family):
    name = "pack"
    workers = 4
    prelude = "From TskVerif Require Import Base.Common C13.Model C13.Harness.\nOpen Scope Z_scope."

    def generate(self, rng, tier):
        yield {"dtype": "bytes", "rows": []}
        yield {"dtype": "bytes", "rows": [[]]}
        yield {"dtype": "i32", "rows": []}
        for _ in range(150 if tier == "quick" else 3000):
            dt = rng.choice(["bytes", "i32", "f64"])
            n = rng.randrange(0, 8)
            rows = []
            for _ in range(n):
                ln = 0 if rng.random() < 0.3 else rng.randrange(1, 6)
                if dt == "bytes":
                    rows.append([rng.randrange(256) for _ in range(ln)])
                elif dt == "i32":
                    rows.append([rng.randrange(-2 ** 31, 2 ** 31) for _ in range(ln)])
                else:
                    rows.append([rng.choice(FLOATS) for _ in range(ln)])
            yield {"dtype": dt, "rows": rows}

    def observe(self, case):
        import numpy as np
        from tskit import util
        rows = case["rows"]
        if case["dtype"] == "bytes":
            p, o = util.pack_bytes([bytes(r) for r in rows])
            back = [list(b) for b in util.unpack_bytes(p, o)]
            return {"packed": ints_of("i8", p), "offset": [int(x) for x in o], "back": back,
                    "dtypes": [str(p.dtype), str(o.dtype)]}
        kind = case["dtype"]
        if kind == "i32":
            p, o = util.pack_arrays(rows, np.int32)
        else:
            p, o = util.pack_arrays([[b2f(x) for x in r] for r in rows])
        back = [ints_of(kind, a) for a in util.unpack_arrays(p, o)]
        return {"packed": ints_of(kind, p), "offset": [int(x) for x in o], "back": back,
                "dtypes": [str(p.dtype), str(o.dtype)]}

    def oracle(self, case, obs):
        rows = case["rows"]
        out = []
        flat = [x for r in rows for x in r]
        offs = [0]
        for r in rows:
            offs.append(offs[-1] + len(r))
        if obs["packed"] != flat or obs["offset"] != offs:
            out.append(("pack-%s-encoding" % case["dtype"], "pack(%r) = %r, %r" % (rows, obs["packed"], obs["offset"])))
        if obs["back"] != rows:
            out.append(("pack-%s-roundtrip" % case["dtype"], "unpack(pack(%r)) = %r" % (rows, obs["back"])))
        return out

    def coq_check(self, case, obs):
        rows = "[" + "; ".join(clist(r) for r in case["rows"]) + "]"
        return ("c13_pack_check %s %s %s %s" % (rows, clist(obs["packed"]), clist(obs["offset"]),
                                                "[" + "; ".join(clist(r) for r in obs["back"]) + "]"))

    def nontrivial(self, case, obs):
        return len(case["rows"]) >= 2 and any(case["rows"])

    def describe(self, case, obs):
        return {"dtype": case["dtype"], "n": len(case["rows"])}


# --------------------------------------------------------------------------
# immutability monitor (runtime; this half of C13 is labelled partial)
# --------------------------------------------------------------------------

def deep_digest(obj, h=None):
    import numpy as np
    top = h is None
    if top:
        h = hashlib.sha256()
    if isinstance(obj, dict):
        h.update(b"{")
        for k in sorted(obj, key=str):
            h.update(str(k).encode() + b":")
            deep_digest(obj[k], h)
        h.update(b"}")
    elif isinstance(obj, np.ndarray):
        h.update(str(obj.dtype).encode() + str(obj.shape).encode())
        h.update(np.ascontiguousarray(obj).tobytes())
    elif isinstance(obj, (list, tuple)):
        h.update(b"[")
        for x in obj:
            deep_digest(x, h)
        h.update(b"]")
    elif isinstance(obj, bytes):
        h.update(b"b" + obj)
    else:
        h.update(repr(obj).encode())
    return h.hexdigest() if top else None


def find_arrays(obj, path="", depth=0, seen=None):
    """Every numpy array reachable from a returned object (containers, row objects)."""
    import numpy as np
    if seen is None:
        seen = set()
    if id(obj) in seen or depth > 3:
        return
    seen.add(id(obj))
    if isinstance(obj, np.ndarray):
        yield path, obj
    elif isinstance(obj, dict):
        for k, v in list(obj.items())[:50]:
            yield from find_arrays(v, "%s[%r]" % (path, k), depth + 1, seen)
    elif isinstance(obj, (list, tuple)):
        for i, v in enumerate(obj[:50]):
            yield from find_arrays(v, "%s[%d]" % (path, i), depth + 1, seen)
    elif type(obj).__module__.startswith("tskit") and not isinstance(obj, type):
        names = list(getattr(obj, "__slots__", [])) + list(getattr(obj, "__dict__", {}).keys())
        if type(obj).__name__ not in ("TreeSequence", "Tree", "Variant", "TableCollection"):
            # row objects (Node, Site, Mutation, Individual, ...), IdentitySegmentList, tables:
            # every public property as well
            import inspect
            names += [n for n, o in inspect.getmembers(type(obj)) if isinstance(o, property) and not n.startswith("_")]
        if isinstance(obj, (collections_abc.Mapping,)):
            try:
                items = list(itertools_islice(obj.items(), 20))
            except Exception:
                items = []
            for k2, v2 in items:
                yield from find_arrays(v2, "%s[%r]" % (path, k2), depth + 1, seen)
        for nme in names[:40]:
            if nme.startswith("__") or nme in ("_ll_tree_sequence", "_ll_tree", "tree_sequence", "_tree_sequence"):
                continue
            try:
                v = getattr(obj, nme)
            except Exception:
                continue
            if isinstance(v, (np.ndarray, list, tuple, dict)) or type(v).__module__.startswith("tskit"):
                yield from find_arrays(v, "%s.%s" % (path, nme), depth + 1, seen)


def try_write(a):
    """Attempt to assign into an array.  Returns 'readonly' | 'written' | 'empty' | other."""
    import numpy as np
    if a.size == 0:
        return "empty"
    try:
        if a.dtype.kind in "iu":
            a.flat[0] = (int(a.flat[0]) + 1) % 100
            a[...] = 7
        elif a.dtype.kind == "f":
            a[...] = 12345.5
        elif a.dtype.kind == "b":
            a[...] = ~a
        elif a.dtype.kind in "SU":
            a[...] = "Z"
        elif a.dtype.kind == "O":
            a[...] = None
        else:
            a[...] = np.zeros((), dtype=a.dtype)
        return "written"
    except ValueError as e:
        return "readonly" if "read-only" in str(e) else "ValueError"
    except Exception as e:
        return type(e).__name__


def snapshot(obj):
    return [(p, a.copy()) for p, a in find_arrays(obj)]


def same_snapshot(s1, s2):
    import numpy as np
    if [p for p, _ in s1] != [p for p, _ in s2]:
        return False
    for (_, a), (_, b) in zip(s1, s2):
        if a.shape != b.shape or a.dtype != b.dtype:
            return False
        if a.dtype.kind == "f":
            if not np.array_equal(a, b, equal_nan=True):
                return False
        elif not np.array_equal(a, b):
            return False
    return True


def ts_calls(ts, rng):
    """(name, thunk, repeatable) for a TreeSequence: every property of the class plus a
    curated list of methods (including every table-editing method, which must work on a
    copy)."""
    import inspect
    import numpy as np
    import tskit
    calls = []
    for nme, obj in inspect.getmembers(type(ts)):
        if isinstance(obj, property) and not nme.startswith("_"):
            calls.append(("ts." + nme, (lambda n=nme: getattr(ts, n)), True))
    L = ts.sequence_length
    N, S, M = ts.num_nodes, ts.num_sites, ts.num_mutations
    smp = list(ts.samples())

    def add(nme, f, rep=True):
        calls.append(("ts." + nme, f, rep))

    add("samples()", lambda: ts.samples())
    add("breakpoints(as_array)", lambda: ts.breakpoints(as_array=True))
    add("genotype_matrix()", lambda: ts.genotype_matrix())
    add("genotype_matrix(isolated_as_missing=False)", lambda: ts.genotype_matrix(isolated_as_missing=False))
    add("haplotypes()", lambda: list(ts.haplotypes(missing_data_character="?")))
    add("variants()", lambda: [(v.genotypes, v.alleles) for v in ts.variants()])
    add("variants(copy=False)", lambda: [v.genotypes for v in ts.variants(copy=False)])
    add("dump_tables().mutate", lambda: _mutate_tables(ts.dump_tables()), False)
    add("tables.mutate", lambda: _mutate_tables(ts.tables), False)
    add("tables.columns", lambda: {t: tb.asdict() for t, tb in ts.tables.table_name_map.items()})
    add("simplify()", lambda: ts.simplify().tables.nodes.time)
    add("simplify(map_nodes)", lambda: ts.simplify(smp[:2], map_nodes=True, filter_sites=False)[1] if len(smp) >= 2 else None)
    add("subset()", lambda: ts.subset(list(range(0, N, 2))).tables.nodes.flags)
    add("delete_sites", lambda: ts.delete_sites([0]).tables.sites.position if S else None)
    add("keep_intervals", lambda: ts.keep_intervals([[0, L / 2]], simplify=False).tables.edges.left)
    add("delete_intervals", lambda: ts.delete_intervals([[L / 4, L / 2]], simplify=False).tables.edges.right)
    add("trim", lambda: ts.keep_intervals([[L / 4, L / 2]], simplify=False).trim().tables.edges.left)
    add("decapitate", lambda: ts.decapitate(1).tables.nodes.time)
    add("delete_older?", lambda: ts.dump_tables().delete_older(1))
    add("union(self)", lambda: ts.union(ts, np.arange(N, dtype=np.int32), check_shared_equality=False).tables.nodes.time)
    for k in range(3):
        if N:
            add("node(%d)" % k, lambda i=rng.randrange(N): ts.node(i))
        if ts.num_edges:
            add("edge(%d)" % k, lambda i=rng.randrange(ts.num_edges): ts.edge(i))
        if S:
            add("site(%d)" % k, lambda i=rng.randrange(S): ts.site(i))
        if M:
            add("mutation(%d)" % k, lambda i=rng.randrange(M): ts.mutation(i))
        if ts.num_individuals:
            add("individual(%d)" % k, lambda i=rng.randrange(ts.num_individuals): ts.individual(i))
        if ts.num_populations:
            add("population(%d)" % k, lambda i=rng.randrange(ts.num_populations): ts.population(i))
    add("nodes()", lambda: list(ts.nodes()))
    add("individuals()", lambda: list(ts.individuals()))
    add("sites()", lambda: list(ts.sites()))
    add("mutations()", lambda: list(ts.mutations()))
    add("edge_diffs()", lambda: [(iv, list(o), list(i)) for iv, o, i in ts.edge_diffs()])
    add("trees()", lambda: [t.parent_array.copy() for t in ts.trees()])
    add("aslist()", lambda: [t.parent_array for t in ts.aslist()])
    add("diversity()", lambda: ts.diversity(mode="branch"))
    add("diversity(windows=trees)", lambda: ts.diversity(windows="trees", mode="site"))
    add("afs", lambda: ts.allele_frequency_spectrum(polarised=True, span_normalise=False))
    add("segregating_sites(sample_sets)", lambda: ts.segregating_sites([smp], mode="branch") if smp else None)
    add("mean_descendants", lambda: ts.mean_descendants([smp]) if smp else None)
    add("gnn", lambda: ts.genealogical_nearest_neighbours(smp, [smp]) if smp else None)
    add("pickle", lambda: __import__("pickle").loads(__import__("pickle").dumps(ts)).tables.nodes.time)
    add("ibd_segments", lambda: ts.ibd_segments(store_segments=True).num_segments)
    add("draw_text", lambda: ts.draw_text())
    add("str", lambda: str(ts))
    add("as_vcf?", lambda: ts.as_vcf() if hasattr(ts, "as_vcf") else None)
    add("dump_text", lambda: ts.dump_text())
    add("ibd_segments(pairs)", lambda: ts.ibd_segments(store_segments=True, store_pairs=True))
    add("ibd_segments(between)", lambda: ts.ibd_segments(between=[smp[:1], smp[1:]], store_pairs=True, store_segments=True)
        if len(smp) >= 2 else None)
    calls += discovered_methods("ts.", ts, {"dump", "draw_svg", "draw"})
    return calls


NAVIGATION = {"next", "prev", "first", "last", "clear", "seek", "seek_index", "decode"}


def discovered_methods(prefix, obj, skip):
    """Every public method of the class that can be called without arguments."""
    import inspect
    out = []
    for nme, fn in inspect.getmembers(type(obj), inspect.isfunction):
        if nme.startswith("_") or nme in skip:
            continue
        try:
            params = list(inspect.signature(fn).parameters.values())[1:]
        except (TypeError, ValueError):
            continue
        if any(p_.default is inspect.Parameter.empty and p_.kind in (p_.POSITIONAL_ONLY, p_.POSITIONAL_OR_KEYWORD, p_.KEYWORD_ONLY)
               for p_ in params):
            continue

        def call(n=nme):
            r = getattr(obj, n)()
            if inspect.isgenerator(r) or isinstance(r, (map, filter, zip)):
                r = list(itertools_islice(r, 50))
            return r
        out.append((prefix + nme + "()*", call, nme not in NAVIGATION))
    return out


def _mutate_tables(tc):
    """Edit a TableCollection obtained from a tree sequence as violently as possible."""
    out = tc.nodes.asdict()
    for tb in tc.table_name_map.values():
        d = tb.asdict()
        for k, v in d.items():
            if hasattr(v, "flags") and v.size:
                try:
                    v[...] = 1
                except Exception:
                    pass
        if len(tb):
            tb.truncate(len(tb) - 1)
    tc.nodes.add_row(flags=1, time=99)
    tc.edges.clear()
    tc.sequence_length = tc.sequence_length + 1
    tc.metadata_schema = __import__("tskit").MetadataSchema({"codec": "json"})
    tc.metadata = {"x": 1}
    return out


def tree_calls(ts, tree, rng):
    import inspect
    calls = []
    for nme, obj in inspect.getmembers(type(tree)):
        if isinstance(obj, property) and not nme.startswith("_"):
            calls.append(("tree." + nme, (lambda n=nme: getattr(tree, n)), True))
    L = ts.sequence_length
    N = ts.num_nodes

    def add(nme, f, rep=True):
        calls.append(("tree." + nme, f, rep))

    add("next()", lambda: tree.next(), False)
    add("prev()", lambda: tree.prev(), False)
    add("first()", lambda: tree.first(), False)
    add("last()", lambda: tree.last(), False)
    add("clear()", lambda: tree.clear(), False)
    add("seek()", lambda x=rng.random() * L * 0.999: tree.seek(x), False)
    add("seek_index()", lambda i=rng.randrange(ts.num_trees): tree.seek_index(i), False)
    add("copy()", lambda: tree.copy().parent_array)
    add("samples()", lambda: list(tree.samples()))
    add("nodes(postorder)", lambda: list(tree.nodes(order="postorder")))
    add("postorder()", lambda: tree.postorder())
    add("preorder()", lambda: tree.preorder())
    add("timeasc()", lambda: tree.timeasc())
    add("timedesc()", lambda: tree.timedesc())
    add("parent_dict", lambda: tree.parent_dict)
    add("sites()", lambda: list(tree.sites()))
    add("mutations()", lambda: list(tree.mutations()))
    add("as_newick", lambda: tree.as_newick() if tree.num_roots == 1 else None)
    add("draw_text", lambda: tree.draw_text())
    add("total_branch_length", lambda: tree.total_branch_length)
    add("num_lineages", lambda: tree.num_lineages(0.5))
    add("map_mutations", lambda: tree.map_mutations([0] * ts.num_samples, ["A"]) if ts.num_samples and tree.index >= 0 else None)
    add("kc_distance", lambda: tree.kc_distance(tree) if tree.num_roots == 1 and tree.index >= 0 else None)
    if N:
        add("mrca", lambda u=rng.randrange(N), v=rng.randrange(N): tree.mrca(u, v))
        add("children", lambda u=rng.randrange(N): tree.children(u))
        add("leaves", lambda u=rng.randrange(N): list(tree.leaves(u)))
    calls += discovered_methods("tree.", tree, {"draw_svg", "draw"})
    return calls


def variant_calls(ts, var, rng):
    import inspect
    calls = []
    S = ts.num_sites

    def add(nme, f, rep=True):
        calls.append(("variant." + nme, f, rep))

    if S:
        add("decode()", lambda i=rng.randrange(S): var.decode(i), False)
    for nme, obj in inspect.getmembers(type(var)):
        if isinstance(obj, property) and not nme.startswith("_"):
            calls.append(("variant." + nme, (lambda n=nme: getattr(var, n)), True))
    add("copy()", lambda: var.copy().genotypes)
    add("counts()", lambda: dict(var.counts()))
    add("frequencies()", lambda: dict(var.frequencies()))
    add("states()", lambda: var.states())
    calls += discovered_methods("variant.", var, set())
    return calls


class Immut(Family):
    name = "immut"
    workers = 8
    timeout = 60.0

    def generate(self, rng, tier):
        from harness import gen_ts
        for k in range(150 if tier == "quick" else 1200):
            desc = gen_ts.random_desc(rng, max_nodes=rng.choice([4, 6, 8]), migrations=rng.random() < 0.3)
            yield {"desc": desc, "seed": rng.randrange(1 << 30), "ncalls": rng.randrange(10, 41)}

    def observe(self, case):
        import random
        import warnings
        import tskit
        from harness import gen_ts
        warnings.simplefilter("ignore")
        rng = random.Random(case["seed"])
        tc = gen_ts.build_tables(case["desc"])
        tc.provenances.add_row(record="{}", timestamp="2020-01-01T00:00:00")
        try:
            ts = tc.tree_sequence()
        except Exception as e:
            return {"skipped": type(e).__name__ + ": " + str(e)[:100]}
        tc0 = tc.copy()
        before = deep_digest(ts.dump_tables().asdict())
        tree = ts.first() if rng.random() < 0.7 else tskit.Tree(ts, sample_lists=True, tracked_samples=list(ts.samples())[:2])
        var = tskit.Variant(ts, isolated_as_missing=rng.random() < 0.5)
        if ts.num_sites:
            var.decode(0)
        pool = ts_calls(ts, rng) + tree_calls(ts, tree, rng) + variant_calls(ts, var, rng)
        log = []
        narr = nro = nwritten = 0
        problems = []
        names = []
        for _ in range(case["ncalls"]):
            nme, f, rep = rng.choice(pool)
            names.append(nme)
            try:
                r = f()
            except Exception as e:
                log.append([nme, "raised " + type(e).__name__])
                r = None
            arrays = list(find_arrays(r))
            snap = [(p, a.copy()) for p, a in arrays]
            outcomes = []
            for p, a in arrays:
                narr += 1
                o = try_write(a)
                outcomes.append(o)
                if o == "readonly":
                    nro += 1
                    if a.flags.writeable:
                        problems.append(["writeable-flag-but-readonly", nme + p])
                elif o == "written":
                    nwritten += 1
            now = deep_digest(ts.dump_tables().asdict())
            if now != before:
                problems.append(["tables-changed", nme, outcomes])
                break
            if rep and "written" in outcomes:
                # a write went through: the array must have been a private copy, so the
                # same call must still return the original values
                try:
                    r2 = f()
                    if not same_snapshot(snap, snapshot(r2)):
                        problems.append(["write-visible-through-api", nme])
                except Exception as e:
                    problems.append(["second-call-raised", nme, type(e).__name__])
        eq = bool(tc0.equals(ts.dump_tables())) and bool(ts.tables == tc0)
        if not eq:
            problems.append(["tables-not-equal-at-end", ""])
        return {"calls": names, "arrays": narr, "readonly": nro, "written": nwritten, "problems": problems,
                "raised": log[:10]}

    def oracle(self, case, obs):
        if "skipped" in obs:
            return []
        return [("immut-%s-%s" % (p[0], _callkey(p[1])), "%r" % (p,)) for p in obs["problems"]]

    def nontrivial(self, case, obs):
        return "skipped" not in obs and obs["arrays"] > 0

    def describe(self, case, obs):
        if "skipped" in obs:
            return {"skipped": 1}
        return {"arrays": min(obs["arrays"] // 20 * 20, 200), "written": min(obs["written"] // 10 * 10, 100)}

    def shrink(self, case):
        if case["ncalls"] > 1:
            yield dict(case, ncalls=case["ncalls"] - 1)


def _callkey(nme):
    import re
    return re.sub(r"[^A-Za-z0-9_.]+", "_", str(nme))[:40]


class Accessors(Family):
    """The regenerated accessor table (translator/facts_c13.accessor_table, = c13_accessors in
    Gen/Generated.v, about which coq/theories/C13/Accessors.v proves that no entry is a
    writeable view) against the live objects: a `view` must be a non-writeable array whose
    base is the low-level object, a `copy` must own its data."""
    name = "accessors"
    workers = 4

    def generate(self, rng, tier):
        from harness import gen_ts
        for _ in range(24 if tier == "quick" else 150):
            yield {"desc": gen_ts.random_desc(rng, max_nodes=rng.choice([3, 6, 8]), migrations=rng.random() < 0.5)}

    @staticmethod
    def table():
        import importlib.util
        import os
        from harness import common
        spec = importlib.util.spec_from_file_location(
            "facts_c13", os.path.join(common.VERIF, "translator", "facts_c13.py"))
        mod = importlib.util.module_from_spec(spec)
        spec.loader.exec_module(mod)

        def read(rel):
            return open(os.path.join(common.REPO, rel)).read()

        def die(msg):
            raise RuntimeError(msg)
        rows, readonly = mod.accessor_table(read, die)
        return rows, readonly, mod.cached_arrays(read, die)

    def observe(self, case):
        import warnings
        import numpy as np
        from harness import gen_ts
        warnings.simplefilter("ignore")
        tc = gen_ts.build_tables(case["desc"])
        try:
            ts = tc.tree_sequence()
        except Exception as e:
            return {"skipped": type(e).__name__}
        rows, readonly, cached = self.table()
        tree = ts.first()
        out = []
        for nme, kind in rows:
            cls, attr = nme.split(".")
            ll = ts._ll_tree_sequence if cls == "TreeSequence" else tree._ll_tree
            try:
                a = getattr(ll, attr)
            except Exception as e:
                out.append([nme, kind, "raised " + type(e).__name__, None, None])
                continue
            if not isinstance(a, np.ndarray):
                out.append([nme, kind, "not-an-array", None, None])
                continue
            out.append([nme, kind, "array", bool(a.flags.writeable), a.base is ll])
        for nme, ro in cached:
            prop = nme[1:]
            try:
                getattr(ts, prop)
            except Exception:
                pass
            a = getattr(ts, nme)
            out.append(["TreeSequence." + nme, "cached-ro" if ro else "cached-rw", "array" if a is not None else "unset",
                        None if a is None else bool(a.flags.writeable), None])
        return {"rows": out, "view_readonly": readonly}

    def oracle(self, case, obs):
        if "skipped" in obs:
            return []
        out = []
        for nme, kind, what, writeable, based in obs["rows"]:
            if what != "array":
                if what == "not-an-array":
                    out.append(("accessor-table-%s-not-an-array" % _callkey(nme), "%s: table says %s" % (nme, kind)))
                continue
            if writeable:
                out.append(("accessor-writeable-%s" % _callkey(nme), "%s hands out a writeable array (table: %s)" % (nme, kind)))
            if kind == "view" and not based:
                out.append(("accessor-table-%s-view-without-base" % _callkey(nme), "%s: table says view of the object" % nme))
            if kind == "copy" and based:
                out.append(("accessor-table-%s-copy-with-base" % _callkey(nme), "%s: table says copy" % nme))
        return out

    def nontrivial(self, case, obs):
        return "skipped" not in obs

    def describe(self, case, obs):
        return {"entries": len(obs.get("rows", []))}


FAMILIES = [TableOps, Hazard, Pack, Immut, Accessors]

NOT_COVERED = []
