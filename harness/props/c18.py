"""C18 -- Newick / Nexus / FASTA exports.

Families
  newick      one hand-built tree (chains, stars, random; polytomies, unary nodes, internal
              samples, dead branches; integer / large / fractional / negative times) x root x
              precision x node_labels x include_branch_lengths.  Oracle: OWN Newick parser
              (written from the grammar), unordered labelled-tree comparison against the
              parent array of the case, branch tokens by exact decimal rendering of the
              double difference; fast (C) and general (Python) path forced and compared.
  newick_ts   the same questions on marginal trees of multi-tree sequences (child order as
              left by edge insertion/removal, multi-root trees, isolated nodes).
  nexus       as_nexus / write_nexus structure, names, newick strings, DATA = alignments().
  fasta       as_fasta / write_fasta = alignments() wrapped.
  wrap        text_formats.wrap_text directly.
Coq side: coq/theories/C18/Model.v (writers, parser, estimate, wrap_text, nexus/fasta lines).
"""
import decimal
import math
import os
import tempfile

from harness.runner import Family
from harness.common import cz, clist
from harness import gen_ts

NULL = -1
DELIMS = "(),:;"


# ----------------------------------------------------------------------------------
# Own Newick reader (grammar: Tree -> Subtree ';' ; Subtree -> '(' Branch {',' Branch} ')' Name
# | Name ; Branch -> Subtree [':' Length] ; Name, Length = maximal runs without ( ) , : ; )
# Iterative, so 2000-deep chains need no recursion.  Node = [name, length|None, [children]].
# ----------------------------------------------------------------------------------
class NewickError(Exception):
    pass


def parse_newick(s):
    n = len(s)
    pos = 0
    stack = []          # open internal nodes
    cur = None          # the node just completed (waiting for , ) or ;)

    def run(i):
        j = i
        while j < n and s[j] not in DELIMS:
            j += 1
        return s[i:j], j

    # state machine: at "expect subtree" we either open '(' or read a leaf
    expect_subtree = True
    while True:
        if expect_subtree:
            if pos < n and s[pos] == "(":
                stack.append(["", None, []])
                pos += 1
                continue
            name, pos = run(pos)
            cur = [name, None, []]
            expect_subtree = False
        # after a complete subtree: optional length, then , ) ;
        if pos < n and s[pos] == ":":
            ln, pos = run(pos + 1)
            cur[1] = ln
        if pos >= n:
            raise NewickError("unexpected end of input")
        c = s[pos]
        if c == ",":
            if not stack:
                raise NewickError("',' outside parentheses at %d" % pos)
            stack[-1][2].append(cur)
            pos += 1
            expect_subtree = True
        elif c == ")":
            if not stack:
                raise NewickError("unbalanced ')' at %d" % pos)
            node = stack.pop()
            node[2].append(cur)
            pos += 1
            name, pos = run(pos)
            node[0] = name
            cur = node
        elif c == ";":
            if stack:
                raise NewickError("unbalanced '(' at end")
            if pos != n - 1:
                raise NewickError("trailing text after ';'")
            return cur
        else:
            raise NewickError("unexpected %r at %d" % (c, pos))


class Interner:
    """Unordered labelled trees -> small ints (isomorphism classes)."""

    def __init__(self):
        self.t = {}

    def key(self, name, length, kid_keys):
        k = (name, length, tuple(sorted(kid_keys)))
        if k not in self.t:
            self.t[k] = len(self.t)
        return self.t[k]

    def of_parsed(self, root):
        # iterative post-order
        out = {}
        st = [(root, False)]
        while st:
            node, done = st.pop()
            if done:
                out[id(node)] = self.key(node[0], node[1], [out[id(k)] for k in node[2]])
            else:
                st.append((node, True))
                for k in node[2]:
                    st.append((k, False))
        return out[id(root)]

    def of_expected(self, root, children, label, token):
        out = {}
        st = [(root, False)]
        while st:
            u, done = st.pop()
            if done:
                out[u] = self.key(label(u), None if u == root else token(u), [out[k] for k in children[u]])
            else:
                st.append((u, True))
                for k in children[u]:
                    st.append((k, False))
        return out[root]


# exact decimal rendering of a double at p places (round-half-even on the exact value):
# what "%.*f" is specified to produce; independent of both printf and str.format.
_CTX = decimal.Context(prec=2000, rounding=decimal.ROUND_HALF_EVEN)


def fmt_fixed(x, p):
    d = _CTX.create_decimal(decimal.Decimal(x))
    q = d.quantize(decimal.Decimal(1).scaleb(-p), context=_CTX)
    s = format(q, "f")
    if s.startswith("-") and float(s) == 0:     # printf keeps the sign of -0.0; never arises here
        pass
    return s


def children_of(parent):
    ch = [[] for _ in parent]
    for c, p in enumerate(parent):
        if p != NULL:
            ch[p].append(c)
    return ch


def subtree_nodes(children, root):
    out, st = [], [root]
    while st:
        u = st.pop()
        out.append(u)
        st.extend(children[u])
    return out


def depth_below(children, root):
    d, level = 0, [root]
    while level:
        nxt = [k for u in level for k in children[u]]
        if nxt:
            d += 1
        level = nxt
    return d


def roots_of(parent, flags):
    """Definition: a root is a parentless node with at least one sample at or below it."""
    ch = children_of(parent)
    rs = []
    for u, p in enumerate(parent):
        if p == NULL and any(flags[v] & 1 for v in subtree_nodes(ch, u)):
            rs.append(u)
    return rs


def is_int(x):
    return float(x).is_integer()


def err_obs(e):
    return {"err": type(e).__name__, "msg": str(e)[:200]}


class LLProxy:
    """Forwards to the low-level tree and records the buffer_size chosen by _as_newick_fast."""

    def __init__(self, ll):
        self._ll = ll
        self.sizes = []

    def get_newick(self, **kw):
        self.sizes.append(kw.get("buffer_size"))
        return self._ll.get_newick(**kw)

    def __getattr__(self, k):
        return getattr(self._ll, k)


def labels_arg(q, tskit):
    lab = q["labels"]
    if lab == "default":
        return None
    if lab == "ms":
        return tskit.trees.LEGACY_MS_LABELS
    return {int(k): v for k, v in lab}


def run_queries(tree, ts, q, discrete, want_arrays):
    """All implementation calls for one (tree, query).  `discrete` is the harness's own
    evaluation of "all times are integers" (the property's rule for the default precision)."""
    import tskit
    from tskit import text_formats
    obs = {}
    root, prec, ibl = q["root"], q["precision"], q["ibl"]
    proxy = LLProxy(tree._ll_tree)
    tree._ll_tree = proxy
    try:
        try:
            obs["out"] = tree.as_newick(root=root, precision=prec, node_labels=labels_arg(q, tskit),
                                        include_branch_lengths=ibl)
        except Exception as e:
            obs["out"] = err_obs(e)
        obs["bufsize"] = proxy.sizes[0] if proxy.sizes else None
        # resolved arguments by the property's rules (not by calling as_newick's own code)
        r = root
        if r is None:
            rs = list(tree.roots)
            r = rs[0] if len(rs) == 1 else None
        p = prec if prec is not None else (0 if discrete else 17)
        b = True if ibl is None else ibl
        obs["resolved_root"] = r
        obs["whole_roots"] = [int(u) for u in tree.roots]
        if r is not None:
            lab = q["labels"]
            if lab == "default":
                d = {int(u): "n%d" % u for u in ts.samples()}
            elif lab == "ms":
                d = {int(u): "%d" % (u + 1) for u in tree.nodes(r) if tree.num_children(u) == 0}
            else:
                d = {int(k): v for k, v in lab}
            try:
                obs["general"] = text_formats.build_newick(tree, root=r, precision=p, node_labels=d,
                                                           include_branch_lengths=b)
            except Exception as e:
                obs["general"] = err_obs(e)
            if b and lab in ("default", "ms"):
                try:
                    obs["fast"] = tree._as_newick_fast(root=r, precision=p, legacy_ms_labels=(lab == "ms"))
                except Exception as e:
                    obs["fast"] = err_obs(e)
                obs["fast_bufsize"] = proxy.sizes[-1] if proxy.sizes else None
            if want_arrays and p >= 0:
                nodes = [int(u) for u in tree.nodes(r)]
                obs["kids"] = [[u, [int(c) for c in tree.children(u)]] for u in nodes]
                obs["arrays"] = {
                    "lc": [int(x) for x in tree.left_child_array],
                    "rc": [int(x) for x in tree.right_child_array],
                    "ls": [int(x) for x in tree.left_sib_array],
                    "par": [int(x) for x in tree.parent_array],
                    "flags": [int(x) for x in ts.nodes_flags],
                }
                obs["root_parent"] = int(tree.parent(r))
                obs["samples"] = [int(u) for u in ts.samples()]
                obs["rs"] = [int(x) for x in tree.right_sib_array]
                obs["num_samples"] = int(ts.num_samples)
                obs["num_edges"] = int(tree.num_edges)
                # branch tokens by the implementation's own number rendering (the same format
                # call as text_formats._build_newick); opaque to the model
                obs["tokens"] = [[int(tree.parent(u)), u, "{0:.{1}f}".format(tree.branch_length(u), p)]
                                 for u in nodes if u != r]
                # len(f"{max_branch:.{precision}f}") of Tree._as_newick_fast: float rendering, trusted
                obs["W"] = len("{0:.{1}f}".format(tree.time(r) - float(ts.nodes_time.min()), p))
    finally:
        tree._ll_tree = proxy._ll
    return obs


def buffer_class(parent, flags, times, root):
    ch = children_of(parent)
    sub = subtree_nodes(ch, root)
    if min(times[u] for u in sub) < 0:
        return "negative-times"
    if times[root] <= 1 and any(ch[u] and (flags[u] & 1) for u in sub):
        return "fractional-internal-samples"
    return "other"


def judge(parent, flags, times, discrete, q, obs, need_fast_general=True):
    """The property, evaluated naively on the implementation's strings."""
    fails = []
    root = q["root"]
    ch = children_of(parent)
    if root is None:
        rs = roots_of(parent, flags)
        if len(rs) != 1:
            o = obs["out"]
            if not (isinstance(o, dict) and o["err"] == "ValueError"):
                fails.append(("newick-multiroot-accepted", "%d roots, got %r" % (len(rs), str(o)[:80])))
            return fails
        root = rs[0]
    p = q["precision"] if q["precision"] is not None else (0 if discrete else 17)
    ibl = True if q["ibl"] is None else q["ibl"]
    lab = q["labels"]
    fast_applies = ibl and lab in ("default", "ms")
    if p < 0 and ibl and (fast_applies or ch[root]):
        # not a precision: refused wherever a number would have to be rendered (ValueError)
        o = obs["out"]
        if not isinstance(o, dict):
            fails.append(("newick-args:negative-precision-accepted", "precision=%d gave %r" % (p, o[:60])))
        return fails
    if lab == "default":
        label = lambda u: ("n%d" % u) if flags[u] & 1 else ""
    elif lab == "ms":
        label = lambda u: ("%d" % (u + 1)) if not ch[u] else ""
    else:
        d = {int(k): v for k, v in lab}
        label = lambda u: d.get(u, "")
    token = (lambda u: fmt_fixed(times[parent[u]] - times[u], p)) if ibl else (lambda u: None)
    it = Interner()
    want = it.of_expected(root, ch, label, token)

    def check_string(name, o):
        if isinstance(o, dict):
            if p > 17 and o["err"] == "ValueError" and (name == "fast" or (name == "as_newick" and fast_applies)):
                return          # Tree_get_newick documents 0..17 for the C writer
            if o["err"] == "LibraryError" and "buffer" in o["msg"].lower():
                fails.append(("newick-buffer:" + buffer_class(parent, flags, times, root),
                              "%s: %s (root=%d precision=%d, %d nodes)" % (name, o["msg"], root, p, len(parent))))
            else:
                fails.append(("newick-error:%s:%s" % (name, o["err"]), o["msg"]))
            return
        try:
            got = it.of_parsed(parse_newick(o))
        except NewickError as e:
            fails.append(("newick-unparsable:" + name, "%s in %r" % (e, o[:120])))
            return
        if got != want:
            fails.append(("newick-mismatch:" + name, "parsed tree differs from the tree below root %d: %r"
                          % (root, o[:200])))

    check_string("as_newick", obs["out"])
    if "general" in obs and obs["general"] != obs["out"]:
        check_string("general", obs["general"])
    if "fast" in obs and obs["fast"] != obs["out"]:
        check_string("fast", obs["fast"])
    if "fast" in obs and "general" in obs and isinstance(obs["fast"], str) and isinstance(obs["general"], str):
        if obs["fast"] != obs["general"]:
            fails.append(("fast-vs-general", "fast %r != general %r" % (obs["fast"][:120], obs["general"][:120])))
    # de-duplicate keys (one failure per class per case)
    seen, out = set(), []
    for k, m in fails:
        if k not in seen:
            seen.add(k)
            out.append((k, m))
    return out


# ----------------------------------------------------------------------------------
# Coq term helpers
# ----------------------------------------------------------------------------------
def cstr(s):
    """bytes of an ascii string as a Coq `list Z` through C18.Model.s2z (compact)."""
    if all(32 <= ord(c) < 127 for c in s):
        return '(s2z "%s")' % s.replace('"', '""')
    return clist(list(s.encode("utf8")), cz)


def crose(u, kids):
    """RN id [children], children in tskit's order (iterative to survive deep chains)."""
    out = {}
    st = [(u, False)]
    while st:
        v, done = st.pop()
        if done:
            out[v] = "(RN %s [%s])" % (cz(v), "; ".join(out[k] for k in kids[v]))
        else:
            st.append((v, True))
            for k in kids[v]:
                st.append((k, False))
    return out[u]


def cres_str(o):
    if isinstance(o, dict):
        return "None"
    return "(Some %s)" % cstr(o)


def coq_newick_term(q, obs, discrete, N):
    if "arrays" not in obs or obs.get("resolved_root") is None:
        return None
    for k in ("general",):
        if isinstance(obs.get(k), dict):
            return None
    a = obs["arrays"]
    kids = {u: ks for u, ks in obs["kids"]}
    r = obs["resolved_root"]
    p = q["precision"] if q["precision"] is not None else (0 if discrete else 17)
    ibl = True if q["ibl"] is None else q["ibl"]
    lab = q["labels"]
    if lab == "default":
        labs = "LabDefault"
    elif lab == "ms":
        labs = "LabMs"
    else:
        labs = "(LabDict [%s])" % "; ".join("(%s, %s)" % (cz(int(k)), cstr(v)) for k, v in lab)
    toks = "[%s]" % "; ".join("((%s, %s), %s)" % (cz(pp), cz(c), cstr(t)) for pp, c, t in obs["tokens"])
    fast = "None"
    if "fast" in obs:
        f = obs["fast"]
        if isinstance(f, dict):
            if f["err"] == "ValueError" and p > 17:
                fast = "None"
            elif not (f["err"] == "LibraryError" and "buffer" in f["msg"].lower()):
                return None
            else:
                fast = "(Some (FastOverflow %s))" % cz(obs["fast_bufsize"])
        else:
            fast = "(Some (FastOk %s %s))" % (cz(obs["fast_bufsize"]), cstr(f))
    rose = crose(r, kids)
    return ("(let a := mk_ctree %s %s %s %s %s in c18_check_size_bound a %s %s && "
            "c18_check_default_dict a %s %s && c18_check_children a %s %s && "
            "c18_check_newick a %s %s %s %s %s %s %s %s %s %s %s)"
            % (clist(a["lc"]), clist(a["rc"]), clist(a["ls"]), clist(a["par"]), clist(a["flags"]),
               cz(obs["num_samples"]), cz(obs["num_edges"]),
               rose, clist(obs["samples"]), clist(obs["rs"]), rose,
               cz(N), crose(r, kids), cz(obs["root_parent"]), toks, labs, "true" if ibl else "false",
               cz(p), fast, cstr(obs["general"]), cz(obs["W"]), cout(q, obs)))


def cout(q, obs):
    """What Tree.as_newick itself returned, as a Model.out_obs."""
    o = obs["out"]
    if q["root"] is None and len(obs["whole_roots"]) != 1:
        return "OutSkip"
    if isinstance(o, str):
        return "(OutStr %s)" % cstr(o)
    if o["err"] == "LibraryError" and "buffer" in o["msg"].lower():
        return "OutOverflow"
    if o["err"] == "ValueError":
        return "OutValueError"
    return "OutSkip"


# ----------------------------------------------------------------------------------
# generators
# ----------------------------------------------------------------------------------
def shape(rng, kind, n):
    """parent array in 'rank' space: node i has rank i, parents have higher rank."""
    par = [NULL] * n
    if kind == "chain":
        for i in range(n - 1):
            par[i] = i + 1
    elif kind == "star":
        for i in range(n - 1):
            par[i] = n - 1
    elif kind == "caterpillar":          # binary comb: leaves 0..k, internals
        k = (n + 1) // 2
        m = n - k                        # internals k..n-1
        if m == 0:
            return par
        for j in range(m):
            par[k + j] = k + j + 1 if j + 1 < m else NULL
        for i in range(k):
            par[i] = k + min(max(i - 1, 0), m - 1)
    elif kind == "balanced":
        # heap-shaped: node n-1 root; children of rank r are ranks n-1-(2k+1), n-1-(2k+2), k = n-1-r
        for i in range(n - 1):
            k = n - 1 - i                # heap index of node i (root index 0)
            par[i] = n - 1 - (k - 1) // 2
    elif kind == "forest":
        for i in range(n - 1):
            par[i] = rng.randrange(i + 1, n) if rng.random() < 0.8 else NULL
    else:                                # random
        deep = rng.random() < 0.5
        for i in range(n - 1):
            if deep:
                par[i] = min(n - 1, i + 1 + int(rng.expovariate(0.8)))
            else:
                par[i] = rng.randrange(i + 1, n)
    return par


TIME_SCHEMES = ["int", "int", "bigint", "frac01", "frac", "dyadic", "neg_int", "neg_frac", "huge", "tinygap",
                "halves", "huge19",
                "pow10", "mixed"]


def make_times(rng, scheme, n):
    """strictly increasing in rank"""
    if scheme == "int":
        t, out = 0, []
        for i in range(n):
            out.append(float(t))
            t += rng.choice([1, 1, 1, 2, 9, 10])
        return out
    if scheme == "bigint":
        step = rng.choice([10 ** 3, 10 ** 6, 10 ** 9, 123456789])
        return [float(i * step) for i in range(n)]
    if scheme == "frac01":
        return [(i + rng.choice([0.5, 1.0])) / (n + 1) for i in range(n)] if n > 1 else [0.5]
    if scheme == "frac":
        t, out = rng.random(), []
        for i in range(n):
            out.append(t)
            t += rng.random() * rng.choice([0.001, 1, 100]) + 1e-9
        return out
    if scheme == "dyadic":
        return [i / 8.0 for i in range(n)]
    if scheme == "neg_int":
        off = rng.choice([n, 10 * n, 10 ** 6])
        return [float(i - off) for i in range(n - 1)] + [float(rng.choice([0, 1, 5, n]))] if n > 1 else [-3.0]
    if scheme == "neg_frac":
        return [(i - n) / 7.0 for i in range(n)]
    if scheme == "huge":
        return [float(i) * 1e300 / max(n, 1) for i in range(n)]
    if scheme == "tinygap":
        return [1.0 + i * 2.0 ** -40 for i in range(n)]
    if scheme == "pow10":
        top = rng.choice([10.0, 100.0, 1000.0, 1.0])
        return [top * i / max(n - 1, 1) for i in range(n)] if n > 1 else [top]
    if scheme == "halves":              # branch lengths that are exact ties at precision 0 (0.5, 1.5, 2.5 ...)
        t, out = 0.0, []
        for i in range(n):
            out.append(t)
            t += rng.choice([0.5, 1.5, 2.5, 3.5, 0.125, 0.375, 1.0])
        return out
    if scheme == "huge19":              # beyond 2^63 / 1e19: 20 integer digits per branch length
        base = rng.choice([1e19, 2.0 ** 64, 1.2345678901234567e19])
        return [base * i / 4.0 for i in range(n - 1)] + [base * n] if n > 1 else [base]
    if scheme == "mixed":
        return [float(i) for i in range(n - 1)] + [n - 1 + 0.5]
    raise ValueError(scheme)


def make_tree_case(rng, n, kind=None, scheme=None, p_internal=0.3, permute=True):
    kind = kind or rng.choice(["chain", "star", "caterpillar", "balanced", "random", "random", "forest"])
    scheme = scheme or rng.choice(TIME_SCHEMES)
    rpar = shape(rng, kind, n)
    rt = make_times(rng, scheme, n)
    perm = list(range(n))
    if permute and rng.random() < 0.7:
        rng.shuffle(perm)                # rank i -> node id perm[i]
    parent, times = [NULL] * n, [0.0] * n
    for i in range(n):
        parent[perm[i]] = NULL if rpar[i] == NULL else perm[rpar[i]]
        times[perm[i]] = rt[i]
    ch = children_of(parent)
    mode = rng.choice(["leaves", "leaves", "internal", "all", "sparse"])
    flags = []
    for u in range(n):
        leaf = not ch[u]
        if mode == "all":
            f = 1
        elif mode == "leaves":
            f = 1 if leaf else 0
        elif mode == "internal":
            f = 1 if leaf or rng.random() < p_internal else 0
        else:
            f = 1 if rng.random() < 0.4 else 0
        flags.append(f)
    if not any(flags):
        flags[rng.randrange(n)] = 1
    return {"n": n, "parent": parent, "flags": flags, "times": times, "kind": kind, "scheme": scheme}


LABEL_ALPHABET = "abcXYZ019_-. '[]{}|/\\#&*%\"\u00e9\u03b1"


def make_query(rng, tc, root_mode=None):
    n = tc["n"]
    root_mode = root_mode or rng.choice(["none", "none", "any", "any", "internal", "a_root", "nonroot"])
    root = None
    if root_mode == "a_root":           # [t.as_newick(root=r) for r in t.roots] on multi-root trees
        rs = roots_of(tc["parent"], tc.get("flags", [1] * n))
        root = rng.choice(rs) if rs else rng.randrange(n)
    elif root_mode == "nonroot":        # a node that has a parent (branch above it must not be printed)
        cs = [u for u in range(n) if tc["parent"][u] != NULL]
        root = rng.choice(cs) if cs else rng.randrange(n)
    elif root_mode == "any":
        root = rng.randrange(n)
    elif root_mode == "internal":
        ch = children_of(tc["parent"])
        ints = [u for u in range(n) if ch[u]]
        root = rng.choice(ints) if ints else rng.randrange(n)
    labels = rng.choice(["default", "default", "default", "ms", "dict", "dict", "default_dict"])
    if labels == "default_dict":        # the default labels given explicitly: forces the Python path
        labels = [[u, "n%d" % u] for u in range(n) if tc.get("flags", [1] * n)[u] & 1]
    elif labels == "dict":
        k = rng.choice([0, 1, n // 2, n, n])
        ids = rng.sample(range(n), min(k, n))
        if rng.random() < 0.2:
            ids.append(n + 3)            # key that is not a node
        labels = [[u, "".join(rng.choice(LABEL_ALPHABET) for _ in range(rng.randrange(0, 6)))] for u in ids]
    return {"root": root, "precision": rng.choice([None, None, 0, 3, 17, 1, 10]),
            "labels": labels, "ibl": rng.choice([None, None, True, False])}


def build_single_tree(tc):
    import tskit
    t = tskit.TableCollection(1.0)
    if tc.get("mig_times"):
        t.populations.add_row()
        t.populations.add_row()
    for f, tm in zip(tc["flags"], tc["times"]):
        t.nodes.add_row(flags=f, time=tm)
    for c, p in enumerate(tc["parent"]):
        if p != NULL:
            t.edges.add_row(0, 1, p, c)
    for k, (u, mt) in enumerate(tc.get("mut_times") or []):
        sid = t.sites.add_row(position=k / 8.0, ancestral_state="A")
        t.mutations.add_row(site=sid, node=u, derived_state="T", time=mt)
    for mt in sorted(tc.get("mig_times") or []):
        t.migrations.add_row(left=0, right=1, node=0, source=0, dest=1, time=mt)
    t.sort()
    return t.tree_sequence()


def tc_discrete(tc):
    """ts.discrete_time by its documentation: ALL node, mutation and migration times integral."""
    return (all(is_int(t) for t in tc["times"]) and all(is_int(mt) for _u, mt in tc.get("mut_times") or [])
            and all(is_int(mt) for mt in tc.get("mig_times") or []))


def add_other_times(rng, tc, fractional):
    """mutation / migration times that alone decide ts.discrete_time (round 6): strictly inside the
    branch above the node when it has a parent, so that the tables stay valid."""
    n = tc["n"]
    muts, migs = [], []
    for u in rng.sample(range(n), min(n, rng.randrange(1, 3))):
        p = tc["parent"][u]
        lo = tc["times"][u]
        hi = tc["times"][p] if p != NULL else lo + 4
        if fractional:
            mt = lo + (hi - lo) / 2 if not is_int(lo + (hi - lo) / 2) else lo + (hi - lo) / 4
            if is_int(mt) or not (lo <= mt < hi):
                continue
        else:
            mt = float(math.floor(lo) + 1)
            if not (lo <= mt < hi or (p == NULL and lo <= mt)):
                mt = lo
            if not is_int(mt):
                continue
        muts.append([u, mt])
    if rng.random() < 0.5:
        migs.append(rng.choice([0.5, 1.25, 2.75]) if fractional else float(rng.randrange(0, 5)))
    tc = dict(tc)
    which = rng.choice(["mut", "mig", "both"])
    if which in ("mut", "both") and muts:
        tc["mut_times"] = muts
    if which in ("mig", "both") or not muts:
        tc["mig_times"] = migs or ([0.5] if fractional else [1.0])
    return tc


class Newick(Family):
    name = "newick"
    prelude = "From TskVerif Require Import Base.Common C18.Model.\nOpen Scope Z_scope."
    workers = 8
    shard = 150
    timeout = 60.0
    COQ_MAX_NODES = 40

    def generate(self, rng, tier):
        quick = tier == "quick"
        # --- F5 re-derivations (fixed, minimal) -------------------------------------
        yield {"tree": {"n": 2, "parent": [1, NULL], "flags": [1, 1], "times": [-1e6, 1.0],
                        "kind": "chain", "scheme": "F5a"},
               "q": {"root": None, "precision": None, "labels": "default", "ibl": None}}
        n = 100
        yield {"tree": {"n": n, "parent": [i + 1 for i in range(n - 1)] + [NULL], "flags": [1] * n,
                        "times": [(i + 1) / (n + 1) for i in range(n)], "kind": "chain", "scheme": "F5b"},
               "q": {"root": None, "precision": None, "labels": "default", "ibl": None}}
        n = 8
        yield {"tree": {"n": n, "parent": [i + 1 for i in range(n - 1)] + [NULL], "flags": [1] * n,
                        "times": [i / 8.0 for i in range(n)], "kind": "chain", "scheme": "F5c"},
               "q": {"root": None, "precision": 3, "labels": "default", "ibl": None}}
        # --- exhaustive small scope: every forest with parent id > child id, n <= 4 ----
        top = 4 if quick else 5
        for n in range(1, top + 1):
            def forests(i):
                if i == n:
                    yield []
                    return
                for p in [NULL] + list(range(i + 1, n)):
                    for rest in forests(i + 1):
                        yield [p] + rest
            for parent in forests(0):
                for fmask in ([(1 << n) - 1, 1, rng.randrange(1, 1 << n)] if quick else
                              [(1 << n) - 1, 1] + [rng.randrange(1, 1 << n) for _ in range(3)]):
                    flags = [(fmask >> i) & 1 for i in range(n)]
                    tc = {"n": n, "parent": parent, "flags": flags, "times": [float(i) for i in range(n)],
                          "kind": "exh", "scheme": "int"}
                    for root in [None] + list(range(n)):
                        q = make_query(rng, tc)
                        q["root"] = root
                        yield {"tree": tc, "q": q}
        # --- random structured -------------------------------------------------------
        for _ in range(1500 if quick else 12000):
            n = rng.choice([1, 2, 3, 5, 8, 9, 10, 11, 12, 20, 33]) if rng.random() < 0.8 else rng.randrange(1, 60)
            tc = make_tree_case(rng, n)
            q = make_query(rng, tc)
            if rng.random() < 0.04:
                q["precision"] = rng.choice([18, 25, -1, -3])
            yield {"tree": tc, "q": q}
        # --- the default precision (precision=None): 0 iff ALL node, mutation and migration times
        # are integers; trees whose discrete_time is decided by mutation / migration times alone,
        # on both paths (default labels = fast path; the same labels as a dictionary, or no branch
        # lengths / ms / other dictionaries = Python path)
        for k in range(240 if quick else 2400):
            n = rng.choice([2, 3, 5, 8])
            tc = make_tree_case(rng, n, scheme=rng.choice(["int", "int", "int", "dyadic", "frac"]))
            if rng.random() < 0.9:
                tc = add_other_times(rng, tc, fractional=rng.random() < 0.7)
            q = make_query(rng, tc)
            q["precision"] = None
            if k % 2 == 0:
                q["ibl"] = rng.choice([None, True])
                q["labels"] = [[u, "n%d" % u] for u in range(n) if tc["flags"][u] & 1] if k % 4 == 0 else "default"
            yield {"tree": tc, "q": q}
        # --- every option combination on both paths, for a few trees (round-5 class 2) ---------
        for tc in ([make_tree_case(rng, 4, kind="random", scheme="int"),
                    make_tree_case(rng, 5, kind="caterpillar", scheme="frac")] if quick else
                   [make_tree_case(rng, rng.choice([3, 4, 5, 6]), scheme=rng.choice(["int", "frac", "neg_int"]))
                    for _ in range(10)]):
            n = tc["n"]
            some = sorted(rng.sample(range(n), max(1, n // 2)))
            label_sets = ["default", "ms", [], [[u, "L{%d}%%s\"\u00e9" % u] for u in some],
                          [[u, "x%d" % u] for u in range(n)]]
            for labels in label_sets:
                for ibl in (None, True, False):
                    for prec in (None, 0, 3, 17):
                        for root in [None] + list(range(n)):
                            yield {"tree": tc, "q": {"root": root, "precision": prec, "labels": labels, "ibl": ibl}}
        # --- buffer-size boundaries (round-5 class 11): label and branch-length digit counts at
        # powers of ten, every precision 0..17; all-sample stars and chains are the worst cases
        bvals = [9.0, 10.0, 11.0, 99.0, 100.0, 101.0, 999.0, 1000.0, 9.5, 99.5, 999.5, 0.5, 1.0, 1e15, 1e15 + 2,
                 9.999, 99.9999, 1e-9, 123456789.125]
        for k in range(160 if quick else 1600):
            n = rng.choice([2, 3, 9, 10, 11, 12])
            top = rng.choice(bvals)
            kind = rng.choice(["star", "chain"])
            parent = ([n - 1] * (n - 1) + [NULL]) if kind == "star" else ([i + 1 for i in range(n - 1)] + [NULL])
            if kind == "star":
                times = [0.0] * (n - 1) + [top]
            else:
                times = [top * i / (n - 1) for i in range(n)]
                if len(set(times)) < n:
                    continue
            if rng.random() < 0.3:
                times = [t - top for t in times]            # all times <= 0
            tc = {"n": n, "parent": parent, "flags": [1] * n, "times": times, "kind": kind, "scheme": "digits"}
            yield {"tree": tc, "q": {"root": rng.choice([None, None, n - 1]), "precision": k % 18,
                                     "labels": rng.choice(["default", "default", "ms"]), "ibl": None}}
        # --- sizes up to 2000: chains, stars, random x schemes -----------------------
        sizes = [99, 100, 101, 500, 999, 1000, 1001, 2000] if quick else [99, 100, 101, 250, 500, 999, 1000, 1001, 1500, 2000]
        for n in sizes:
            for kind in ["chain", "star", "random", "balanced"]:
                for _ in range(1 if quick else 4):
                    tc = make_tree_case(rng, n, kind=kind)
                    yield {"tree": tc, "q": make_query(rng, tc)}

    def observe(self, case):
        tc, q = case["tree"], case["q"]
        ts = build_single_tree(tc)
        tree = ts.first()
        discrete = tc_discrete(tc)
        return run_queries(tree, ts, q, discrete, want_arrays=tc["n"] <= self.COQ_MAX_NODES)

    def oracle(self, case, obs):
        tc, q = case["tree"], case["q"]
        discrete = tc_discrete(tc)
        return judge(tc["parent"], tc["flags"], tc["times"], discrete, q, obs)

    def coq_check(self, case, obs):
        tc, q = case["tree"], case["q"]
        discrete = tc_discrete(tc)
        return coq_newick_term(q, obs, discrete, tc["n"])

    def nontrivial(self, case, obs):
        return case["tree"]["n"] >= 3 and isinstance(obs.get("out"), str)

    def describe(self, case, obs):
        tc, q = case["tree"], case["q"]
        n = tc["n"]
        return {"nodes": "1-4" if n <= 4 else "5-20" if n <= 20 else "21-100" if n <= 100 else "101-2000",
                "kind": tc["kind"], "times": tc["scheme"],
                "discrete_time": ("%s/nodes-int=%s" % (tc_discrete(tc), all(is_int(t) for t in tc["times"]))),
                "labels": q["labels"] if isinstance(q["labels"], str) else "dict",
                "precision": q["precision"], "ibl": q["ibl"],
                "root": "None" if q["root"] is None else "given",
                "result": "str" if isinstance(obs.get("out"), str) else obs["out"]["err"]}

    def shrink(self, case):
        tc, q = case["tree"], case["q"]
        n = tc["n"]
        ch = children_of(tc["parent"])
        # drop a leaf that is not the requested root
        for u in range(n - 1, -1, -1):
            if not ch[u] and u != q["root"] and n > 1:
                keep = [v for v in range(n) if v != u]
                m = {v: i for i, v in enumerate(keep)}
                t2 = dict(tc, n=n - 1,
                          parent=[NULL if tc["parent"][v] == NULL else m[tc["parent"][v]] for v in keep],
                          flags=[tc["flags"][v] for v in keep], times=[tc["times"][v] for v in keep])
                if tc.get("mut_times"):
                    t2["mut_times"] = [[m[w], mt] for w, mt in tc["mut_times"] if w in m]
                q2 = dict(q, root=None if q["root"] is None else m[q["root"]])
                if isinstance(q["labels"], list):
                    q2["labels"] = [[m[k], s] for k, s in q["labels"] if k in m]
                yield {"tree": t2, "q": q2}
        if isinstance(q["labels"], list) and q["labels"]:
            yield {"tree": tc, "q": dict(q, labels=q["labels"][:-1])}


# ----------------------------------------------------------------------------------
# multi-tree sequences
# ----------------------------------------------------------------------------------
TMAPS = {"id": lambda t: t, "eighth": lambda t: t / 8 + 1 / 3, "mega": lambda t: t * 1e6,
         "neg": lambda t: t - 5, "milli": lambda t: t * 0.001,
         # strictly increasing, root times of different trees / subtrees differ by many digits
         "exp": lambda t: 10.0 ** min(t, 15) + max(t - 15, 0) * 1e15,
         "exp3": lambda t: 1000.0 ** min(t, 5) - 1 + max(t - 5, 0) * 1e15}


def connected_desc(rng, max_nodes=9, max_L=6, scale=None, p_gap=0.0, sites=False):
    """gen_ts-format description in which every tree is one connected tree below the single
    oldest node (unless p_gap lets a segment be empty).  Distinct integer times; ids permuted."""
    n = rng.randrange(2, max_nodes + 1)
    L = rng.randrange(1, max_L + 1)
    perm = list(range(n))
    rng.shuffle(perm)
    times = [0] * n
    for rank in range(n):
        times[perm[rank]] = rank
    nb = rng.randrange(0, min(L, 4))
    bps = [0] + sorted(rng.sample(range(1, L), nb)) + [L] if L > 1 else [0, L]
    segs = list(zip(bps[:-1], bps[1:]))
    top = perm[n - 1]

    def attach(u):
        older = [v for v in range(n) if times[v] > times[u]]
        older.sort(key=lambda v: times[v])
        return older[min(int(rng.expovariate(0.6)), len(older) - 1)]

    parent = [NULL if u == top else attach(u) for u in range(n)]
    forests = []
    for k in range(len(segs)):
        if k > 0:
            parent = list(parent)
            for _ in range(rng.randrange(1, 3)):
                u = rng.randrange(n)
                if u != top:
                    parent[u] = attach(u)
        forests.append([NULL] * n if rng.random() < p_gap else list(parent))
    edges = []
    for u in range(n):
        k = 0
        while k < len(segs):
            p = forests[k][u]
            if p == NULL:
                k += 1
                continue
            j = k
            while j + 1 < len(segs) and forests[j + 1][u] == p:
                j += 1
            edges.append([segs[k][0], segs[j][1], p, u, ""])
            k = j + 1
    rng.shuffle(edges)
    ch0 = children_of(forests[0])
    nodes = []
    for u in range(n):
        leafish = all(not children_of(f)[u] for f in forests)
        s = 1 if (leafish or rng.random() < 0.25) else 0
        nodes.append([s, times[u], NULL, NULL, ""])
    # every leaf of every tree must be a sample for single-rootedness with no dead twigs? not
    # needed: dead twigs are fine, the root (top) always has a sample below it if any leaf of
    # that tree is a sample; force it:
    for f in forests:
        ch = children_of(f)
        if any(x != NULL for x in f) and not any(nodes[v][0] for v in subtree_nodes(ch, top)):
            nodes[top][0] = 1
    site_rows, muts = [], []
    if sites:
        ns = rng.randrange(0, min(L, 4) + 1)
        for s, pos in enumerate(sorted(rng.sample(range(L), ns))):
            site_rows.append([pos, rng.choice("ACGT"), ""])
            k = max(i for i, (a, b) in enumerate(segs) if a <= pos)
            par = forests[k]
            ms = sorted((rng.randrange(n) for _ in range(rng.randrange(0, 4))), key=lambda u: -times[u])
            last_on, base = {}, len(muts)
            for idx, u in enumerate(ms):
                v, mp = u, NULL
                while v != NULL:
                    if v in last_on:
                        mp = last_on[v]
                        break
                    v = par[v]
                muts.append([s, u, rng.choice("ACGT"), mp, None, ""])
                last_on[u] = base + idx
    return {"L": L, "scale": scale if scale is not None else rng.choice([1, 1, 2, 0.5, 2.5]),
            "nodes": nodes, "edges": edges, "sites": site_rows, "mutations": muts,
            "individuals": [], "populations": [], "migrations": []}


def apply_tmap(desc, name):
    f = TMAPS[name]
    d = dict(desc)
    d["nodes"] = [[fl, f(t), p, i, m] for fl, t, p, i, m in desc["nodes"]]
    d["mutations"] = [[s, u, ds, mp, None if t is None else f(t), m] for s, u, ds, mp, t, m in desc["mutations"]]
    return d


def desc_discrete_time(desc):
    return all(is_int(r[1]) for r in desc["nodes"]) and all(r[4] is None or is_int(r[4]) for r in desc["mutations"])


class NewickTs(Family):
    name = "newick_ts"
    prelude = Newick.prelude
    workers = 8
    shard = 150

    def generate(self, rng, tier):
        for _ in range(500 if tier == "quick" else 8000):
            if rng.random() < 0.5:
                desc = connected_desc(rng, p_gap=0.1)
            else:
                desc = gen_ts.random_desc(rng, max_nodes=9, individuals=False, populations=False,
                                          metadata=False, alleles=("A", "C", "G", "T"))
                if not desc["nodes"]:
                    continue
                desc, _pi = gen_ts.permute_node_ids(rng, desc)      # ids not in time order
            desc = apply_tmap(desc, rng.choice(list(TMAPS)))
            bps = gen_ts.breakpoints(desc)
            x = rng.choice(bps[:-1])
            n = len(desc["nodes"])
            tc = {"n": n, "parent": gen_ts.parent_at(desc, x), "flags": [r[0] for r in desc["nodes"]]}
            q = make_query(rng, tc)
            yield {"desc": desc, "x": x, "q": q}

    def _tree(self, case):
        desc = case["desc"]
        ts = gen_ts.build_tables(desc).tree_sequence()
        tree = ts.at(case["x"] * desc["scale"])
        return ts, tree

    def observe(self, case):
        ts, tree = self._tree(case)
        return run_queries(tree, ts, case["q"], desc_discrete_time(case["desc"]), want_arrays=True)

    def _ptf(self, case):
        desc = case["desc"]
        return (gen_ts.parent_at(desc, case["x"]), [r[0] for r in desc["nodes"]], [float(r[1]) for r in desc["nodes"]])

    def oracle(self, case, obs):
        parent, flags, times = self._ptf(case)
        return judge(parent, flags, times, desc_discrete_time(case["desc"]), case["q"], obs)

    def coq_check(self, case, obs):
        return coq_newick_term(case["q"], obs, desc_discrete_time(case["desc"]), len(case["desc"]["nodes"]))

    def nontrivial(self, case, obs):
        return isinstance(obs.get("out"), str) and len(obs["out"]) > 6

    def describe(self, case, obs):
        q = case["q"]
        return {"labels": q["labels"] if isinstance(q["labels"], str) else "dict",
                "trees": min(len(gen_ts.breakpoints(case["desc"])) - 1, 4),
                "result": "str" if isinstance(obs.get("out"), str) else obs["out"]["err"]}


# ----------------------------------------------------------------------------------
# nexus / fasta
# ----------------------------------------------------------------------------------
def transport_failures(desc, opts, seqs, default_mdc, prefix):
    """reference_sequence / missing_data_character must reach the output: every position that is
    not a site carries the reference base (or the missing-data character when no reference is
    given), whatever alignments() does at the sites (C03)."""
    s = desc["scale"]
    L = int(desc["L"] * s)
    sites = {int(r[0] * s) for r in desc["sites"]}
    ref = opts.get("reference_sequence")
    mdc = opts.get("missing_data_character")
    mdc = default_mdc if mdc is None else mdc
    want = [(ref[j] if ref is not None else mdc) for j in range(L)]
    for a in seqs:
        if len(a) != L:
            return [(prefix + "-length", "sequence of length %d for L=%d" % (len(a), L))]
        for j in range(L):
            if j not in sites and a[j] != want[j]:
                return [(prefix + "-reference-transport", "position %d is %r, reference/missing char is %r" % (j, a[j], want[j]))]
    return []


def coord(desc, x):
    """genome coordinate of lattice point x: desc["cmap"][x] when an explicit (strictly increasing,
    arbitrary float) coordinate map is given, x * scale otherwise."""
    cm = desc.get("cmap")
    return cm[x] if cm else x * desc["scale"]


def build_ts(desc):
    """gen_ts.build_tables, with the lattice mapped through desc["cmap"] when present (non-dyadic
    fractional breakpoints: 0.1 k, k/3, 1e9 + 0.1 k, random fractions; no sites in that case)."""
    cm = desc.get("cmap")
    if not cm:
        return gen_ts.build_tables(desc).tree_sequence()
    import numpy as np
    tc = gen_ts.build_tables(dict(desc, scale=1), sort=False, index=False)
    left = np.array([cm[int(x)] for x in tc.edges.left])
    right = np.array([cm[int(x)] for x in tc.edges.right])
    tc.sequence_length = cm[desc["L"]]
    tc.edges.set_columns(left=left, right=right, parent=tc.edges.parent, child=tc.edges.child,
                         metadata=tc.edges.metadata, metadata_offset=tc.edges.metadata_offset)
    tc.sort()
    tc.build_index()
    return tc.tree_sequence()


def make_cmap(rng, L):
    kind = rng.choice(["tenths", "thirds", "fractions", "unit", "giga", "sevenths"])
    if kind == "tenths":
        cm = [0.1 * k for k in range(L + 1)]
    elif kind == "thirds":
        cm = [k / 3 for k in range(L + 1)]
    elif kind == "sevenths":
        cm = [k * 0.7 for k in range(L + 1)]
    elif kind == "giga":
        cm = [0.0] + [1e9 + 0.1 * k for k in range(1, L + 1)]
    elif kind == "unit":                 # breakpoints inside (0, 1), sequence length exactly 1
        cm = [0.0] + sorted(round(rng.uniform(0.05, 0.95), rng.choice([1, 2, 3])) for _ in range(L - 1)) + [1.0]
    else:
        cm, x = [0.0], 0.0
        for _ in range(L):
            x += rng.choice([0.1, 0.2, 0.3, 0.7, 1.1, 1 / 3, 2 / 3, rng.random() + 0.01])
            cm.append(x)
    ok = all(b > a for a, b in zip(cm, cm[1:]))
    return cm if ok else [0.1 * k for k in range(L + 1)]


def has_isolated_sample(desc):
    bps = gen_ts.breakpoints(desc)
    flags = [r[0] for r in desc["nodes"]]
    for x in bps[:-1]:
        par = gen_ts.parent_at(desc, x)
        ch = children_of(par)
        for u, f in enumerate(flags):
            if f & 1 and par[u] == NULL and not ch[u]:
                return True
    return False


def discrete_genome(desc):
    """ts.discrete_genome: every coordinate that occurs (sequence length, edge ends, site positions,
    migration ends) is an integer -- lattice points no edge ends at do not occur."""
    vals = [coord(desc, desc["L"])] + [coord(desc, e[0]) for e in desc["edges"]] + \
           [coord(desc, e[1]) for e in desc["edges"]] + [r[0] * desc["scale"] for r in desc["sites"]]
    return all(is_int(v) for v in vals)


class Nexus(Family):
    name = "nexus"
    prelude = Newick.prelude
    workers = 8
    shard = 100

    def generate(self, rng, tier):
        for _ in range(400 if tier == "quick" else 5000):
            r = rng.random()
            if r < 0.75:
                desc = connected_desc(rng, p_gap=0.05 if rng.random() < 0.3 else 0.0, sites=True,
                                      scale=rng.choice([1, 1, 1, 2, 0.5, 2.5]))
            else:
                desc = gen_ts.random_desc(rng, max_nodes=8, individuals=False, populations=False,
                                          metadata=False, alleles=("A", "C", "G", "T"), unknown_times=True)
                desc["sites"], desc["mutations"] = [], []
                desc, _pi = gen_ts.permute_node_ids(rng, desc)
            desc = apply_tmap(desc, rng.choice(["id", "id", "eighth", "mega", "neg", "exp", "exp3"]))
            L = desc["L"] * desc["scale"]
            opts = {"precision": rng.choice([None, None, 0, 3, 17]),
                    "include_trees": rng.choice([None, None, True, False]),
                    "include_alignments": rng.choice([None, None, True, False]),
                    "reference_sequence": None, "missing_data_character": rng.choice([None, None, "N", "-", "?"])}
            if is_int(L) and rng.random() < 0.4:
                opts["reference_sequence"] = "".join(rng.choice("ACGT") for _ in range(int(L)))
            yield {"desc": desc, "opts": opts}
        # --- genome coordinates beyond the 32-bit integer ranges (the model's coordinates are
        # unbounded Z: these cases guard the integer widths of the implementation).  Discrete
        # genomes with breakpoints / sequence_length >= 2^31 and >= 2^32, and non-discrete ones
        # with large coordinates, at several precisions; no sites, no alignments (L is huge).
        big_scales = [2 ** 29, 2 ** 30, 2 ** 31, 2 ** 32, 10 ** 9, 3 * 10 ** 9, 1234567891, 2 ** 31 - 1,
                      2.0 ** 31 + 0.5, 1e9 / 3, 2.0 ** 33 + 0.25, 1e12 + 0.125]
        for k in range(90 if tier == "quick" else 900):
            scale = big_scales[k % len(big_scales)]
            desc = connected_desc(rng, max_L=rng.choice([2, 3, 6]), p_gap=0.0, sites=False, scale=scale)
            desc = apply_tmap(desc, rng.choice(["id", "id", "eighth"]))
            opts = {"precision": rng.choice([None, None, 0, 1, 3, 17]),
                    "include_trees": rng.choice([None, None, True]),
                    "include_alignments": rng.choice([None, False]),
                    "reference_sequence": None, "missing_data_character": None}
            yield {"desc": desc, "opts": opts}

        # --- non-dyadic fractional coordinates (round 6): breakpoints such as 0.2 / 0.9 on a
        # genome of length 1, multiples of 0.1, 1/3, 0.7, 1e9 + 0.1 k: sums and differences of
        # these are NOT exact in doubles, so names must come from the breakpoints themselves
        for k in range(120 if tier == "quick" else 1200):
            desc = connected_desc(rng, max_L=rng.choice([3, 4, 6]), p_gap=0.0, sites=False, scale=1)
            desc["cmap"] = make_cmap(rng, desc["L"])
            desc = apply_tmap(desc, rng.choice(["id", "id", "eighth"]))
            opts = {"precision": rng.choice([None, None, None, 17, 16, 3, 0]),
                    "include_trees": rng.choice([None, None, True]),
                    "include_alignments": rng.choice([None, None, False]),
                    "reference_sequence": None, "missing_data_character": None}
            yield {"desc": desc, "opts": opts}

    def observe(self, case):
        desc, opts = case["desc"], case["opts"]
        ts = build_ts(desc)
        obs = {"samples": [int(u) for u in ts.samples()], "num_trees": ts.num_trees}
        if coord(desc, desc["L"]) > 10 ** 6:
            obs["alignments"] = {"err": "NotObserved", "msg": "sequence too long to materialise"}
        try:
            obs["text"] = ts.as_nexus(**opts)
        except Exception as e:
            obs["text"] = err_obs(e)
        fd, path = tempfile.mkstemp(suffix=".nex", dir=os.environ.get("VERIF_TMP", None))
        os.close(fd)
        try:
            ts.write_nexus(path, **opts)
            obs["file"] = open(path).read()
        except Exception as e:
            obs["file"] = err_obs(e)
        finally:
            os.unlink(path)
        try:
            mdc = "?" if opts["missing_data_character"] is None else opts["missing_data_character"]
            if "alignments" in obs:
                return obs
            obs["alignments"] = list(ts.alignments(reference_sequence=opts["reference_sequence"],
                                                   missing_data_character=mdc))
        except Exception as e:
            obs["alignments"] = err_obs(e)
        return obs

    def oracle(self, case, obs):
        desc, opts = case["desc"], case["opts"]
        fails = []
        flags = [r[0] for r in desc["nodes"]]
        times = [float(r[1]) for r in desc["nodes"]]
        samples = [u for u, f in enumerate(flags) if f & 1]
        bps = gen_ts.breakpoints(desc)
        s = desc["scale"]
        dg = discrete_genome(desc)
        inc_trees = True if opts["include_trees"] is None else opts["include_trees"]
        inc_al = opts["include_alignments"]
        if inc_al is None:
            inc_al = dg and len(desc["sites"]) > 0
        multi = any(len(roots_of(gen_ts.parent_at(desc, x), flags)) != 1 for x in bps[:-1])
        al = obs["alignments"]
        # alignments() is a generator consumed through zip(ts.samples(), ...): with no samples it
        # is never started, so its ValueError cannot surface
        expect_err = (inc_trees and multi) or (inc_al and isinstance(al, dict) and bool(samples))
        text = obs["text"]
        if obs["file"] != text and not (isinstance(text, dict) and isinstance(obs["file"], dict)
                                        and text["err"] == obs["file"]["err"]):
            fails.append(("nexus-file-vs-string", "write_nexus(path) and as_nexus differ"))
        if isinstance(text, dict):
            if text["err"] == "LibraryError" and "buffer" in text["msg"].lower():
                # as_newick of one of the trees overflowed its buffer estimate (F5): classify by
                # the worst tree of the sequence
                classes = set()
                for x in bps[:-1]:
                    par = gen_ts.parent_at(desc, x)
                    for r in roots_of(par, flags):
                        classes.add(buffer_class(par, flags, times, r))
                cls = ("negative-times" if "negative-times" in classes else
                       "fractional-internal-samples" if "fractional-internal-samples" in classes else "other")
                fails.append(("nexus-newick-buffer:" + cls, text["msg"]))
            elif not expect_err or text["err"] != "ValueError":
                fails.append(("nexus-error:" + text["err"], text["msg"]))
            return fails
        if expect_err:
            fails.append(("nexus-accepted", "multi-root tree or undefined alignments but no error"))
            return fails
        lines = text.split("\n")
        if lines[-1] != "":
            fails.append(("nexus-structure", "no trailing newline"))
        lines = lines[:-1]
        # own reader: blocks
        if not lines or lines[0] != "#NEXUS":
            return fails + [("nexus-structure", "missing #NEXUS")]
        blocks, cur = [], None
        for ln in lines[1:]:
            st = ln.strip()
            if st.upper().startswith("BEGIN "):
                cur = [st[6:].rstrip(";").strip().upper(), []]
            elif st.upper() == "END;":
                if cur is None:
                    return fails + [("nexus-structure", "END without BEGIN")]
                blocks.append(cur)
                cur = None
            elif cur is None:
                return fails + [("nexus-structure", "text outside a block: %r" % ln)]
            else:
                cur[1].append(st)
        if cur is not None:
            return fails + [("nexus-structure", "unterminated block")]
        want_blocks = ["TAXA"] + (["DATA"] if inc_al else []) + (["TREES"] if inc_trees else [])
        if [b[0] for b in blocks] != want_blocks:
            return fails + [("nexus-structure", "blocks %r, wanted %r" % ([b[0] for b in blocks], want_blocks))]
        bd = dict((b[0], b[1]) for b in blocks)
        taxa = bd["TAXA"]
        if taxa != ["DIMENSIONS NTAX=%d;" % len(samples),
                    ("TAXLABELS " + " ".join("n%d" % u for u in samples)).rstrip() + ";"
                    if samples else "TAXLABELS ;"]:
            fails.append(("nexus-taxa", "TAXA block %r for samples %r" % (taxa, samples)))
        if inc_al:
            mdc = "?" if opts["missing_data_character"] is None else opts["missing_data_character"]
            want = ["DIMENSIONS NCHAR=%d;" % int(coord(desc, desc["L"])), "FORMAT DATATYPE=DNA MISSING=%s;" % mdc, "MATRIX"] + \
                   ["n%d %s" % (u, a) for u, a in zip(samples, al if samples else [])] + [";"]
            if bd["DATA"] != want:
                fails.append(("nexus-data", "DATA block %r, wanted %r" % (bd["DATA"][:6], want[:6])))
            rows = [ln.split(" ", 1)[1] for ln in bd["DATA"][3:-1] if " " in ln]
            fails += transport_failures(desc, opts, rows, "?", "nexus")
        if inc_trees:
            prec = opts["precision"]
            pp = prec if prec is not None else (0 if dg else 17)
            tl = bd["TREES"]
            if len(tl) != len(bps) - 1:
                fails.append(("nexus-tree-count", "%d TREE statements for %d marginal trees" % (len(tl), len(bps) - 1)))
                return fails
            discrete = desc_discrete_time(desc)
            for k, ln in enumerate(tl):
                name = "t%s^%s" % (fmt_fixed(coord(desc, bps[k]), pp), fmt_fixed(coord(desc, bps[k + 1]), pp))
                pre = "TREE %s = [&R] " % name
                if not ln.startswith(pre):
                    fails.append(("nexus-tree-name", "tree %d: %r does not start with %r" % (k, ln[:60], pre)))
                    continue
                nw = ln[len(pre):]
                par = gen_ts.parent_at(desc, bps[k])
                q = {"root": None, "precision": prec, "labels": "default", "ibl": None}
                for key, msg in judge(par, flags, times, discrete, q, {"out": nw}):
                    fails.append(("nexus-" + key, "tree %d: %s" % (k, msg)))
        seen, out = set(), []
        for k, m in fails:
            if k not in seen:
                seen.add(k)
                out.append((k, m))
        return out

    def coq_check(self, case, obs):
        text = obs["text"]
        if isinstance(text, dict) or len(text) > 3000 or not all(32 <= ord(c) < 127 or c == "\n" for c in text):
            return None
        desc, opts = case["desc"], case["opts"]
        lines = text.split("\n")[:-1]
        dg = discrete_genome(desc)
        inc_trees = True if opts["include_trees"] is None else opts["include_trees"]
        inc_al = opts["include_alignments"]
        if inc_al is None:
            inc_al = dg and len(desc["sites"]) > 0
        mdc = "?" if opts["missing_data_character"] is None else opts["missing_data_character"]
        # inputs of the line model come from the implementation's own pieces: the TREE
        # statements' names/newicks are re-split from the text by the MODEL's reader and
        # compared with what the harness computed independently (names) -- here we only ask
        # that model writer(lines data) = text and model reader(text) = data.
        bps = gen_ts.breakpoints(desc)
        s = desc["scale"]
        prec = opts["precision"]
        pp = prec if prec is not None else (0 if dg else 17)
        trees = "[]"
        if inc_trees:
            tl = [ln for ln in lines if ln.startswith("  TREE ")]
            if len(tl) != len(bps) - 1:
                return None
            # names: the model pairs up the breakpoint tokens (each breakpoint formatted once)
            toks = "[%s]" % "; ".join(cstr(fmt_fixed(coord(desc, b), pp)) for b in bps)
            nws = "[%s]" % "; ".join(cstr(ln.split(" = [&R] ", 1)[1]) for ln in tl)
            trees = "(combine (intervals_of %s) %s)" % (toks, nws)
        al = obs["alignments"] if inc_al else []
        return ("c18_check_nexus %s %s %s %s %s %s %s %s"
                % (clist(obs["samples"]), "true" if inc_al else "false", cz(int(coord(desc, desc["L"]))) if inc_al else cz(0),
                   cstr(mdc), "[%s]" % "; ".join(cstr(a) for a in al), "true" if inc_trees else "false",
                   trees, "[%s]" % "; ".join(cstr(l) for l in lines)))

    def nontrivial(self, case, obs):
        return isinstance(obs["text"], str) and "TREE " in obs["text"]

    def describe(self, case, obs):
        return {"result": "str" if isinstance(obs["text"], str) else obs["text"]["err"],
                "data_block": isinstance(obs["text"], str) and "BEGIN DATA" in obs["text"],
                "max_coordinate": (lambda L: "<2^31" if L < 2 ** 31 else "<2^32" if L < 2 ** 32 else ">=2^32")(
                    coord(case["desc"], case["desc"]["L"])),
                "coordinates": "cmap" if case["desc"].get("cmap") else "scale=%s" % case["desc"]["scale"],
                "trees": min(obs["num_trees"], 4)}


class Fasta(Family):
    name = "fasta"
    prelude = Newick.prelude
    workers = 8
    shard = 150

    def generate(self, rng, tier):
        for _ in range(400 if tier == "quick" else 5000):
            desc = connected_desc(rng, max_L=rng.choice([3, 6, 12, 30]), p_gap=0.03 if rng.random() < 0.3 else 0.0,
                                  sites=True, scale=rng.choice([1, 1, 1, 2, 3, 0.5]))
            L = desc["L"] * desc["scale"]
            w = rng.choice([0, 1, 2, 3, 5, 60, None, int(L) if is_int(L) else 7, int(L) + 1, max(int(L) - 1, 1)])
            if rng.random() < 0.05:
                w = rng.choice([-1, 2.5, -3])
            opts = {"reference_sequence": None, "missing_data_character": rng.choice([None, None, "N", "-", "?"])}
            if w is not None:
                opts["wrap_width"] = w
            if is_int(L) and rng.random() < 0.5:
                opts["reference_sequence"] = "".join(rng.choice("ACGTacgt") for _ in range(int(L)))
            yield {"desc": desc, "opts": opts}

    def observe(self, case):
        desc, opts = case["desc"], case["opts"]
        ts = gen_ts.build_tables(desc).tree_sequence()
        obs = {"samples": [int(u) for u in ts.samples()]}
        try:
            obs["text"] = ts.as_fasta(**opts)
        except Exception as e:
            obs["text"] = err_obs(e)
        fd, path = tempfile.mkstemp(suffix=".fa")
        os.close(fd)
        try:
            ts.write_fasta(path, **opts)
            obs["file"] = open(path).read()
        except Exception as e:
            obs["file"] = err_obs(e)
        finally:
            os.unlink(path)
        try:
            obs["alignments"] = list(ts.alignments(reference_sequence=opts["reference_sequence"],
                                                   missing_data_character=opts["missing_data_character"]))
            # the per-site characters (C03) the model's alignments() fill starts from
            mdc = "N" if opts["missing_data_character"] is None else opts["missing_data_character"]
            obs["haplotypes"] = list(ts.haplotypes(missing_data_character=mdc))
            obs["site_pos"] = [int(p) for p in ts.sites_position]
            obs["L"] = int(ts.sequence_length)
        except Exception as e:
            obs["alignments"] = err_obs(e)
        return obs

    def oracle(self, case, obs):
        desc, opts = case["desc"], case["opts"]
        fails = []
        w = opts.get("wrap_width", 60)
        bad_w = w < 0 or int(w) != w
        text, al = obs["text"], obs["alignments"]
        if obs["file"] != text and not (isinstance(text, dict) and isinstance(obs["file"], dict)
                                        and text["err"] == obs["file"]["err"]):
            fails.append(("fasta-file-vs-string", "write_fasta(path) and as_fasta differ"))
        if isinstance(text, dict):
            if not ((bad_w or isinstance(al, dict)) and text["err"] == "ValueError"):
                fails.append(("fasta-error:" + text["err"], text["msg"]))
            return fails
        if bad_w or isinstance(al, dict):
            return [("fasta-accepted", "bad wrap_width or undefined alignments but no error")]
        samples = [u for u, r in enumerate(desc["nodes"]) if r[0] & 1]
        w = int(w)
        lines = text.split("\n")
        if lines[-1] != "":
            fails.append(("fasta-structure", "no trailing newline"))
        lines = lines[:-1]
        # own reader: records start at '>' lines
        recs = []
        for ln in lines:
            if ln.startswith(">"):
                recs.append([ln[1:], []])
            elif not recs:
                return [("fasta-structure", "sequence line before the first header")]
            else:
                recs[-1][1].append(ln)
        if [r[0] for r in recs] != ["n%d" % u for u in samples]:
            fails.append(("fasta-headers", "%r for samples %r" % ([r[0] for r in recs], samples)))
            return fails
        fails += transport_failures(desc, case["opts"], ["".join(ls) for _h, ls in recs], "N", "fasta")
        for (h, ls), a in zip(recs, al):
            if "".join(ls) != a:
                fails.append(("fasta-sequence", "%s: lines concatenate to %r, alignment is %r" % (h, "".join(ls)[:40], a[:40])))
            if w == 0:
                if len(ls) != 1:
                    fails.append(("fasta-wrap", "%s: wrap_width=0 gave %d lines" % (h, len(ls))))
            else:
                if any(len(x) != w for x in ls[:-1]) or not ls or not (1 <= len(ls[-1]) <= w):
                    fails.append(("fasta-wrap", "%s: line lengths %r at width %d" % (h, [len(x) for x in ls], w)))
        seen, out = set(), []
        for k, m in fails:
            if k not in seen:
                seen.add(k)
                out.append((k, m))
        return out

    def coq_check(self, case, obs):
        text, al = obs["text"], obs["alignments"]
        if isinstance(text, dict) or isinstance(al, dict) or len(text) > 3000:
            return None
        w = int(case["opts"].get("wrap_width", 60))
        recs = "[%s]" % "; ".join("(%s, %s)" % (cz(u), cstr(a)) for u, a in zip(obs["samples"], al))
        term = "c18_check_fasta %s %s %s" % (cz(w), recs, clist(list(text.encode("ascii")), cz))
        if isinstance(obs.get("haplotypes"), list):
            opts = case["opts"]
            ref = opts["reference_sequence"]
            mdc = "N" if opts["missing_data_character"] is None else opts["missing_data_character"]
            term += (" && c18_check_alignments %s %s %s %s [%s] [%s]"
                     % (cz(obs["L"]), "None" if ref is None else "(Some %s)" % cstr(ref), cz(ord(mdc)),
                        clist(obs["site_pos"]), "; ".join(cstr(h) for h in obs["haplotypes"]),
                        "; ".join(cstr(a) for a in al)))
        return term

    def nontrivial(self, case, obs):
        return isinstance(obs["text"], str) and len(obs["text"]) > 10

    def describe(self, case, obs):
        return {"wrap": case["opts"].get("wrap_width", "default"),
                "result": "str" if isinstance(obs["text"], str) else obs["text"]["err"]}


class Wrap(Family):
    """text_formats.wrap_text itself."""
    name = "wrap"
    prelude = Newick.prelude
    workers = 4

    def generate(self, rng, tier):
        for n in range(0, 13):
            for w in range(0, 15):
                yield {"text": "".join(chr(97 + (i % 26)) for i in range(n)), "w": w}
        for _ in range(200 if tier == "quick" else 3000):
            n = rng.randrange(0, 200)
            yield {"text": "".join(rng.choice("ACGTN?-") for _ in range(n)),
                   "w": rng.choice([0, 1, 2, 7, 60, 61, n, n + 1, max(n - 1, 0), rng.randrange(0, 250)])}

    def observe(self, case):
        from tskit import text_formats
        try:
            return {"lines": list(text_formats.wrap_text(case["text"], case["w"]))}
        except Exception as e:
            return {"lines": err_obs(e)}

    def oracle(self, case, obs):
        t, w = case["text"], case["w"]
        ls = obs["lines"]
        if isinstance(ls, dict):
            if t == "" and w == 0 and ls["err"] == "ZeroDivisionError":
                return []       # empty text is outside the property (alignments have length >= 1)
            return [("wrap-error:" + ls["err"], ls["msg"])]
        out = []
        if "".join(ls) != t:
            out.append(("wrap-concat", "lines do not concatenate to the text"))
        if w == 0:
            if ls != [t]:
                out.append(("wrap-zero", "width 0 must give the text as one line, got %d lines" % len(ls)))
        elif any(len(x) != w for x in ls[:-1]) or (ls and not 1 <= len(ls[-1]) <= w):
            out.append(("wrap-width", "line lengths %r at width %d" % ([len(x) for x in ls], w)))
        return out

    def coq_check(self, case, obs):
        ls = obs["lines"]
        exp = "None" if isinstance(ls, dict) else "(Some [%s])" % "; ".join(cstr(x) for x in ls)
        return "c18_check_wrap %s %s %s" % (cstr(case["text"]), cz(case["w"]), exp)

    def nontrivial(self, case, obs):
        return len(case["text"]) > case["w"] > 0

    def describe(self, case, obs):
        return {"w": "0" if case["w"] == 0 else "1-10" if case["w"] <= 10 else "11+"}


# ----------------------------------------------------------------------------------
# exact arithmetic: integer times (any precision) and dyadic times k/8 (precision >= 3) --
# the model computes the branch tokens itself (print_fixed), nothing is passed in opaque
# ----------------------------------------------------------------------------------
def scaled_times(times):
    """(q, [x]) with time = x / 10^q exactly: q = 0 for integer times, 3 for multiples of 1/8."""
    es = []
    for t in times:
        e = t * 8
        if not float(e).is_integer() or abs(e) >= 2 ** 50:
            return None
        es.append(int(e))
    if all(e % 8 == 0 for e in es):
        return 0, [e // 8 for e in es]
    return 3, [e * 125 for e in es]


class NewickExact(Newick):
    name = "newick_exact"
    shard = 150

    def generate(self, rng, tier):
        for _ in range(700 if tier == "quick" else 8000):
            n = rng.choice([1, 2, 3, 5, 8, 9, 10, 11, 12, 20, 33])
            scheme = rng.choice(["int", "int", "bigint", "dyadic", "dyadic", "neg_int", "neg_dyadic", "pow10i",
                                 "halves", "halves"])
            tc = make_tree_case(rng, n, scheme="int")
            # re-time: strictly increasing in rank = increasing with the old integer times
            order = sorted(range(n), key=lambda u: tc["times"][u])
            if scheme == "int":
                vals, t0 = [], 0
                for i in range(n):
                    vals.append(float(t0))
                    t0 += rng.choice([1, 1, 3])
            elif scheme == "bigint":
                vals = [float(i * 123456789) for i in range(n)]
            elif scheme == "dyadic":
                vals = [i / 8.0 for i in range(n)]
            elif scheme == "neg_int":
                off = rng.choice([n, 1000000])
                vals = [float(i - off) for i in range(n - 1)] + [float(rng.choice([0, 1, 5]))]
            elif scheme == "neg_dyadic":
                vals = [(i - n) / 8.0 for i in range(n)]
            elif scheme == "halves":
                vals, t0 = [], 0.0
                for i in range(n):
                    vals.append(t0)
                    t0 += rng.choice([0.5, 1.5, 2.5, 0.125, 0.375, 0.625, 9.5, 99.5])
            else:
                top = rng.choice([1, 10, 100, 1000])
                vals = sorted(set([float(top)] + [float(rng.randrange(0, top)) for _ in range(n - 1)]))
                while len(vals) < n:
                    vals = [vals[0] - 1.0] + vals
            vals = sorted(vals)
            for rank, u in enumerate(order):
                tc["times"][u] = vals[rank]
            tc["scheme"] = scheme
            q = make_query(rng, tc)
            allint = all(is_int(t) for t in tc["times"])
            q["precision"] = rng.choice([None, None, 0, 1, 2, 3, 5, 17])      # p < 3 on k/8 times: half-even ties
            if rng.random() < 0.3:
                # mutation / migration times (dyadic) that alone decide the default precision
                tc = add_other_times(rng, tc, fractional=rng.random() < 0.7)
                tc["mut_times"] = [[u, mt] for u, mt in tc.get("mut_times") or [] if float(mt * 8).is_integer()]
            yield {"tree": tc, "q": q}

    def coq_check(self, case, obs):
        tc, q = case["tree"], case["q"]
        discrete = tc_discrete(tc)
        if "arrays" not in obs or obs.get("resolved_root") is None or isinstance(obs.get("general"), dict):
            return None
        p = q["precision"] if q["precision"] is not None else (0 if discrete else 17)
        sc = scaled_times(tc["times"])
        if sc is None or p < 0:
            return None
        sq, st = sc
        a = obs["arrays"]
        kids = {u: ks for u, ks in obs["kids"]}
        r = obs["resolved_root"]
        ibl = True if q["ibl"] is None else q["ibl"]
        lab = q["labels"]
        if lab == "default":
            labs = "LabDefault"
        elif lab == "ms":
            labs = "LabMs"
        else:
            labs = "(LabDict [%s])" % "; ".join("(%s, %s)" % (cz(int(k)), cstr(v)) for k, v in lab)
        fast = "None"
        if "fast" in obs:
            f = obs["fast"]
            if isinstance(f, dict):
                if not (f["err"] == "LibraryError" and "buffer" in f["msg"].lower()):
                    return None
                fast = "(Some (FastOverflow %s))" % cz(obs["fast_bufsize"])
            else:
                fast = "(Some (FastOk %s %s))" % (cz(obs["fast_bufsize"]), cstr(f))
        extra = ""
        if q["precision"] is None:
            # the default precision as the model resolves it from ALL node, mutation, migration times
            ms_ = scaled_times([mt for _u, mt in tc.get("mut_times") or []] + list(tc.get("mig_times") or []) + list(tc["times"]))
            if ms_ is not None:
                q2, allx = ms_
                k1 = len(tc.get("mut_times") or [])
                k2 = k1 + len(tc.get("mig_times") or [])
                extra = " && c18_check_default_precision %s %s %s %s %s" % (
                    cz(q2), clist(allx[k2:]), clist(allx[:k1]), clist(allx[k1:k2]), cz(p))
        return ("c18_check_exact (mk_ctree %s %s %s %s %s) %s %s %s %s %s %s %s %s %s %s %s %s"
                % (clist(a["lc"]), clist(a["rc"]), clist(a["ls"]), clist(a["par"]), clist(a["flags"]),
                   cz(tc["n"]), crose(r, kids), cz(obs["root_parent"]), cz(sq), clist(st), labs,
                   "true" if ibl else "false", cz(p), fast, cstr(obs["general"]), cz(obs["W"]), cout(q, obs))) + extra


class BufSize(Family):
    """The buffer size chosen by Tree._as_newick_fast, for node counts up to 10^5."""
    name = "bufsize"
    prelude = Newick.prelude
    workers = 4

    def generate(self, rng, tier):
        ns = [1, 2, 9, 10, 11, 99, 100, 101, 999, 1000, 1001, 9999, 10000, 10001, 100000]
        rts = [-5, 0, 1, 2, 9, 10, 11, 99, 100, 101, 1000, 10 ** 6, 10 ** 6 + 1, 10 ** 15]
        for n in ns:
            for rt in (rts if n <= 1001 else rts[:6]):
                yield {"n": n, "rt": rt, "precision": rng.choice([0, 3, 17])}

    def observe(self, case):
        import numpy as np
        import tskit
        n, rt = case["n"], case["rt"]
        tc = tskit.TableCollection(1.0)
        time = np.full(n, float(rt) - 2.0)
        flags = np.zeros(n, dtype=np.uint32)
        root = n - 1
        time[root] = rt
        flags[0] = 1
        if n > 1:
            time[0] = rt - 1.0
        tc.nodes.set_columns(flags=flags, time=time)
        if n > 1:
            tc.edges.add_row(0, 1, root, 0)
        ts = tc.tree_sequence()
        tree = ts.first()
        proxy = LLProxy(tree._ll_tree)
        tree._ll_tree = proxy
        p = case["precision"]
        try:
            out = tree._as_newick_fast(root=root, precision=p, legacy_ms_labels=False)
        except Exception as e:
            out = err_obs(e)
        tree._ll_tree = proxy._ll
        return {"out": out, "bufsize": proxy.sizes[-1] if proxy.sizes else None,
                "W": len("{0:.{1}f}".format(tree.time(root) - float(ts.nodes_time.min()), p))}

    def oracle(self, case, obs):
        n, rt, p = case["n"], case["rt"], case["precision"]
        want = ("(n0:%s);" % fmt_fixed(1.0, p)) if n > 1 else "n0;"
        if obs["out"] != want:
            return [("bufsize-newick", "got %r, wanted %r" % (str(obs["out"])[:80], want))]
        return []

    def coq_check(self, case, obs):
        if obs["bufsize"] is None:
            return None
        return "c18_check_bufsize %s %s %s" % (cz(case["n"]), cz(obs["W"]), cz(obs["bufsize"]))

    def nontrivial(self, case, obs):
        return case["n"] > 1

    def describe(self, case, obs):
        return {"n": case["n"]}


class NewickReuse(Family):
    """Round-5 class 7: ONE Tree object used for a history of calls -- moved along the sequence
    (first/next/seek, what ts.trees() and write_nexus do), asked for several roots and precisions
    -- with root times that differ by many digits between the steps.  Every step is judged and
    model-checked exactly like a call on a fresh Tree."""
    name = "newick_reuse"
    prelude = Newick.prelude
    workers = 8
    shard = 60

    def generate(self, rng, tier):
        for _ in range(150 if tier == "quick" else 1500):
            desc = connected_desc(rng, max_nodes=8, max_L=6, p_gap=0.0)
            desc = apply_tmap(desc, rng.choice(["exp", "exp", "exp3", "mega", "eighth"]))
            bps = gen_ts.breakpoints(desc)
            n = len(desc["nodes"])
            flags = [r[0] for r in desc["nodes"]]
            times = [r[1] for r in desc["nodes"]]
            steps = []
            xs = list(bps[:-1])
            if rng.random() < 0.3:
                rng.shuffle(xs)
            fixed_prec = rng.choice([None, 0, 3])
            for x in xs:
                par = gen_ts.parent_at(desc, x)
                tc = {"n": n, "parent": par, "flags": flags}
                # youngest requested roots first, the tree's own root last
                order = sorted(range(n), key=lambda u: times[u])
                picks = [rng.choice(order[:max(1, n // 2)]), rng.choice(order)]
                for root in picks + [None]:
                    q = make_query(rng, tc)
                    q["root"] = root
                    if rng.random() < 0.7:
                        q["labels"], q["ibl"], q["precision"] = rng.choice(["default", "default", "ms"]), None, fixed_prec
                    steps.append({"x": x, "q": q})
            yield {"desc": desc, "steps": steps[:8]}

    def observe(self, case):
        import tskit
        desc = case["desc"]
        ts = gen_ts.build_tables(desc).tree_sequence()
        tree = tskit.Tree(ts)
        discrete = desc_discrete_time(desc)
        out, last = [], None
        for st in case["steps"]:
            pos = st["x"] * desc["scale"]
            if last is None:
                tree.first()
                if not (tree.interval.left <= pos < tree.interval.right):
                    tree.seek(pos)
            elif st["x"] != last:
                if tree.interval.right == pos:
                    tree.next()
                else:
                    tree.seek(pos)
            last = st["x"]
            out.append(run_queries(tree, ts, st["q"], discrete, want_arrays=True))
        return {"steps": out}

    def oracle(self, case, obs):
        desc = case["desc"]
        flags = [r[0] for r in desc["nodes"]]
        times = [float(r[1]) for r in desc["nodes"]]
        discrete = desc_discrete_time(desc)
        fails, seen = [], set()
        for k, (st, o) in enumerate(zip(case["steps"], obs["steps"])):
            for key, msg in judge(gen_ts.parent_at(desc, st["x"]), flags, times, discrete, st["q"], o):
                key = "reuse-" + key
                if key not in seen:
                    seen.add(key)
                    fails.append((key, "step %d (x=%s, root=%s): %s" % (k, st["x"], st["q"]["root"], msg)))
        return fails

    def coq_check(self, case, obs):
        desc = case["desc"]
        discrete = desc_discrete_time(desc)
        terms = []
        for st, o in zip(case["steps"], obs["steps"]):
            t = coq_newick_term(st["q"], o, discrete, len(desc["nodes"]))
            if t is not None:
                terms.append(t)
        return " && ".join(terms) if terms else None

    def nontrivial(self, case, obs):
        return len(case["steps"]) >= 2

    def describe(self, case, obs):
        return {"steps": len(case["steps"]), "trees": len(set(st["x"] for st in case["steps"]))}

    def shrink(self, case):
        for k in range(len(case["steps"]) - 1, -1, -1):
            if len(case["steps"]) > 1:
                yield dict(case, steps=case["steps"][:k] + case["steps"][k + 1:])


class NewickArgs(Family):
    """root arguments that are not nodes: -1, the virtual root N, beyond.  Outside the property's
    quantifier; recorded so that nothing but an exception (or, for the virtual root on the general
    path, a string) comes back, and the C writer's own bounds check is tied to the model."""
    name = "newick_args"
    prelude = "From TskVerif Require Import Base.Common Gen.Generated C18.Model.\nOpen Scope Z_scope."
    workers = 4

    def generate(self, rng, tier):
        for _ in range(90 if tier == "quick" else 900):
            tc = make_tree_case(rng, rng.choice([1, 2, 3, 5, 9]), scheme="int")
            q = make_query(rng, tc)
            q["root"] = tc["n"] + rng.choice([-tc["n"] - 1, -tc["n"] - 4, 0, 0, 1, 7])
            yield {"tree": tc, "q": q}

    def observe(self, case):
        import tskit
        tc, q = case["tree"], case["q"]
        ts = build_single_tree(tc)
        tree = ts.first()
        obs = {"lc": [int(x) for x in tree.left_child_array], "rc": [int(x) for x in tree.right_child_array],
               "ls": [int(x) for x in tree.left_sib_array], "par": [int(x) for x in tree.parent_array],
               "flags": [int(x) for x in ts.nodes_flags]}
        try:
            obs["out"] = tree.as_newick(root=q["root"], precision=q["precision"], node_labels=labels_arg(q, tskit),
                                        include_branch_lengths=q["ibl"])
        except Exception as e:
            obs["out"] = err_obs(e)
        try:
            obs["fast"] = tree._ll_tree.get_newick(root=q["root"], precision=3, buffer_size=4096)
        except Exception as e:
            obs["fast"] = err_obs(e)
        return obs

    def oracle(self, case, obs):
        n, root = case["tree"]["n"], case["q"]["root"]
        o = obs["out"]
        if root == n:
            # the virtual root is not a node (outside the property); what each path does, exactly:
            # fast path (C writer): TSK_ERR_NODE_OUT_OF_BOUNDS; general path: children(virtual_root)
            # = tree.roots, each hanging on a branch of length 0, no label unless the dict has key N
            tc, q = case["tree"], case["q"]
            ibl = True if q["ibl"] is None else q["ibl"]
            fast = ibl and q["labels"] in ("default", "ms")
            if q["precision"] is not None and q["precision"] < 0:
                return []
            if fast:
                if not (isinstance(o, dict) and o["err"] == "LibraryError" and "out of bounds" in o["msg"].lower()):
                    return [("newick-args:virtual-root-fast-path", "expected TSK_ERR_NODE_OUT_OF_BOUNDS, got %r" % (str(o)[:80],))]
                return []
            if isinstance(o, dict):
                return [("newick-args:virtual-root-general-path", "%s: %s" % (o["err"], o["msg"]))]
            parent, flags, times = list(tc["parent"]) + [NULL], list(tc["flags"]) + [0], list(tc["times"]) + [0.0]
            rs = roots_of(tc["parent"], tc["flags"])
            if not rs:
                return [] if o == ";" or o.endswith(";") else [("newick-args:virtual-root-general-path", o[:60])]
            ch = children_of(tc["parent"]) + [rs]
            p = q["precision"] if q["precision"] is not None else (0 if all(is_int(t) for t in tc["times"]) else 17)
            lab = q["labels"]
            if lab == "default":
                label = lambda u: ("n%d" % u) if flags[u] & 1 else ""
            elif lab == "ms":
                label = lambda u: ("%d" % (u + 1)) if not ch[u] else ""
            else:
                d = {int(k): v for k, v in lab}
                label = lambda u: d.get(u, "")
            def token(u):
                if not ibl:
                    return None
                return fmt_fixed(0.0 if tc["parent"][u] == NULL else tc["times"][tc["parent"][u]] - tc["times"][u], p)
            it = Interner()
            want = it.of_expected(n, ch, label, token)
            try:
                got = it.of_parsed(parse_newick(o))
            except NewickError as e:
                return [("newick-args:virtual-root-general-path", "unparsable: %s" % e)]
            if got != want:
                return [("newick-args:virtual-root-general-path", "forest string %r is not the roots under an unlabelled node" % o[:120])]
            return []
        if not isinstance(o, dict):
            return [("newick-args:bad-root-accepted", "root=%d (N=%d) gave %r" % (root, n, o[:60]))]
        return []

    def coq_check(self, case, obs):
        f = obs["fast"]
        if not isinstance(f, dict) or case["q"]["root"] < 0:
            return None         # negative ints are rejected while parsing the arguments
        if "out of bounds" not in f["msg"].lower():
            return None
        return ("res_is_err (c_newick _ tok_sub (tok_print []) tok_tm (mk_ctree %s %s %s %s %s) %s %s false 3 4096) "
                "c18_err_node_out_of_bounds"
                % (clist(obs["lc"]), clist(obs["rc"]), clist(obs["ls"]), clist(obs["par"]), clist(obs["flags"]),
                   cz(case["tree"]["n"]), cz(case["q"]["root"])))

    def nontrivial(self, case, obs):
        return True

    def describe(self, case, obs):
        o = obs["out"]
        return {"root-N": case["q"]["root"] - case["tree"]["n"], "result": "str" if isinstance(o, str) else o["err"]}


FAMILIES = [Newick, NewickExact, NewickTs, NewickReuse, NewickArgs, BufSize, Nexus, Fasta, Wrap]

NOT_COVERED = [
    "float <-> decimal rendering (printf %.*f, str.format) is trusted: the model takes branch tokens and the length W of the rendered maximal branch as opaque inputs (exact instance: integer / dyadic times)",
    "the order in which tree.nodes(root, order='postorder') lists siblings (C01); build_newick only needs children before parents",
    "as_newick(root=tree.virtual_root) and precision outside 0..17 (fast path rejects them with ValueError)",
    "alignments() content itself (C03); only its transport into FASTA / nexus DATA is checked",
    "the traversal stack capacity in tsk_newick_converter_init (tsk_tree_get_size_bound) is not modelled",
]
