"""C16 — VCF output states exactly the genotypes of the tree sequence.

Families
  vcf       random valid tree sequences x individual layouts x ploidy x position
            transforms x mask representations x isolated_as_missing x
            allow_position_zero.  The VCF text is parsed by the line parser below
            (no third-party parser) and compared with an expectation derived from the
            *documentation* (docs of TreeSequence.write_vcf) and ts.genotype_matrix.
            Every case is also run on two altered tree sequences: one in which the
            content of every masked site is replaced (10-allele pile / stripped), one
            in which the masked sites are deleted — "masked sites influence neither
            the output nor whether an error is raised".
  mapping   VcfWriter's sample-to-individual mapping (samples, individual_ploidies)
            against the Coq model of __make_sample_mapping and the documented layout.
  directed  small hand-built shapes: masked position-0 site in every mask form,
            10 alleles masked / unmasked, zero samples, zero sites.
"""
import copy

from harness import gen_ts
from harness.common import cz, clist, cbool
from harness.runner import Family

NULL = -1
POOL = ["A", "C", "G", "T", "AC", "GTT", "", "N", "*", "<X>", "a b", "TTTTTT", "ac", "g|t"]
FIXED = [".", "PASS", ".", "GT"]
HEADER_COLS = ["#CHROM", "POS", "ID", "REF", "ALT", "QUAL", "FILTER", "INFO", "FORMAT"]

# ----------------------------------------------------------------------------------
# position transforms (named so that cases stay JSON-able)
# ----------------------------------------------------------------------------------


def _tr_plus1(x):
    import numpy as np
    return 1 + np.asarray(x)


def _tr_fmax1(x):
    import numpy as np
    return np.fmax(1, x)


def _tr_double_round(x):
    import numpy as np
    return np.round(2 * np.asarray(x))


def _tr_intlist(x):
    return [int(v) + 3 for v in x]


def _tr_drop_last(x):
    return list(x)[:-1] if len(x) > 1 else list(x)


TRANSFORMS = {"plus1": _tr_plus1, "fmax1": _tr_fmax1, "double_round": _tr_double_round,
              "intlist": _tr_intlist, "drop_last": _tr_drop_last}


def py_round(x):
    return int(round(x))          # round-half-even on the binary value, as numpy.round


def expected_positions(name, pos, L, want_raw=False):
    """(transformed positions | None when the documented length rule is broken, contig_length)."""
    def trunc(v):
        return int(v)
    if name is None:
        tp = [py_round(p) for p in pos]
        cl = py_round(L)
    elif name == "legacy":
        def leg(ps):
            last, out = 0, []
            for p in ps:
                p = py_round(p)
                if p <= last:
                    p = last + 1
                out.append(p)
                last = p
            return out
        tp, cl = leg(pos), leg([L])[0]
    elif name == "plus1":
        tp, cl = [trunc(1 + p) for p in pos], trunc(1 + L)
    elif name == "fmax1":
        tp, cl = [trunc(max(1, p)) for p in pos], trunc(max(1, L))
    elif name == "double_round":
        tp, cl = [py_round(2 * p) for p in pos], py_round(2 * L)
    elif name == "intlist":
        tp, cl = [int(p) + 3 for p in pos], int(L) + 3
    elif name == "drop_last":
        if len(pos) > 1:
            return (None, None, None) if want_raw else (None, None)
        tp, cl = [trunc(p) for p in pos], trunc(L)
    else:
        raise ValueError(name)
    raw = cl
    cl = max(1, cl)
    if tp:
        cl = max(tp[-1], cl)
    if want_raw:
        return tp, cl, raw
    return tp, cl


POINTWISE = (None, "plus1", "fmax1", "double_round", "intlist")

# ----------------------------------------------------------------------------------
# masks
# ----------------------------------------------------------------------------------


def make_mask(spec, table_lookup=None):
    """spec = {"form":..., "values": [...]} -> the python object handed to write_vcf."""
    import numpy as np
    if spec is None:
        return None
    form, v = spec["form"], spec["values"]
    if form == "bool_array":
        return np.array([bool(x) for x in v], dtype=bool)
    if form == "bool_strided":  # non-contiguous view a[::2]
        return np.array([b for x in v for b in (bool(x), not bool(x))], dtype=bool)[::2]
    if form == "bool_reversed":  # negative-stride view
        return np.array([bool(x) for x in v][::-1], dtype=bool)[::-1]
    if form == "bool_col":      # a column of a 2-D array
        return np.array([[not bool(x), bool(x)] for x in v], dtype=bool).reshape(len(v), 2)[:, 1]
    if form == "int32_array":
        return np.array(v, dtype=np.int32)
    if form == "int_strided":
        return np.array([b for x in v for b in (int(x), 7)], dtype=np.int64)[::2]
    if form == "list":          # python list of bools
        return [bool(x) for x in v]
    if form == "tuple":
        return tuple(bool(x) for x in v)
    if form == "int_list":      # python list of ints
        return [int(x) for x in v]
    if form == "int_array":
        return np.array(v, dtype=np.int64)
    if form == "int8_array":
        return np.array(v, dtype=np.int8)
    if form == "uint8_array":
        return np.array([x % 256 for x in v], dtype=np.uint8)
    if form == "float_array":
        return np.array(v, dtype=np.float64)
    raise ValueError(form)


def mask_bools(spec, n_default):
    if spec is None:
        return [False] * n_default
    if spec["form"] == "uint8_array":
        return [x % 256 != 0 for x in spec["values"]]
    return [bool(x) for x in spec["values"]]


NONBOOL_FORMS = ("list", "tuple", "int_list", "int_array", "int8_array", "uint8_array", "float_array",
                 "int32_array", "int_strided")
FORM_KEY = {"list": "list", "tuple": "list", "int_list": "list", "int_array": "int-array",
            "int8_array": "int-array", "uint8_array": "uint-array", "float_array": "float-array",
            "int32_array": "int-array", "int_strided": "int-array"}

# ----------------------------------------------------------------------------------
# desc surgery
# ----------------------------------------------------------------------------------


def rewrite_sites(desc, fn):
    """fn(site_index, site_row, [mutation rows with site-local parent]) ->
    None (delete the site) or (site_row, mutation rows with site-local parents)."""
    d = copy.deepcopy(desc)
    by_site = {}
    first = {}
    for k, m in enumerate(desc["mutations"]):
        first.setdefault(m[0], k)
        by_site.setdefault(m[0], []).append(m)
    sites, muts = [], []
    for s, row in enumerate(desc["sites"]):
        ms = []
        for m in by_site.get(s, []):
            m = list(m)
            if m[3] != NULL:
                m[3] -= first[s]
            ms.append(m)
        r = fn(s, list(row), ms)
        if r is None:
            continue
        row2, ms2 = r
        base = len(muts)
        for m in ms2:
            m = list(m)
            m[0] = len(sites)
            if m[3] != NULL:
                m[3] += base
            muts.append(m)
        sites.append(row2)
    d["sites"], d["mutations"] = sites, muts
    return d


def perturb_desc(desc, masked, mode):
    n = len(desc["nodes"])
    unknown = all(m[4] is None for m in desc["mutations"])

    def fn(s, row, ms):
        if not masked[s]:
            return row, ms
        if mode == "strip" or n == 0:
            return [row[0], "Q", ""], []
        u = ms[0][1] if ms else 0
        t = None if unknown else desc["nodes"][u][1]
        pile = [[s, u, "p%d" % k, (k - 1 if k else NULL), t, ""] for k in range(10)]
        return [row[0], "Z9", ""], pile
    return rewrite_sites(desc, fn)


def delete_masked(desc, masked):
    return rewrite_sites(desc, lambda s, row, ms: None if masked[s] else (row, ms))


# ----------------------------------------------------------------------------------
# running the implementation
# ----------------------------------------------------------------------------------


def build_kwargs(args, site_mask, sample_mask, calls):
    kw = {}
    if args.get("ploidy") is not None:
        kw["ploidy"] = args["ploidy"]
    if args.get("contig_id") is not None:
        kw["contig_id"] = args["contig_id"]
    if args.get("individuals") is not None:
        import numpy as np
        iv, iform = list(args["individuals"]), args.get("individuals_form", "list")
        if iform == "int32":
            kw["individuals"] = np.array(iv, dtype=np.int32)
        elif iform == "int64_strided":
            kw["individuals"] = np.array([b for x in iv for b in (x, -5)], dtype=np.int64)[::2]
        elif iform == "tuple":
            kw["individuals"] = tuple(iv)
        else:
            kw["individuals"] = iv
    if args.get("individual_names") is not None:
        nf = args.get("names_form", "list")
        if nf == "tuple":
            kw["individual_names"] = tuple(args["individual_names"])
        elif nf == "array":
            import numpy as np
            kw["individual_names"] = np.array(list(args["individual_names"]), dtype=object)
        elif nf == "str_array":
            import numpy as np
            kw["individual_names"] = np.array(list(args["individual_names"]), dtype=str) \
                if args["individual_names"] else []
        else:
            kw["individual_names"] = list(args["individual_names"])
    tr = args.get("position_transform")
    if tr == "legacy":
        kw["position_transform"] = "legacy"
    elif tr is not None:
        kw["position_transform"] = TRANSFORMS[tr]
    if site_mask is not None:
        kw["site_mask"] = make_mask(site_mask)
    if sample_mask is not None:
        if sample_mask["form"] == "callable":
            import numpy as np
            table = sample_mask["values"]
            inner = sample_mask.get("inner", "list")

            def fn(variant):
                calls.append(int(variant.site.id))
                row = table[variant.site.id]
                if inner == "int_array":
                    return np.array(row, dtype=np.int64)
                return [bool(x) for x in row]
            kw["sample_mask"] = fn
        else:
            kw["sample_mask"] = make_mask(sample_mask)
    if args.get("isolated_as_missing") is not None:
        kw["isolated_as_missing"] = args["isolated_as_missing"]
    if args.get("allow_position_zero") is not None:
        kw["allow_position_zero"] = args["allow_position_zero"]
    return kw


def run_vcf(desc, args, site_mask, sample_mask):
    calls = []
    try:
        ts = gen_ts.build_tables(desc).tree_sequence()
    except Exception as e:
        return {"build_err": "%s: %s" % (type(e).__name__, e)}
    kw = build_kwargs(args, site_mask, sample_mask, calls)
    try:
        text = ts.as_vcf(**kw)
        res = {"text": text, "calls": calls}
    except Exception as e:
        res = {"err": type(e).__name__, "msg": str(e)[:100], "calls": calls}
    # the same call once more on the SAME tree sequence (after a success or after an error)
    try:
        again = ts.as_vcf(**build_kwargs(args, site_mask, sample_mask, []))
        res["again_same"] = res.get("text") == again
    except Exception as e:
        res["again_same"] = res.get("err") == type(e).__name__
    return res


def table_facts(desc, iam):
    """What the oracle needs from the tree sequence, through APIs other than the VCF writer."""
    import tskit
    ts = gen_ts.build_tables(desc).tree_sequence()
    t = ts.tables
    muts = [[] for _ in range(ts.num_sites)]
    for m in t.mutations:
        muts[m.site].append(m.derived_state)
    return {
        "version": tskit.__version__,
        "L": ts.sequence_length,
        "samples": [int(u) for u in ts.samples()],
        "node_flags": [int(f) for f in t.nodes.flags],
        "node_individual": [int(i) for i in t.nodes.individual],
        "num_individuals": ts.num_individuals,
        "sites": [[float(s.position), s.ancestral_state, muts[j]] for j, s in enumerate(t.sites)],
        "G": [[int(x) for x in row] for row in ts.genotype_matrix(isolated_as_missing=iam)],
    }


def variant_facts(desc, facts, args, iam):
    """The Variant objects exactly as VcfWriter.write obtains them (ts.variants(samples=
    self.samples, isolated_as_missing=...)): alleles incl. the trailing None, num_alleles,
    has_missing_data, genotypes.  Only for layouts the documentation accepts."""
    v, lay = expected_layout(facts, args.get("ploidy"), args.get("individuals"))
    if v != "ok":
        return None
    cols = [u for g in lay for u in g]
    if len(set(cols)) != len(cols) or any(not facts["node_flags"][u] & 1 for u in cols):
        return None
    by_individuals = any(i != NULL for i in facts["node_individual"]) and (
        args.get("individuals") is not None or any(facts["node_individual"][u] != NULL for u in facts["samples"]))
    ts = gen_ts.build_tables(desc).tree_sequence()
    out = []
    try:
        for var in ts.variants(samples=cols if by_individuals else None, isolated_as_missing=iam):
            out.append({"alleles": list(var.alleles), "num_alleles": int(var.num_alleles),
                        "has_missing": bool(var.has_missing_data), "genotypes": [int(x) for x in var.genotypes]})
    except Exception as e:
        return {"err": "%s: %s" % (type(e).__name__, str(e)[:100])}
    return {"cols": cols, "variants": out}


def check_variants(facts, vf):
    """C03 tie: the per-variant view the writer consumes agrees with the genotype matrix and
    with the alleles of the tables; the trailing None of .alleles is there iff data is missing."""
    out = []
    if vf is None:
        return out
    if "err" in vf:
        return [("variant-decode-error", vf["err"])]
    col_of = {u: k for k, u in enumerate(facts["samples"])}
    if len(vf["variants"]) != len(facts["sites"]):
        return [("variant-count", "%d variants for %d sites" % (len(vf["variants"]), len(facts["sites"])))]
    for j, (var, st) in enumerate(zip(vf["variants"], facts["sites"])):
        want = [facts["G"][j][col_of[u]] for u in vf["cols"]]
        al = site_alleles(st)
        miss = any(g == -1 for g in want)
        if var["genotypes"] != want:
            out.append(("variant-genotypes", "site %d: %r vs matrix %r" % (j, var["genotypes"], want)))
        elif var["alleles"][:var["num_alleles"]] != al or var["num_alleles"] != len(al):
            out.append(("variant-alleles", "site %d: %r (num_alleles %d) vs %r" % (j, var["alleles"], var["num_alleles"], al)))
        elif var["has_missing"] != miss or (var["alleles"][-1:] == [None]) != miss or \
                len(var["alleles"]) != len(al) + (1 if miss else 0):
            out.append(("variant-missing-flag", "site %d: has_missing_data %r, alleles %r, genotypes %r" % (j, var["has_missing"], var["alleles"], want)))
        if out:
            break
    return out


def sub_mask(spec, keep):
    if spec is None:
        return None
    s = dict(spec)
    s["values"] = [v for v, k in zip(spec["values"], keep) if k]
    return s


def observe_case(case):
    desc, args = case["desc"], case["args"]
    iam = args.get("isolated_as_missing")
    iam = True if iam is None else iam
    obs = {"facts": table_facts(desc, iam)}
    obs["variants"] = variant_facts(desc, obs["facts"], args, iam)
    obs["main"] = run_vcf(desc, args, args.get("site_mask"), args.get("sample_mask"))
    ns = len(desc["sites"])
    sm = args.get("site_mask")
    if sm is not None and len(sm["values"]) == ns and any(mask_bools(sm, ns)):
        masked = mask_bools(sm, ns)
        pd = perturb_desc(desc, masked, case.get("perturb", "pile10"))
        obs["perturbed"] = run_vcf(pd, args, sm, args.get("sample_mask"))
        keep = [not m for m in masked]
        dd = delete_masked(desc, masked)
        smask = args.get("sample_mask")
        if smask is not None and smask["form"] == "callable":
            smask = sub_mask(smask, keep)
        obs["deleted"] = run_vcf(dd, args, sub_mask(sm, keep), smask)
    return obs


# ----------------------------------------------------------------------------------
# the oracle: documentation-level expectation
# ----------------------------------------------------------------------------------


def expected_layout(facts, ploidy, individuals):
    """Groups of node ids per VCF sample column, per the write_vcf documentation.
    Returns ("ValueError"|"LibraryError", why) or ("ok", groups)."""
    flags, nind = facts["node_flags"], facts["node_individual"]
    samples = facts["samples"]
    NI = facts["num_individuals"]
    if NI > 0 and ploidy is not None:
        return "ValueError", "ploidy with individuals present"
    if individuals is None:
        refs = sorted({nind[u] for u in samples})
        if not samples:
            return "nosamples", "no sample nodes"
        if refs == [NULL]:
            inds = None
        elif refs[0] == NULL:
            return "ValueError", "samples with and without individuals"
        else:
            inds = refs
    else:
        inds = list(individuals)
        if not inds:
            return "ValueError", "empty individuals"
    if inds is None:
        p = 1 if ploidy is None else ploidy
        if p < 1:
            return "ValueError", "ploidy < 1"
        if len(samples) % p:
            return "ValueError", "not divisible"
        return "ok", [samples[k:k + p] for k in range(0, len(samples), p)]
    groups = []
    for i in inds:
        if i < 0 or i >= NI:
            return "ValueError", "invalid individual id"
        nodes = [u for u in range(len(flags)) if nind[u] == i]
        if not nodes:
            return "ValueError", "individual without nodes"
        kinds = {flags[u] & 1 for u in nodes}
        if kinds != {1}:
            if kinds == {0}:
                return "ValueError", "all-nonsample"
            return "ValueError", "mixed sample/non-sample"
        groups.append(nodes)
    return "ok", groups


def site_alleles(site):
    out = [site[1]]
    for d in site[2]:
        if d not in out:
            out.append(d)
    return out


def expect(case, facts):
    """-> dict(verdict = 'ok'|'ValueError'|'LibraryError'|'nosamples', reasons, header, lines)"""
    args = case["args"]
    ns = len(facts["sites"])
    pos = [s[0] for s in facts["sites"]]
    reasons = []
    v, lay = expected_layout(facts, args.get("ploidy"), args.get("individuals"))
    if v == "nosamples":
        return {"verdict": "nosamples", "reasons": ["no samples"]}
    if v != "ok":
        return {"verdict": v, "reasons": [lay], "stage": "init"}
    groups = lay
    names = args.get("individual_names")
    if names is None:
        names = ["tsk_%d" % j for j in range(len(groups))]
    if len(names) != len(groups):
        return {"verdict": "ValueError", "reasons": ["names length"], "stage": "init"}
    tp, cl = expected_positions(args.get("position_transform"), pos, facts["L"])
    if tp is None:
        return {"verdict": "ValueError", "reasons": ["transform length"], "stage": "init"}
    sm = args.get("site_mask")
    if sm is not None and len(sm["values"]) != ns:
        return {"verdict": "ValueError", "reasons": ["site mask length"], "stage": "init"}
    masked = mask_bools(sm, ns)
    apz = bool(args.get("allow_position_zero"))
    if not apz and any(tp[j] == 0 and not masked[j] for j in range(ns)):
        reasons.append("position zero")
    inds_arg = args.get("individuals")
    if inds_arg is not None and len(set(inds_arg)) != len(inds_arg) and not reasons:
        # raised by ts.variants(samples=...) before the first site is looked at;
        # pinned by test_vcf.py::test_duplicate_individuals
        return {"verdict": "LibraryError", "reasons": ["duplicate individuals"]}
    cols = [u for g in groups for u in g]
    col_of = {u: k for k, u in enumerate(facts["samples"])}
    smask = args.get("sample_mask")
    lines, calls = [], []
    contig = "1" if args.get("contig_id") is None else args["contig_id"]
    for j in range(ns):
        if masked[j] or reasons:
            continue
        alleles = site_alleles(facts["sites"][j])
        if len(alleles) > 9:
            reasons.append("more than 9 alleles at site %d" % j)
            break
        if smask is None:
            mrow = [False] * len(cols)
        elif smask["form"] == "callable":
            calls.append(j)
            mrow = [bool(x) for x in smask["values"][j]]
        else:
            mrow = mask_bools(smask, len(cols))
        if len(mrow) != len(cols):
            reasons.append("sample mask length")
            break
        gts, k = [], 0
        for g in groups:
            toks = []
            for u in g:
                a = facts["G"][j][col_of[u]]
                toks.append("." if (a == -1 or mrow[k]) else str(a))
                k += 1
            gts.append("|".join(toks))
        alt = ",".join(alleles[1:]) if len(alleles) > 1 else "."
        lines.append([contig, str(tp[j]), str(j), alleles[0], alt] + FIXED + gts)
    return {"verdict": "ValueError" if reasons else "ok", "reasons": reasons,
            "contig": "##contig=<ID=%s,length=%d>" % (contig, cl),
            "chrom": HEADER_COLS + list(names) if names else HEADER_COLS + [""],
            "lines": lines, "calls": calls, "masked": masked, "groups": groups}


def parse_vcf(text):
    """Own line parser: -> (meta lines, header columns, data rows as token lists) or raises."""
    if not text.endswith("\n"):
        raise ValueError("text does not end with a newline")
    lines = text[:-1].split("\n")
    meta, k = [], 0
    while k < len(lines) and lines[k].startswith("##"):
        meta.append(lines[k])
        k += 1
    if k >= len(lines) or not lines[k].startswith("#CHROM"):
        raise ValueError("no #CHROM line")
    header = lines[k].split("\t")
    rows = [ln.split("\t") for ln in lines[k + 1:]]
    return meta, header, rows


def verdict_of(run):
    return run["err"] if "err" in run else "ok"


def f6_applies(args):
    sm = args.get("site_mask")
    return (sm is not None and sm["form"] in NONBOOL_FORMS and not args.get("allow_position_zero"))


def f6_key(args, run):
    form = FORM_KEY[args["site_mask"]["form"]]
    e = run.get("err")
    kind = {"TypeError": "typeerror", "IndexError": "indexerror"}.get(e, "position-zero")
    return "site-mask-%s-%s" % (form, kind)


def check_run(case, facts, run, exp, tag=""):
    """Compare one run with its expectation; returns failures."""
    args = case["args"]
    out = []
    if "build_err" in run:
        return [("harness-build" + tag, run["build_err"])]
    got = verdict_of(run)
    if run.get("again_same") is False:
        out.append(("second-call-differs" + tag, "repeating the call on the same tree sequence gives another result"))
    if exp["verdict"] == "nosamples":
        # a VCF without sample columns or a documented ValueError; anything else (the
        # IndexError of the pinned code) is the zero-samples finding
        if got not in ("ok", "ValueError"):
            out.append(("zero-samples-%s" % got.lower(), "no sample nodes: %s %s" % (got, run.get("msg"))))
        return out
    init_stage_error = exp.get("stage") == "init"
    if got != exp["verdict"]:
        # what the documentation implies if the position-zero check did not exist: a wrong
        # outcome of that check (F6) shows as this verdict instead of the expected one
        a2 = dict(case)
        a2["args"] = dict(args, allow_position_zero=True)
        exp_nopz = expect(a2, facts)
        if exp["reasons"] == ["all-nonsample"]:
            out.append(("individuals-all-nonsample-" + ("libraryerror" if got == "LibraryError" else "accepted") + tag,
                        "an explicitly listed individual whose nodes are all non-samples: documented as an error "
                        "(ValueError family), got %s %s" % (got, run.get("msg", ""))))
        elif f6_applies(args) and not init_stage_error and \
                (got in ("TypeError", "IndexError") or
                 (set(exp["reasons"]) <= {"position zero"} and
                  (got == exp_nopz["verdict"] or (got == "ValueError" and "position of 0" in run.get("msg", ""))))):
            out.append((f6_key(args, run) + tag, "expected %s %s, got %s %s" % (exp["verdict"], exp["reasons"], got, run.get("msg", ""))))
        else:
            out.append(("verdict" + tag, "expected %s %s, got %s %s" % (exp["verdict"], exp["reasons"], got, run.get("msg", ""))))
        return out
    if got != "ok":
        return out
    try:
        meta, header, rows = parse_vcf(run["text"])
    except ValueError as e:
        return [("unparsable" + tag, str(e))]
    if exp["contig"] not in meta:
        out.append(("header-contig" + tag, "expected %r in %r" % (exp["contig"], meta)))
    if not meta or meta[0] != "##fileformat=VCFv4.2":
        out.append(("header-fileformat" + tag, repr(meta[:1])))
    want_meta = ["##fileformat=VCFv4.2", "##source=tskit %s" % facts["version"],
                 '##FILTER=<ID=PASS,Description="All filters passed">', exp["contig"],
                 '##FORMAT=<ID=GT,Number=1,Type=String,Description="Genotype">']
    if meta != want_meta and not out:
        out.append(("header-lines" + tag, "meta lines %r, expected %r" % (meta, want_meta)))
    if header != exp["chrom"]:
        out.append(("header-names" + tag, "expected %r got %r" % (exp["chrom"], header)))
    if len(rows) != len(exp["lines"]):
        out.append(("line-count" + tag, "expected %d data lines, got %d" % (len(exp["lines"]), len(rows))))
    for r, e in zip(rows, exp["lines"]):
        if r == e:
            continue
        if len(r) != len(e):
            out.append(("field-count" + tag, "%r vs %r" % (r, e)))
            break
        names = ["CHROM", "POS", "ID", "REF", "ALT", "QUAL", "FILTER", "INFO", "FORMAT"]
        for c, (a, b) in enumerate(zip(r, e)):
            if a != b:
                key = names[c].lower() if c < 9 else "gt"
                out.append(("field-%s%s" % (key, tag), "site %s column %d: got %r expected %r" % (e[2], c, a, b)))
                break
        break
    smask = args.get("sample_mask")
    if smask is not None and smask["form"] == "callable" and run.get("calls") != exp["calls"]:
        out.append(("sample-mask-callable-calls" + tag, "called for sites %r, unmasked sites are %r" % (run.get("calls"), exp["calls"])))
    return out


def remap_ids(text, keep_ids):
    """Rewrite the ID column of a VCF of the site-deleted tree sequence to the original ids."""
    meta, header, rows = parse_vcf(text)
    for r in rows:
        r[2] = str(keep_ids[int(r[2])])
    return meta, header, rows


def oracle_case(case, obs):
    facts = obs["facts"]
    exp = expect(case, facts)
    out = check_run(case, facts, obs["main"], exp)
    out += check_variants(facts, obs.get("variants"))
    args = case["args"]
    main = obs["main"]
    for other in ("perturbed", "deleted"):
        if other not in obs:
            continue
        run = obs[other]
        if "build_err" in run:
            out.append(("harness-build-" + other, run["build_err"]))
            continue
        same_verdict = verdict_of(run) == verdict_of(main)
        if other == "deleted" and args.get("position_transform") not in POINTWISE:
            continue            # 'legacy' is not pointwise: deleting a site moves its neighbours
        if not same_verdict:
            key = "masked-site-changes-verdict-" + other
            if f6_applies(args):
                key = "site-mask-%s-position-zero" % FORM_KEY[args["site_mask"]["form"]]
            out.append((key, "main: %s; %s: %s %s" % (verdict_of(main), other, verdict_of(run), run.get("msg", ""))))
            continue
        if "text" not in main:
            continue
        if other == "perturbed":
            if run["text"] != main["text"]:
                out.append(("masked-site-changes-output-perturbed", "output differs when only masked sites' content changes"))
        else:
            # the mask straight from the arguments (exp has no "masked" entry when the
            # documented outcome is an __init__-stage error, e.g. an all-non-sample individual
            # that the code accepts: the masked-site comparison still applies to what was written)
            keep_ids = [j for j, m in enumerate(mask_bools(args.get("site_mask"), len(facts["sites"]))) if not m]
            try:
                a = parse_vcf(main["text"])
                b = remap_ids(run["text"], keep_ids)
            except (ValueError, IndexError) as e:
                out.append(("masked-site-changes-output-deleted", "unparsable: %s" % e))
                continue
            if list(a) != list(b):
                out.append(("masked-site-changes-output-deleted", "output differs from the tree sequence with the masked sites deleted"))
    return out


# ----------------------------------------------------------------------------------
# generators
# ----------------------------------------------------------------------------------


def impose_layout(rng, desc, mode):
    """Rewrite node->individual references and the individuals table."""
    nodes = desc["nodes"]
    samples = [u for u, nd in enumerate(nodes) if nd[0] & 1]
    others = [u for u, nd in enumerate(nodes) if not nd[0] & 1]
    for nd in nodes:
        nd[3] = NULL
    inds = []
    if mode == "none":
        pass
    elif mode == "empty_table":          # individuals exist, nobody references them
        inds = [[0, [], [], ""] for _ in range(rng.randrange(1, 3))]
    else:
        pool = list(samples)
        if mode in ("all_shuffled", "subset", "bad"):
            rng.shuffle(pool)
        k = 0
        while k < len(pool):
            p = rng.choice([1, 2, 2, 3])
            if mode == "diploid":
                p = 2
            grp = pool[k:k + p]
            k += p
            if mode == "partial" and rng.random() < 0.4:
                continue                  # these samples stay without an individual
            for u in grp:
                nodes[u][3] = len(inds)
            inds.append([rng.randrange(0, 3), [], [], ""])
        if mode in ("subset", "bad", "partial") or rng.random() < 0.2:
            # extra individuals: without nodes, all-non-sample, mixed
            for kind in rng.sample(["nonodes", "nonsample", "mixed"], rng.randrange(0, 3)):
                if kind == "nonodes":
                    inds.append([0, [], [], ""])
                elif kind == "nonsample" and others:
                    for u in rng.sample(others, min(len(others), rng.randrange(1, 3))):
                        nodes[u][3] = len(inds)
                    inds.append([0, [], [], ""])
                elif kind == "mixed" and others and inds:
                    u = rng.choice(others)
                    if nodes[u][3] == NULL:
                        nodes[u][3] = rng.randrange(len(inds))
    desc["individuals"] = inds
    return desc


def node_groups(desc):
    g = {}
    for u, nd in enumerate(desc["nodes"]):
        if nd[3] != NULL:
            g.setdefault(nd[3], []).append(u)
    return g


def pick_individuals_arg(rng, desc, mode):
    ni = len(desc["individuals"])
    g = node_groups(desc)
    good = [i for i in range(ni) if i in g and all(desc["nodes"][u][0] & 1 for u in g[i])]
    r = rng.random()
    if mode in ("none",) and r < 0.9:
        return None
    if r < 0.45 or (r < 0.8 and not good):
        return None
    if r < 0.6 and good:
        x = list(good)
        rng.shuffle(x)
        return x
    if r < 0.8 and good:
        return rng.sample(good, rng.randrange(1, len(good) + 1))
    if r < 0.815:
        return []
    if r < 0.85 and good:
        return [rng.choice(good)] * 2
    if r < 0.88:
        return [rng.choice([-1, ni, ni + 3])]
    if ni:
        return [rng.randrange(ni) for _ in range(rng.randrange(1, 4))]
    return None


def expected_columns(desc, args):
    """Number of haploid calls per line if the layout is valid (for sizing sample masks)."""
    facts = {"node_flags": [nd[0] for nd in desc["nodes"]],
             "node_individual": [nd[3] for nd in desc["nodes"]],
             "samples": [u for u, nd in enumerate(desc["nodes"]) if nd[0] & 1],
             "num_individuals": len(desc["individuals"])}
    v, lay = expected_layout(facts, args.get("ploidy"), args.get("individuals"))
    if v != "ok":
        return None, None
    return sum(len(g) for g in lay), len(lay)


def random_mask_values(rng, n, form, p):
    if form in ("bool_array", "list", "tuple", "bool_strided", "bool_reversed", "bool_col"):
        return [rng.random() < p for _ in range(n)]
    if form == "float_array":
        return [rng.choice([0.0, 1.0, 0.5]) if rng.random() < p else 0.0 for _ in range(n)]
    hi = rng.choice([[1], [1], [1, 2, 3], [1, -1, 7]])
    return [rng.choice(hi) if rng.random() < p else 0 for _ in range(n)]


def gen_case(rng, many_alleles=False):
    k = rng.choice([2, 3, 4, 6]) if not many_alleles else rng.choice([9, 10, 12])
    alleles = rng.sample(POOL, min(k, len(POOL)))
    desc = gen_ts.random_desc(
        rng, max_nodes=8, max_L=6, max_sites=4, max_muts=(12 if many_alleles else 4),
        metadata=False, individuals=False, populations=False, alleles=tuple(alleles),
        p_internal_sample=0.2)
    if rng.random() < 0.6:
        desc["scale"] = 1
    # node ids need not follow time order: samples are then not the first nodes and the nodes
    # of an individual neither contiguous nor ordered (layout / masks / names are drawn afterwards,
    # so everything node-indexed in the case already refers to the new ids)
    desc, _pi = gen_ts.permute_node_ids(rng, desc, p=0.5)
    if not any(nd[0] & 1 for nd in desc["nodes"]) and rng.random() < 0.85:
        return gen_case(rng, many_alleles)
    if many_alleles and rng.random() < 0.8:
        if rng.random() < 0.5:
            # cut every site down to at most 8 mutations: exactly 9 alleles is the documented maximum
            cnt = {}
            keep = []
            for k, m in enumerate(desc["mutations"]):
                cnt[m[0]] = cnt.get(m[0], 0) + 1
                keep.append(cnt[m[0]] <= 8)
            orig_parent = [m[3] for m in desc["mutations"]]
            remap, new = {}, []
            for k, m in enumerate(desc["mutations"]):
                if keep[k]:
                    remap[k] = len(new)
                    new.append(m)
            for k, m in enumerate(desc["mutations"]):
                if not keep[k]:
                    continue
                par = orig_parent[k]
                while par != NULL and not keep[par]:
                    par = orig_parent[par]
                m[3] = NULL if par == NULL else remap[par]
            desc["mutations"] = new
        seen = {}
        for m in desc["mutations"]:
            k = seen.get(m[0], 0)
            seen[m[0]] = k + 1
            m[2] = "m%d" % k if k >= len(alleles) else alleles[k] + ("x" if alleles[k] == desc["sites"][m[0]][1] else "")
    mode = rng.choice(["none", "none", "all", "all", "all_shuffled", "diploid", "subset",
                       "partial", "bad", "empty_table"])
    impose_layout(rng, desc, mode)
    for nd in desc["nodes"]:          # application-defined flag bits must not matter
        if rng.random() < 0.15:
            nd[0] |= rng.choice([1 << 16, 1 << 19, 1 << 31])
    ns = len(desc["sites"])
    args = {}
    if rng.random() < (0.5 if mode == "none" else 0.04):
        args["ploidy"] = rng.choice([1, 1, 2, 2, 2, 3, 3, 4, 1, 2, 0, -1])
    args["individuals"] = pick_individuals_arg(rng, desc, mode)
    if args["individuals"] is not None:
        args["individuals_form"] = rng.choice(["list", "list", "int32", "int64_strided", "tuple"])
    if rng.random() < 0.3:
        args["contig_id"] = rng.choice(["chr2", "c x", "", "22"])
    args["position_transform"] = rng.choice([None, None, None, None, "legacy", "legacy", "legacy", "plus1", "plus1",
                                             "fmax1", "fmax1", "double_round", "double_round", "intlist",
                                             "intlist", "drop_last"])
    args["isolated_as_missing"] = rng.choice([None, True, False])
    args["allow_position_zero"] = rng.choice([None, False, True, True])
    ncols, nindiv = expected_columns(desc, args)
    if rng.random() < 0.3:
        n = nindiv if (nindiv is not None and rng.random() < 0.9) else rng.randrange(0, 4)
        args["individual_names"] = ["s%d%s" % (j, rng.choice(["", "_x", " y"])) for j in range(n)]
        args["names_form"] = rng.choice(["list", "list", "tuple", "array", "str_array"])
    if rng.random() < 0.6:
        form = rng.choice(["bool_array", "bool_array", "bool_strided", "bool_reversed", "bool_col", "list", "list",
                           "int_list", "tuple", "int_array", "int32_array", "int_strided", "int8_array",
                           "uint8_array", "float_array"])
        n = ns if rng.random() < 0.93 else max(0, ns + rng.choice([-1, 1, 2]))
        args["site_mask"] = {"form": form, "values": random_mask_values(rng, n, form, rng.choice([0.3, 0.6, 1.0]))}
    if rng.random() < 0.5:
        form = rng.choice(["bool_array", "bool_strided", "bool_col", "list", "int_list", "int_array", "int_strided",
                           "uint8_array", "callable", "callable"])
        n = ncols if (ncols is not None and rng.random() < 0.93) else rng.randrange(0, 6)
        if form == "callable":
            rows = []
            for _j in range(ns):
                nn = n if rng.random() < 0.97 else n + 1
                rows.append([rng.random() < 0.4 for _ in range(nn)])
            args["sample_mask"] = {"form": "callable", "values": rows, "inner": rng.choice(["list", "int_array"])}
        else:
            args["sample_mask"] = {"form": form, "values": random_mask_values(rng, n, form, 0.4)}
    return {"desc": desc, "args": args, "perturb": rng.choice(["pile10", "strip"])}


def star_desc(nsamples, sites, L=10, isolated=()):
    """nsamples leaves under one root (those in `isolated` have no edge: missing data);
    sites = [(position, ancestral, [(node, derived)])]."""
    nodes = [[1, 0, NULL, NULL, ""] for _ in range(nsamples)] + [[0, 1, NULL, NULL, ""]]
    edges = [[0, L, nsamples, c, ""] for c in range(nsamples) if c not in isolated]
    srows, muts = [], []
    for s, (p, a, ms) in enumerate(sites):
        srows.append([p, a, ""])
        last = {}
        for u, d in ms:
            muts.append([s, u, d, last.get(u, NULL), None, ""])
            last[u] = len(muts) - 1
    return {"L": L, "scale": 1, "nodes": nodes, "edges": edges, "sites": srows, "mutations": muts,
            "individuals": [], "populations": [], "migrations": []}


def directed_cases():
    base_sites = [(0, "A", [(0, "T")]), (3, "A", [(1, "C")]), (7, "G", [(2, "T"), (2, "A")])]
    ten = [(5, "a0", [(0, "a%d" % k) for k in range(1, 10)])]
    nine = [(5, "a0", [(0, "a%d" % k) for k in range(1, 9)])]
    out = []
    for form in ("bool_array", "list", "tuple", "int_list", "int_array", "int8_array", "uint8_array", "float_array"):
        for vals in ([1, 0, 0], [0, 1, 0], [0, 0, 1], [1, 1, 1], [0, 0, 0], [1, 0, 1]):
            for apz in (None, True):
                out.append({"desc": star_desc(4, base_sites),
                            "args": {"site_mask": {"form": form, "values": vals}, "allow_position_zero": apz}})
        out.append({"desc": star_desc(3, base_sites[:1]), "args": {"site_mask": {"form": form, "values": [1]}}})
        out.append({"desc": star_desc(3, base_sites[1:]), "args": {"site_mask": {"form": form, "values": [1, 0]}}})
        out.append({"desc": star_desc(3, base_sites[1:2] + ten), "args": {"site_mask": {"form": form, "values": [0, 1]}}})
    for sites, mask in ((ten, None), (nine, None), (ten, [1]), (base_sites[1:] + [(9, "a0", ten[0][2])], [0, 0, 1])):
        a = {"allow_position_zero": True}
        if mask is not None:
            a["site_mask"] = {"form": "bool_array", "values": mask}
        out.append({"desc": star_desc(3, sites), "args": a})
    # exactly the documented maximum of 9 alleles, with and without missing data / masks;
    # 10 alleles with missing data
    for sites in (nine, ten):
        for iam in (None, True, False):
            for sm in (None, {"form": "list", "values": [0, 0, 1, 0]}, {"form": "callable", "values": [[0, 1, 0, 0]]}):
                a = {"isolated_as_missing": iam}
                if sm is not None:
                    a["sample_mask"] = sm
                out.append({"desc": star_desc(4, sites, isolated=(3,)), "args": a})
                out.append({"desc": star_desc(4, sites), "args": dict(a)})
    out.append({"desc": star_desc(4, nine + [(7, "G", [(1, "T")])], isolated=(2, 3)), "args": {"ploidy": 2}})
    # a subset / permutation of the individuals with a fixed sample mask of the written length
    for inds, vals in (([1], [0, 1]), ([0], [1, 0]), ([2, 0], [0, 1, 1, 0]), ([1, 2], [1, 0, 0, 1]), (None, [0, 1, 0, 1, 0, 1])):
        for form in ("list", "bool_array", "int_array", "uint8_array", "callable"):
            d = star_desc(6, base_sites[1:], isolated=(5,))
            for u in range(6):
                d["nodes"][u][3] = u // 2
            d["individuals"] = [[0, [], [], ""] for _ in range(3)]
            sm = {"form": form, "values": [vals, vals] if form == "callable" else vals}
            out.append({"desc": d, "args": {"individuals": inds, "sample_mask": sm}})
    # capacity / width boundaries: 63, 64, 65, 127, 128, 129 written columns, ploidies that make
    # the template and the line lengths cross powers of two, a mask entry for every column
    for nsam in (63, 64, 65, 127, 128, 129):
        sites = [(3, "A", [(nsam - 1, "C"), (0, "G")]), (7, "G", [(nsam // 2, "T")])]
        for pl in sorted({1, 2 if nsam % 2 == 0 else nsam, nsam, 3 if nsam % 3 == 0 else 1, 5 if nsam % 5 == 0 else 1}):
            out.append({"desc": star_desc(nsam, sites, isolated=(1, nsam - 2)), "args": {"ploidy": pl}})
        out.append({"desc": star_desc(nsam, sites), "args": {
            "sample_mask": {"form": "bool_array", "values": [k % 3 == 0 for k in range(nsam)]}}})
    # edge-less end regions with sites in the gaps (every sample isolated there)
    d = star_desc(4, [(0.5, "A", [(0, "T")]), (1, "C", []), (4, "G", [(2, "T")]), (8, "T", [(1, "A")]), (9, "A", [])])
    d["edges"] = [[2, 7, 4, c, ""] for c in range(4)]
    for iam in (None, False):
        out.append({"desc": copy.deepcopy(d), "args": {"isolated_as_missing": iam, "allow_position_zero": True}})
        out.append({"desc": copy.deepcopy(d), "args": {"isolated_as_missing": iam, "ploidy": 2, "position_transform": "legacy"}})
    # zero samples / zero sites / zero nodes
    d = star_desc(2, base_sites[1:])
    for nd in d["nodes"]:
        nd[0] = 0
    out.append({"desc": d, "args": {}})
    out.append({"desc": d, "args": {"ploidy": 1, "allow_position_zero": True}})
    out.append({"desc": star_desc(2, []), "args": {}})
    out.append({"desc": star_desc(4, []), "args": {"ploidy": 2, "site_mask": {"form": "list", "values": []}}})
    out.append({"desc": {"L": 3, "scale": 1, "nodes": [], "edges": [], "sites": [], "mutations": [],
                         "individuals": [], "populations": [], "migrations": []}, "args": {}})
    # sample masks in every form incl. a callable, ploidy 2
    for form in ("bool_array", "list", "int_list", "int_array", "uint8_array"):
        out.append({"desc": star_desc(4, base_sites[1:]),
                    "args": {"ploidy": 2, "sample_mask": {"form": form, "values": [0, 1, 0, 1]}}})
    out.append({"desc": star_desc(4, base_sites[1:]),
                "args": {"ploidy": 2, "sample_mask": {"form": "callable", "values": [[1, 0, 0, 0], [0, 0, 1, 1]]},
                         "site_mask": {"form": "bool_array", "values": [1, 0]}}})
    for c in out:
        c.setdefault("perturb", "pile10")
    return out


# ----------------------------------------------------------------------------------
# families
# ----------------------------------------------------------------------------------


def _describe(case, obs):
    args = case["args"]
    sm, sa = args.get("site_mask"), args.get("sample_mask")
    main = obs.get("main", {})
    return {
        "verdict": verdict_of(main) if main else "?",
        "site_mask_form": sm["form"] if sm else "none",
        "sample_mask_form": sa["form"] if sa else "none",
        "transform": str(args.get("position_transform")),
        "isolated_as_missing": str(args.get("isolated_as_missing")),
        "allow_position_zero": str(args.get("allow_position_zero")),
        "individuals_arg": "none" if args.get("individuals") is None else "given",
        "individuals_table": min(len(case["desc"]["individuals"]), 4),
        "ploidy": str(args.get("ploidy")),
        "max_alleles": max([len(site_alleles(s)) for s in obs["facts"]["sites"]] + [0]) if "facts" in obs else -1,
        "sites": len(case["desc"]["sites"]),
        "expected": (lambda e: e["verdict"] + ":" + (e["reasons"][0].split(" at site")[0] if e["reasons"] else ""))(expect(case, obs["facts"])) if "facts" in obs else "?",
    }


class Vcf(Family):
    name = "vcf"
    workers = 8
    timeout = 60.0
    prelude = "From TskVerif Require Import Base.Common C16.Model.\nOpen Scope Z_scope."

    def generate(self, rng, tier):
        n = 1400 if tier == "quick" else 20000
        for k in range(n):
            yield gen_case(rng, many_alleles=(k % 7 == 0))

    def observe(self, case):
        return observe_case(case)

    def oracle(self, case, obs):
        return oracle_case(case, obs)

    def coq_check(self, case, obs):
        return coq_term(case, obs)

    def nontrivial(self, case, obs):
        return "text" in obs.get("main", {}) and obs["main"]["text"].count("\n") > 6 \
            and len(obs["facts"]["samples"]) > 0

    def describe(self, case, obs):
        return _describe(case, obs)

    def shrink(self, case):
        d = case["desc"]
        for k in range(len(d["sites"])):
            def fn(s, row, ms, k=k):
                return None if s == k else (row, ms)
            c = copy.deepcopy(case)
            c["desc"] = rewrite_sites(d, fn)
            for key in ("site_mask", "sample_mask"):
                m = c["args"].get(key)
                if m is None:
                    continue
                if key == "site_mask" or m["form"] == "callable":
                    if len(m["values"]) == len(d["sites"]):
                        m["values"] = m["values"][:k] + m["values"][k + 1:]
            yield c
        for key in ("sample_mask", "individual_names", "contig_id", "position_transform", "isolated_as_missing"):
            if case["args"].get(key) is not None:
                c = copy.deepcopy(case)
                c["args"][key] = None
                yield c


class Directed(Vcf):
    name = "directed"

    def generate(self, rng, tier):
        return directed_cases()


# ----------------------------------------------------------------------------------
# Coq terms
# ----------------------------------------------------------------------------------

ERR_CODE = {"ValueError": 1, "TypeError": 2, "IndexError": 3}


def zc(n):
    n = int(n)
    return "(%d)" % n if n < 0 else "%d" % n


def zl(xs):
    return "[" + "; ".join(zc(x) for x in xs) + "]"


def bl(xs):
    return "[" + "; ".join(cbool(x) for x in xs) + "]"


def cbytes(sv):
    if isinstance(sv, str):
        sv = sv.encode("utf8")
    return zl(list(sv))


def mask_term(spec):
    if spec is None:
        return "MNone"
    form, v = spec["form"], spec["values"]
    if form in ("bool_array", "bool_strided", "bool_reversed", "bool_col"):
        return "(MBoolArray %s)" % bl(v)
    if form in ("list", "tuple", "int_list"):
        return "(MPyList %s)" % bl(v)
    if form in ("int_array", "int8_array", "int32_array", "int_strided"):
        return "(MIntArray %s)" % zl(v)
    if form == "uint8_array":
        return "(MUIntArray 8 %s)" % zl([x % 256 for x in v])
    if form == "float_array":
        return "(MFloatArray %s)" % bl(v)
    raise ValueError(form)


def coq_term(case, obs):
    facts, main, args = obs["facts"], obs["main"], case["args"]
    if "build_err" in main:
        return None
    exp = expect(case, facts)
    if exp["verdict"] == "nosamples" or exp.get("stage") == "init":
        return None
    if main.get("err") == "LibraryError" or exp["verdict"] == "LibraryError":
        return None
    groups = exp["groups"]
    cols = [u for g in groups for u in g]
    col_of = {u: k for k, u in enumerate(facts["samples"])}
    if any(u not in col_of for u in cols):
        return None
    pos = [st[0] for st in facts["sites"]]
    tp, cl, raw = expected_positions(args.get("position_transform"), pos, facts["L"], want_raw=True)
    smask = args.get("sample_mask")
    sites = []
    for j, st in enumerate(facts["sites"]):
        if smask is None:
            m = "None"
        elif smask["form"] == "callable":
            m = "(Some %s)" % bl(smask["values"][j])
        else:
            m = "(Some %s)" % bl(mask_bools(smask, 0))
        sites.append("mk_site %s %s %s %s" % (zc(tp[j]), "[" + "; ".join(cbytes(a) for a in site_alleles(st)) + "]",
                                             zl(facts["G"][j][col_of[u]] for u in cols), m))
    contig = "1" if args.get("contig_id") is None else args["contig_id"]
    inp = "(mk_input %s %s [%s] %s %s)" % (cbytes(contig), zl(len(g) for g in groups), "; ".join(sites),
                                           mask_term(args.get("site_mask")), cbool(bool(args.get("allow_position_zero"))))
    terms = []
    if "err" in main:
        if main["err"] not in ERR_CODE:
            return None
        terms.append("lines_eqb (vcf_body_current %s) (Err %d)" % (inp, ERR_CODE[main["err"]]))
    else:
        lines = main["text"].split("\n")
        k = next(i for i, ln in enumerate(lines) if ln.startswith("#CHROM"))
        body = [ln + "\n" for ln in lines[k + 1:-1]]
        terms.append("lines_eqb (vcf_body_current %s) (Ok [%s])" % (inp, "; ".join(cbytes(b) for b in body)))
        names = args.get("individual_names")
        nm = "None" if names is None else "(Some [%s])" % "; ".join(cbytes(x) for x in names)
        terms.append("res_eqb zlist_eqb (do ns <- header_names %s %d%%nat; Ok (chrom_line ns)) (Ok %s)"
                     % (nm, len(groups), cbytes(lines[k])))
        terms.append("res_eqb (list_eqb zlist_eqb) (do ns <- header_names %s %d%%nat; "
                     "Ok (vcf_header %s %s (contig_length %s %s) ns)) (Ok [%s])"
                     % (nm, len(groups), cbytes(facts["version"]), cbytes(contig), zc(raw), zl(tp),
                        "; ".join(cbytes(x) for x in lines[:k + 1])))
        clen = [ln for ln in lines[:k] if ln.startswith("##contig=")][0]
        length = clen.rsplit("length=", 1)[1].rstrip(">")
        terms.append("(contig_length %s %s =? %s)" % (zc(raw), zl(tp), zc(int(length))))
    if args.get("position_transform") == "legacy":
        terms.append("zlist_eqb (legacy_transform 0 %s) %s" % (zl(py_round(x) for x in pos), zl(tp)))
    return "(" + " && ".join(terms) + ")"


# ----------------------------------------------------------------------------------
# the sample-to-individual mapping, observed on VcfWriter itself
# ----------------------------------------------------------------------------------


def gen_mapping_case(rng):
    desc = gen_ts.random_desc(rng, max_nodes=9, max_L=3, max_sites=0, max_muts=0, metadata=False,
                              individuals=False, populations=False, p_internal_sample=0.25)
    desc, _pi = gen_ts.permute_node_ids(rng, desc, p=0.5)
    mode = rng.choice(["none", "none", "all", "all", "all_shuffled", "diploid", "subset", "partial", "bad",
                       "bad", "empty_table"])
    impose_layout(rng, desc, mode)
    for nd in desc["nodes"]:
        if rng.random() < 0.15:
            nd[0] |= rng.choice([1 << 16, 1 << 19, 1 << 31])
    args = {}
    if rng.random() < (0.6 if mode == "none" else 0.15):
        args["ploidy"] = rng.choice([1, 2, 2, 3, 4, 5, 0, -1])
    args["individuals"] = pick_individuals_arg(rng, desc, mode)
    return {"desc": desc, "args": args}


class Mapping(Family):
    name = "mapping"
    workers = 4
    prelude = "From TskVerif Require Import Base.Common C16.Model.\nOpen Scope Z_scope."

    def generate(self, rng, tier):
        for _ in range(1200 if tier == "quick" else 12000):
            yield gen_mapping_case(rng)

    def observe(self, case):
        import tskit.vcf
        ts = gen_ts.build_tables(case["desc"]).tree_sequence()
        a = case["args"]
        obs = {"node_flags": [int(f) for f in ts.tables.nodes.flags],
               "node_individual": [int(i) for i in ts.tables.nodes.individual],
               "num_individuals": ts.num_individuals, "samples": [int(u) for u in ts.samples()]}
        try:
            w = tskit.vcf.VcfWriter(ts, ploidy=a.get("ploidy"), contig_id="1", individuals=a.get("individuals"),
                                    individual_names=None, position_transform=None, site_mask=None,
                                    sample_mask=None, isolated_as_missing=None, allow_position_zero=True)
        except Exception as e:
            obs["err"] = type(e).__name__
            obs["msg"] = str(e)[:100]
            return obs
        samples = obs["samples"] if w.samples is None else [int(u) for u in w.samples]
        groups, k = [], 0
        for p in w.individual_ploidies:
            groups.append(samples[k:k + int(p)])
            k += int(p)
        obs["groups"] = groups
        obs["leftover"] = len(samples) - k
        return obs

    def oracle(self, case, obs):
        a = case["args"]
        v, lay = expected_layout(obs, a.get("ploidy"), a.get("individuals"))
        out = []
        if v == "nosamples":
            if "err" in obs and obs["err"] != "ValueError":
                out.append(("zero-samples-%s" % obs["err"].lower(), "no sample nodes: %s" % obs.get("msg")))
            return out
        got = obs.get("err", "ok")
        if v != got:
            if lay == "all-nonsample":
                out.append(("individuals-all-nonsample-" + ("accepted" if got == "ok" else got.lower()),
                            "documented as an error, got %s" % got))
            else:
                out.append(("mapping-verdict", "expected %s (%s), got %s %s" % (v, lay, got, obs.get("msg", ""))))
            return out
        if v == "ok":
            if obs["groups"] != lay or obs["leftover"]:
                out.append(("mapping-groups", "expected %r got %r (+%d)" % (lay, obs["groups"], obs["leftover"])))
            # the regrouping is a partition of the output columns, in order
            flat = [u for g in obs["groups"] for u in g]
            if a.get("individuals") is None and sorted(flat) != sorted(obs["samples"]):
                out.append(("mapping-not-a-partition", "columns %r, samples %r" % (flat, obs["samples"])))
        return out

    def coq_check(self, case, obs):
        a = case["args"]
        nodes = "[" + "; ".join("(%s, %s)" % (cbool(f & 1), zc(i))
                                for f, i in zip(obs["node_flags"], obs["node_individual"])) + "]"
        pl = "None" if a.get("ploidy") is None else "(Some %s)" % zc(a["ploidy"])
        inds = "None" if a.get("individuals") is None else "(Some %s)" % zl(a["individuals"])
        if "err" in obs:
            if obs["err"] not in ERR_CODE:
                return None
            exp = "(Err %d)" % ERR_CODE[obs["err"]]
        else:
            exp = "(Ok [%s])" % "; ".join(zl(g) for g in obs["groups"])
        return "groups_eqb (make_sample_mapping %s %s %s %s) %s" % (nodes, zc(obs["num_individuals"]), pl, inds, exp)

    def nontrivial(self, case, obs):
        return "groups" in obs and len(obs["groups"]) > 1

    def describe(self, case, obs):
        a = case["args"]
        return {"verdict": obs.get("err", "ok"), "ploidy": str(a.get("ploidy")),
                "individuals_arg": "none" if a.get("individuals") is None else "given",
                "individuals_table": min(obs["num_individuals"], 4),
                "groups": min(len(obs.get("groups", [])), 5)}


# ----------------------------------------------------------------------------------
# end to end: tables + tree arrays -> VCF through C03's decode model
# ----------------------------------------------------------------------------------


def tree_arrays(ts, x):
    """arrays of a fresh tree (sample lists on) at position x — what genotypes.c reads"""
    import tskit
    t = tskit.Tree(ts, sample_lists=True)
    t.seek(x)
    n = ts.num_nodes
    return {"lc": [int(v) for v in t.left_child_array], "rs": [int(v) for v in t.right_sib_array],
            "ls": [int(t.left_sample(u)) for u in range(n)], "rsam": [int(t.right_sample(u)) for u in range(n)],
            "ns": [int(t.next_sample(k)) for k in range(ts.num_samples)], "vr": int(t.virtual_root)}


class Decoded(Family):
    """The VCF body from the tables: make_sample_mapping -> C03 variant_init/decode per site ->
    vcf_body_current, against as_vcf.  Genotypes, alleles and has_missing_data are computed by
    the models, not taken from the implementation."""
    name = "decoded"
    workers = 6
    shard = 100
    timeout = 60.0
    prelude = ("From TskVerif Require Import Base.Common C16.Model C16.Decode.\n"
               "From TskVerif Require C03.Model.\nOpen Scope Z_scope.")

    def generate(self, rng, tier):
        n = 350 if tier == "quick" else 5000
        k = 0
        while k < n:
            c = gen_case(rng, many_alleles=(k % 5 == 0))
            a = c["args"]
            if a.get("individuals") is not None and len(set(a["individuals"])) != len(a["individuals"]):
                continue
            if a.get("position_transform") == "drop_last":
                a["position_transform"] = None
            if a.get("individual_names") is not None:
                a["individual_names"] = None
            k += 1
            yield c

    def observe(self, case):
        desc, args = case["desc"], case["args"]
        iam = args.get("isolated_as_missing")
        iam = True if iam is None else iam
        facts = table_facts(desc, iam)
        obs = {"facts": facts, "main": run_vcf(desc, args, args.get("site_mask"), args.get("sample_mask"))}
        ts = gen_ts.build_tables(desc).tree_sequence()
        obs["trees"] = [tree_arrays(ts, float(st[0])) for st in facts["sites"]] if ts.num_nodes else []
        obs["mut_nodes"] = [[int(m.node) for m in ts.tables.mutations if m.site == j] for j in range(ts.num_sites)]
        return obs

    def oracle(self, case, obs):
        return check_run(case, obs["facts"], obs["main"], expect(case, obs["facts"]))

    def coq_check(self, case, obs):
        facts, main, args = obs["facts"], obs["main"], case["args"]
        if "build_err" in main or not facts["node_flags"]:
            return None
        if "err" in main:
            code = {"ValueError": 1, "TypeError": 2, "IndexError": 3, "LibraryError": 4}.get(main["err"])
            if code is None:
                return None
            expected = "(Err %d)" % code
        else:
            lines = main["text"].split("\n")
            k = next(i for i, ln in enumerate(lines) if ln.startswith("#CHROM"))
            expected = "(Ok [%s])" % "; ".join(cbytes(ln + "\n") for ln in lines[k + 1:-1])
        pos = [st[0] for st in facts["sites"]]
        tp, _cl = expected_positions(args.get("position_transform"), pos, facts["L"])
        ns = len(pos)
        smask = args.get("sample_mask")
        sites = []
        for j, st in enumerate(facts["sites"]):
            a = obs["trees"][j]
            tree = "(C03.Model.mkTree %s %s %s %s %s %s)" % (zl(a["lc"]), zl(a["rs"]), zl(a["ls"]), zl(a["rsam"]),
                                                           zl(a["ns"]), zc(a["vr"]))
            site = "(C03.Model.mkSite %s [%s])" % (cbytes(st[1]), "; ".join(
                "(%s, %s)" % (zc(n), cbytes(d)) for n, d in zip(obs["mut_nodes"][j], st[2])))
            if smask is None:
                m = "None"
            elif smask["form"] == "callable":
                m = "(Some %s)" % bl(smask["values"][j])
            else:
                m = "(Some %s)" % bl(mask_bools(smask, 0))
            sites.append("mk_site_in %s %s %s %s" % (tree, site, zc(tp[j]), m))
        nodes = "[" + "; ".join("(%s, %s)" % (cbool(f & 1), zc(i))
                                for f, i in zip(facts["node_flags"], facts["node_individual"])) + "]"
        imap = [NULL] * len(facts["node_flags"])
        for kk, u in enumerate(facts["samples"]):
            imap[u] = kk
        iam = args.get("isolated_as_missing")
        iam = True if iam is None else iam
        contig = "1" if args.get("contig_id") is None else args["contig_id"]
        pl = "None" if args.get("ploidy") is None else "(Some %s)" % zc(args["ploidy"])
        inds = "None" if args.get("individuals") is None else "(Some %s)" % zl(args["individuals"])
        return ("lines_eqb (vcf_end_to_end %s %s %s %s %s %s %s %s %s [%s] %s %s) %s"
                % (nodes, zl(facts["node_flags"]), zc(facts["num_individuals"]), pl, inds, zl(facts["samples"]),
                   zl(imap), cbool(iam), cbytes(contig), "; ".join(sites), mask_term(args.get("site_mask")),
                   cbool(bool(args.get("allow_position_zero"))), expected))

    def nontrivial(self, case, obs):
        return "text" in obs.get("main", {}) and obs["main"]["text"].count("\n") > 6

    def describe(self, case, obs):
        return {"verdict": verdict_of(obs["main"]), "sites": len(case["desc"]["sites"]),
                "individuals_arg": "none" if case["args"].get("individuals") is None else "given"}


FAMILIES = [Directed, Mapping, Decoded, Vcf]
NOT_COVERED = [
    "alleles / names / contig ids containing TAB, NL or ',' (documented as unchecked, produce a broken VCF)",
    "write_vcf to a path or binary stream, the CLI wrapper (tskit vcf)",
    "tree sequences with more than a dozen nodes / 4 sites per case",
]
