"""C02 — only table collections meeting the data-model requirements become tree sequences.

Families
  valid     valid table collections (from harness/gen_ts.py, flattened, several index modes)
  stream    the MUTATION STREAM: every single-field departure from a valid collection
            (each column of each table set to boundary values, left==right, swapped /
            duplicated rows, stale and user-supplied indexes) and random pairs of them
  f1        the exhaustive small scope around finding F1 (user-supplied removal orders)

Oracle (independent; written from /repo/docs/data-model.md, not from tables.c):
  valid_ts(T) evaluates every requirement of the data model on the flat tables T;
  tree_sequence() must succeed iff valid_ts(T) == [];  a rejection must be a
  tskit.LibraryError (not a crash / hang / other exception) and must leave
  tables.asdict() byte-identical;  the same tables through dump() -> tskit.load() must
  give the same verdict;  an accepted collection must produce exactly the trees the edge
  rows define (parent map per breakpoint interval).

Correspondence: verdict (accepted + num_trees | TSK_ERR_* code) of the implementation vs the
Gallina model C02.Model.check on the same tables, with finite doubles replaced by their
rank (the checks only compare coordinates/times, so this is an order isomorphism).
"""
import math
import os
import re
import tempfile

from harness import common, gen_ts
from harness.common import cz, clist
from harness.runner import Family

NULL = -1
INT_MAX = 2 ** 31 - 1
SPECIALS = ("nan", "inf", "-inf", "unk")

# --------------------------------------------------------------------------------------
# flat tables  T  (JSON-able).  A coordinate / time cell is a finite python float or one
# of the strings "nan" "inf" "-inf" "unk" (unk = tskit.UNKNOWN_TIME, a NaN with a payload).
#   T = {"L": x, "npop": n, "inds": [[parents...]], "nodes": [[time, pop, ind, flags]],
#        "edges": [[left, right, parent, child]], "sites": [[pos]],
#        "muts": [[site, node, parent, time]], "migs": [[left, right, node, src, dst, time]],
#        "index": None | {"I": [...], "O": [...]}}
# --------------------------------------------------------------------------------------


def isnum(v):
    return not isinstance(v, str)


def from_desc(desc):
    """gen_ts desc -> flat, *sorted* tables (edges by (time[parent], parent, child, left))."""
    s = desc.get("scale", 1)
    times = [2.0 * n[1] for n in desc["nodes"]]          # even times leave room in between
    edges = sorted(([l * s, r * s, p, c] for l, r, p, c, _m in desc["edges"]),
                   key=lambda e: (times[e[2]], e[2], e[3], e[0]))
    T = {
        "L": float(desc["L"] * s),
        "npop": len(desc["populations"]),
        "inds": [list(par) for _fl, _loc, par, _m in desc["individuals"]],
        "nodes": [[times[i], n[2], n[3], n[0]] for i, n in enumerate(desc["nodes"])],
        "edges": [[float(l), float(r), p, c] for l, r, p, c in edges],
        "sites": [[float(pos * s)] for pos, _a, _m in desc["sites"]],
        "muts": [[m[0], m[1], m[3], "unk" if m[4] is None else 2.0 * m[4]] for m in desc["mutations"]],
        "migs": [[float(l * s), float(r * s), nd, a, b, 2.0 * t] for l, r, nd, a, b, t, _m in desc["migrations"]],
        "index": None,
    }
    return T


def make_index(T, rng=None):
    """An index written from the definition: insertion order sorted by left, removal order by
    right; ties in random order when rng is given (any tie order is a consistent index),
    otherwise in the canonical (time[parent], parent, child) order."""
    n = len(T["edges"])
    t = [x[0] for x in T["nodes"]]

    def tie(e):
        return rng.random() if rng else 0

    ids = list(range(n))
    if rng:
        I = sorted(ids, key=lambda e: (T["edges"][e][0], tie(e)))
        O = sorted(ids, key=lambda e: (T["edges"][e][1], tie(e)))
    else:
        I = sorted(ids, key=lambda e: (T["edges"][e][0], t[T["edges"][e][2]], T["edges"][e][2], T["edges"][e][3]))
        O = sorted(ids, key=lambda e: (T["edges"][e][1], -t[T["edges"][e][2]], -T["edges"][e][2], -T["edges"][e][3]))
    return {"I": I, "O": O}


# --------------------------------------------------------------------------------------
# The independent oracle: the data-model requirements, clause by clause, from the docs
# (docs/data-model.md "Valid tree sequence requirements") + the property statement.
# Returns the list of violated clause names ([] = valid).
# --------------------------------------------------------------------------------------

def valid_ts(T):
    bad = []

    def req(cond, name):
        if not cond and name not in bad:
            bad.append(name)

    L = T["L"]
    Lok = isnum(L) and L > 0
    req(isnum(L), "seqlen-nonfinite")
    req(not isnum(L) or L > 0, "seqlen-nonpositive")
    N, S, M, P, NI = len(T["nodes"]), len(T["sites"]), len(T["muts"]), T["npop"], len(T["inds"])
    E = len(T["edges"])

    def node_ok(u):
        return 0 <= u < N

    def time_of(u):
        v = T["nodes"][u][0]
        return v if isnum(v) else None

    # individuals: parent references valid or null (docs); nobody is their own parent
    # (decision: a self reference is not a valid parent reference; recorded in notes/C02.md)
    for j, pars in enumerate(T["inds"]):
        for p in pars:
            req(p == NULL or 0 <= p < NI, "individual-parent-range")
            req(p != j, "individual-self-parent")
    # nodes
    for t, pop, ind, _fl in T["nodes"]:
        req(isnum(t), "node-time-nonfinite")
        req(pop == NULL or 0 <= pop < P, "node-population-range")
        req(ind == NULL or 0 <= ind < NI, "node-individual-range")
    # edges: simple requirements
    for l, r, p, c in T["edges"]:
        req(node_ok(p), "edge-parent-range")
        req(node_ok(c), "edge-child-range")
        req(isnum(l) and isnum(r), "edge-coords-nonfinite")
        if isnum(l) and isnum(r):
            req(0 <= l, "edge-left-negative")
            req(l < r, "edge-interval-empty")
            if Lok:
                req(r <= L, "edge-right-beyond-L")
        if node_ok(p) and node_ok(c) and time_of(p) is not None and time_of(c) is not None:
            req(time_of(p) > time_of(c), "edge-parent-not-older")
    # the remaining edge requirements are only meaningful once ids/coords are sane
    sane = not any(b.startswith(("edge-", "node-time")) for b in bad)
    if sane:
        rows = T["edges"]
        # unique (no duplicate edges)
        req(len({tuple(e) for e in rows}) == E, "edge-duplicate")
        # nondecreasing parent time
        for a, b in zip(rows, rows[1:]):
            req(time_of(a[2]) <= time_of(b[2]), "edge-order-parent-time")
        # all edges of a parent contiguous
        seen, last = set(), None
        for e in rows:
            if e[2] != last:
                req(e[2] not in seen, "edge-parent-noncontiguous")
                seen.add(e[2])
                last = e[2]
        # within a parent sorted by child then left
        for a, b in zip(rows, rows[1:]):
            if a[2] == b[2]:
                req(a[3] <= b[3], "edge-order-child")
                if a[3] == b[3]:
                    req(a[0] <= b[0], "edge-order-left")
                    req(a[0] != b[0], "edge-duplicate")
        # disjoint child intervals
        by_child = {}
        for e in rows:
            by_child.setdefault(e[3], []).append((e[0], e[1]))
        for ivs in by_child.values():       # pairwise disjoint <=> disjoint when ordered by left
            ivs.sort()
            for a, b in zip(ivs, ivs[1:]):
                req(a[1] <= b[0], "edge-child-intervals-overlap")
    # sites
    for (pos,) in T["sites"]:
        req(isnum(pos), "site-position-nonfinite")
        if isnum(pos):
            req(0 <= pos, "site-position-negative")
            if Lok:
                req(pos < L, "site-position-beyond-L")
    if all(isnum(p[0]) for p in T["sites"]):
        for (a,), (b,) in zip(T["sites"], T["sites"][1:]):
            req(a != b, "site-duplicate-position")
            req(a <= b, "site-unsorted")
    # mutations
    for j, (site, node, par, t) in enumerate(T["muts"]):
        req(0 <= site < S, "mutation-site-range")
        req(node_ok(node), "mutation-node-range")
        req(par == NULL or 0 <= par < M, "mutation-parent-range")
        req(t == "unk" or isnum(t), "mutation-time-nonfinite")
        if isnum(t) and node_ok(node) and time_of(node) is not None:
            req(t >= time_of(node), "mutation-time-younger-than-node")
        if par != NULL and 0 <= par < M:
            req(par < j, "mutation-parent-not-before-child")
            req(T["muts"][par][0] == site, "mutation-parent-other-site")
            pt = T["muts"][par][3]
            if isnum(t) and isnum(pt):
                req(t <= pt, "mutation-time-older-than-parent-mutation")
    for a, b in zip(T["muts"], T["muts"][1:]):
        req(a[0] <= b[0], "mutation-unsorted-site")
    by_site = {}
    for site, node, par, t in T["muts"]:
        by_site.setdefault(site, []).append(t)
    for site, ts in by_site.items():
        req(not (any(t == "unk" for t in ts) and any(t != "unk" for t in ts)), "mutation-known-unknown-mixed")
        known = [t for t in ts if isnum(t)]
        for a, b in zip(known, known[1:]):
            req(a >= b, "mutation-unsorted-time")
    # mutation time strictly below the time of the node above it in the tree at its site
    if sane:
        for site, node, par, t in T["muts"]:
            if isnum(t) and 0 <= site < S and node_ok(node) and isnum(T["sites"][site][0]):
                x = T["sites"][site][0]
                for l, r, p, c in T["edges"]:
                    if c == node and l <= x < r:
                        req(t < time_of(p), "mutation-time-not-below-parent-node")
    # migrations
    for l, r, node, src, dst, t in T["migs"]:
        req(node_ok(node), "migration-node-range")
        req(0 <= src < P and 0 <= dst < P, "migration-population-range")
        req(isnum(t), "migration-time-nonfinite")
        req(isnum(l) and isnum(r), "migration-coords-nonfinite")
        if isnum(l) and isnum(r):
            req(0 <= l, "migration-left-negative")
            req(l < r, "migration-interval-empty")
            if Lok:
                req(r <= L, "migration-right-beyond-L")
    if all(isnum(m[5]) for m in T["migs"]):
        for a, b in zip(T["migs"], T["migs"][1:]):
            req(a[5] <= b[5], "migration-unsorted-time")
    # index (when supplied; tree_sequence() builds one when there is none)
    if T["index"] is not None:
        I, O = T["index"]["I"], T["index"]["O"]
        req(all(0 <= e < E for e in I), "index-insertion-range")
        req(all(0 <= e < E for e in O), "index-removal-range")
        if all(0 <= e < E for e in I) and sorted(I) != list(range(E)):
            req(False, "index-insertion-perm")
        if all(0 <= e < E for e in O) and sorted(O) != list(range(E)):
            # Input class of finding F1: every id that occurs more than once ends at L (repeats
            # of an edge ending before L are met by the sweep itself, not by its trailing loop).
            import collections
            rep = [e for e, k in collections.Counter(O).items() if k > 1]
            atL = all(T["edges"][e][1] == L for e in rep)
            req(False, "index-removal-repeats-only-at-L" if atL else "index-removal-perm")
        if sane and sorted(I) == list(range(E)):
            for a, b in zip(I, I[1:]):
                req(T["edges"][a][0] <= T["edges"][b][0], "index-insertion-unsorted")
        if sane and all(0 <= e < E for e in O):
            for a, b in zip(O, O[1:]):
                req(T["edges"][a][1] <= T["edges"][b][1], "index-removal-unsorted")
    return bad


def documented_not_checked(T):
    """Requirements that docs/data-model.md lists for mutations and migrations but explicitly
    says may not be detected at load time.  Evaluated only on tables that satisfy valid_ts; the
    gate accepts such tables, which is reported under explicit 'documented-not-checked:' keys."""
    out = []
    tnode = [n[0] for n in T["nodes"]]

    def parent_at(u, x):
        for l, r, p, c in T["edges"]:
            if c == u and l <= x < r:
                return p
        return NULL

    # "If another mutation occurs on the tree above the mutation in question, its ID must be
    #  listed as the parent"
    by_site = {}
    for j, m in enumerate(T["muts"]):
        by_site.setdefault(m[0], []).append(j)
    for site, ids in by_site.items():
        x = T["sites"][site][0]
        for j in ids:
            node = T["muts"][j][1]
            same = [k for k in ids if k < j and T["muts"][k][1] == node]
            if same:
                expected = max(same)
            else:
                expected, u, steps = NULL, parent_at(node, x), 0
                while u != NULL and steps <= len(T["nodes"]):
                    on = [k for k in ids if T["muts"][k][1] == u]
                    if on:
                        expected = max(on)
                        break
                    u, steps = parent_at(u, x), steps + 1
            if T["muts"][j][2] != expected and "mutation-parent-topology" not in out:
                out.append("mutation-parent-topology")
    # "time must be strictly between the time of its node and the time of any ancestral node from
    #  which that node inherits on the segment [left, right)"
    for l, r, node, src, dst, t in T["migs"]:
        ok = t > tnode[node]
        for el, er, p, c in T["edges"]:
            if c == node and el < r and l < er and not t < tnode[p]:
                ok = False
        if not ok and "migration-time" not in out:
            out.append("migration-time")
    # "The population of any such ancestor matching source, if another migration does not intervene":
    # read as population bookkeeping along the lineage of `node` on the segment, backwards in time:
    # the lineage is in population[node] until its first migration, each migration leaves from where
    # the previous one arrived, and the parent on the segment lives where the last migration arrived.
    pop = [n[1] for n in T["nodes"]]
    for k, (l, r, node, src, dst, t) in enumerate(T["migs"]):
        same = [(m[5], j) for j, m in enumerate(T["migs"]) if j != k and m[2] == node and m[0] < r and l < m[1]]
        before = [x for x in same if x < (t, k)]
        after = [x for x in same if x > (t, k)]
        ok = True
        if before:
            ok = T["migs"][max(before)[1]][4] == src
        elif pop[node] != NULL:
            ok = pop[node] == src
        if ok and not after:
            for el, er, p, c in T["edges"]:
                if c == node and el < r and l < er and pop[p] != NULL and pop[p] != dst:
                    ok = False
        if not ok and "migration-population" not in out:
            out.append("migration-population")
    return out


def trees_by_definition(T):
    """[(left, right, sorted (child, parent) pairs)] for a valid T."""
    pts = {0.0, T["L"]}
    for l, r, p, c in T["edges"]:
        pts.add(l)
        pts.add(r)
    pts = sorted(pts)
    out = []
    for a, b in zip(pts, pts[1:]):
        out.append([a, b, sorted([c, p] for l, r, p, c in T["edges"] if l <= a < r)])
    return out


# --------------------------------------------------------------------------------------
# departures
# --------------------------------------------------------------------------------------

ID_COLS = {   # table -> [(column index, what the id refers to)]
    "nodes": [(1, "pop"), (2, "ind")],
    "edges": [(2, "node"), (3, "node")],
    "muts": [(0, "site"), (1, "node"), (2, "mut")],
    "migs": [(2, "node"), (3, "pop"), (4, "pop")],
}
COORD_COLS = {"edges": [0, 1], "sites": [0], "migs": [0, 1]}
TIME_COLS = {"nodes": [0], "muts": [3], "migs": [5]}


def copyT(T):
    out = {k: ([list(r) for r in v] if isinstance(v, list) else v) for k, v in T.items()}
    out["index"] = None if T["index"] is None else {"I": list(T["index"]["I"]), "O": list(T["index"]["O"])}
    return out


def count_of(T, what):
    return {"pop": T["npop"], "ind": len(T["inds"]), "node": len(T["nodes"]), "site": len(T["sites"]),
            "mut": len(T["muts"]), "edge": len(T["edges"])}[what]


def id_values(n):
    return sorted({-2, -1, 0, n - 1, n, n + 1, INT_MAX})


def coord_values(L):
    return [-1.0, math.nextafter(0.0, -1.0), 0.0, math.nextafter(0.0, 1.0), math.nextafter(L, 0.0), L,
            math.nextafter(L, math.inf), L + 1.0, "nan", "inf", "-inf", "unk"]


def time_values(cur, tmax):
    vals = [-1.0, 0.0, tmax, tmax + 1.0, "nan", "inf", "-inf", "unk"]
    if isnum(cur):
        vals += [cur - 1.0, cur + 1.0, cur + 2.0, math.nextafter(cur, math.inf), math.nextafter(cur, -math.inf)]
    return vals


def pick_rows(n, rng, k):
    if n <= k:
        return list(range(n))
    rows = {0, n - 1}
    while len(rows) < k:
        rows.add(rng.randrange(n))
    return sorted(rows)


def single_departures(T, rng, rows_per_col=3):
    """All single-field departures of T as (label, edit) pairs; edit is a function T -> None
    applied to a copy."""
    L = T["L"]
    tmax = max([n[0] for n in T["nodes"] if isnum(n[0])] + [0.0])
    out = []

    def setcell(tab, row, col, v):
        def f(X):
            X[tab][row][col] = v
        return f

    for tab, cols in ID_COLS.items():
        for col, what in cols:
            for row in pick_rows(len(T[tab]), rng, rows_per_col):
                # + the cell's own row index and the row count of its OWN table (ROUND5 class 6)
                for v in sorted(set(id_values(count_of(T, what))) | {row, len(T[tab])}):
                    if v != T[tab][row][col]:
                        out.append(("%s[%d].%d=id:%s" % (tab, row, col, id_label(v, count_of(T, what))), setcell(tab, row, col, v)))
    for tab, cols in COORD_COLS.items():
        for col in cols:
            for row in pick_rows(len(T[tab]), rng, rows_per_col):
                for v in coord_values(L):
                    if v != T[tab][row][col]:
                        out.append(("%s[%d].%d=coord:%s" % (tab, row, col, flabel(v, L)), setcell(tab, row, col, v)))
    for tab, cols in TIME_COLS.items():
        for col in cols:
            for row in pick_rows(len(T[tab]), rng, rows_per_col):
                for v in time_values(T[tab][row][col], tmax):
                    if v != T[tab][row][col]:
                        out.append(("%s[%d].%d=time:%s" % (tab, row, col, v if isinstance(v, str) else "num"), setcell(tab, row, col, v)))
    # relational boundaries: a cell set exactly to (and just beside) the value it is compared with
    def tnode(u):
        return T["nodes"][u][0] if 0 <= u < len(T["nodes"]) and isnum(T["nodes"][u][0]) else None

    for row in pick_rows(len(T["muts"]), rng, rows_per_col + 1):
        site, node, par, tm = T["muts"][row]
        cands = []
        if tnode(node) is not None:
            cands += [("node-time", tnode(node))]
        if 0 <= site < len(T["sites"]) and isnum(T["sites"][site][0]):
            x = T["sites"][site][0]
            for l, r, p, c in T["edges"]:
                if c == node and isnum(l) and isnum(r) and l <= x < r and tnode(p) is not None:
                    cands += [("parent-node-time", tnode(p))]
        if 0 <= par < len(T["muts"]) and isnum(T["muts"][par][3]):
            cands += [("parent-mutation-time", T["muts"][par][3])]
        if row > 0 and isnum(T["muts"][row - 1][3]):
            cands += [("previous-mutation-time", T["muts"][row - 1][3])]
        for what, val in cands:
            for lab, vv in (("=", val), ("-eps", math.nextafter(val, -math.inf)), ("+eps", math.nextafter(val, math.inf))):
                if vv != tm:
                    out.append(("muts[%d].3=time:%s%s" % (row, what, lab), setcell("muts", row, 3, vv)))
    for row in pick_rows(len(T["edges"]), rng, rows_per_col + 1):
        l, r, p, c = T["edges"][row]
        if tnode(p) is not None and tnode(c) is not None:
            out.append(("nodes[child of edge %d].0=time:parent-time" % row, setcell("nodes", c, 0, tnode(p))))
            out.append(("nodes[parent of edge %d].0=time:child-time" % row, setcell("nodes", p, 0, tnode(c))))
        for row2 in range(len(T["edges"])):
            l2, r2, p2, c2 = T["edges"][row2]
            if row2 != row and c2 == c and isnum(l2) and isnum(r2):
                out.append(("edges[%d].0=coord:left-of-edge-%d-same-child" % (row, row2), setcell("edges", row, 0, l2)))
                out.append(("edges[%d].1=coord:right-of-edge-%d-same-child" % (row, row2), setcell("edges", row, 1, r2)))
                out.append(("edges[%d].1=coord:just-past-left-of-edge-%d" % (row, row2), setcell("edges", row, 1, math.nextafter(l2, math.inf))))
    for row in range(1, len(T["edges"])):
        pa, pb = T["edges"][row - 1][2], T["edges"][row][2]
        if pa != pb and tnode(pa) is not None and tnode(pb) is not None and tnode(pa) != tnode(pb):
            out.append(("nodes[parent of edge %d].0=time:time-of-previous-parent" % row, setcell("nodes", pb, 0, tnode(pa))))
            out.append(("nodes[parent of edge %d].0=time:time-of-next-parent" % (row - 1), setcell("nodes", pa, 0, tnode(pb))))
            out.append(("nodes[parent of edge %d].0=time:just-below-previous-parent" % row,
                        setcell("nodes", pb, 0, math.nextafter(tnode(pa), -math.inf))))
    for row in pick_rows(len(T["edges"]), rng, rows_per_col):
        # an edge touching L exactly / one ulp inside, and a parent that exists elsewhere (contiguity)
        out.append(("edges[%d].1=coord:L" % row, setcell("edges", row, 1, L)))
        others = [e[2] for k, e in enumerate(T["edges"]) if e[2] != T["edges"][row][2]]
        if others:
            out.append(("edges[%d].2=id:other-parent" % row, setcell("edges", row, 2, others[0])))
            out.append(("edges[%d].2=id:other-parent-last" % row, setcell("edges", row, 2, others[-1])))
    for row in pick_rows(len(T["muts"]), rng, rows_per_col + 1):
        site, node, par, tm = T["muts"][row]
        # parent references around the row itself and across sites
        for lab, v in (("self", row), ("next", row + 1), ("previous", row - 1)):
            if 0 <= v < len(T["muts"]) and v != par:
                out.append(("muts[%d].2=id:%s" % (row, lab), setcell("muts", row, 2, v)))
        other = [k for k, m in enumerate(T["muts"]) if m[0] != site and k < row]
        if other:
            out.append(("muts[%d].2=id:earlier-mutation-at-other-site" % row, setcell("muts", row, 2, other[-1])))
    for row in range(len(T["migs"])):
        P = T["npop"]
        for col in (3, 4):
            for v in (P - 1, P):
                if v != T["migs"][row][col] and v >= 0:
                    out.append(("migs[%d].%d=id:%s" % (row, col, "npop-1" if v == P - 1 else "npop"), setcell("migs", row, col, v)))
    for row in range(len(T["sites"])):
        for other in (row - 1, row + 1):
            if 0 <= other < len(T["sites"]) and isnum(T["sites"][other][0]):
                out.append(("sites[%d].0=coord:position-of-site-%d" % (row, other), setcell("sites", row, 0, T["sites"][other][0])))
    for row in range(1, len(T["migs"])):
        if isnum(T["migs"][row - 1][5]):
            v0 = T["migs"][row - 1][5]
            out.append(("migs[%d].5=time:previous=" % row, setcell("migs", row, 5, v0)))
            out.append(("migs[%d].5=time:previous-eps" % row, setcell("migs", row, 5, math.nextafter(v0, -math.inf))))
    # node flags with application-defined bits: a sample stays a sample, a non-sample a non-sample
    for row in pick_rows(len(T["nodes"]), rng, rows_per_col):
        for v in (1 | 1 << 16, 1 | 1 << 19, 1 << 16, 2, 0xFFFFFFFF, 0xFFFFFFFE):
            if v != T["nodes"][row][3]:
                out.append(("nodes[%d].3=flags:%#x" % (row, v), setcell("nodes", row, 3, v)))
    # intervals one ulp wide, and times one ulp apart
    for tab in ("edges", "migs"):
        for row in pick_rows(len(T[tab]), rng, rows_per_col):
            l, r = T[tab][row][0], T[tab][row][1]
            if isnum(l) and isnum(r):
                out.append(("%s[%d].1=coord:left+ulp" % (tab, row), setcell(tab, row, 1, math.nextafter(l, math.inf))))
                out.append(("%s[%d].0=coord:right-ulp" % (tab, row), setcell(tab, row, 0, math.nextafter(r, -math.inf))))
    for row in pick_rows(len(T["edges"]), rng, rows_per_col):
        l, r, p, c = T["edges"][row]
        if tnode(p) is not None and tnode(c) is not None:
            out.append(("nodes[child of edge %d].0=time:parent-time-ulp" % row, setcell("nodes", c, 0, math.nextafter(tnode(p), -math.inf))))
            out.append(("nodes[child of edge %d].0=time:parent-time+ulp" % row, setcell("nodes", c, 0, math.nextafter(tnode(p), math.inf))))
    for row in range(1, len(T["sites"])):
        v0 = T["sites"][row - 1][0]
        if isnum(v0):
            out.append(("sites[%d].0=coord:previous+ulp" % row, setcell("sites", row, 0, math.nextafter(v0, math.inf))))
            out.append(("sites[%d].0=coord:previous-ulp" % row, setcell("sites", row, 0, math.nextafter(v0, -math.inf))))
    # individual parents
    NI = len(T["inds"])
    for row in pick_rows(NI, rng, rows_per_col):
        for k in range(len(T["inds"][row])):
            for v in id_values(NI) + [row, row + 1, row - 1]:      # self, forward and backward reference
                def f(X, row=row, k=k, v=v):
                    X["inds"][row][k] = v
                out.append(("inds[%d].parents[%d]=id:%s" % (row, k, "self" if v == row else id_label(v, NI)), f))
        def g(X, row=row):
            X["inds"][row].append(row)
        out.append(("inds[%d].parents+=self" % row, g))
    # sequence length
    for v in [-1.0, 0.0, "nan", "inf", "-inf", L / 2, math.nextafter(L, 0.0), L + 1.0]:
        def f(X, v=v):
            X["L"] = v
        out.append(("L=%s" % (v if isinstance(v, str) else "num"), f))
    # left == right
    for tab in ("edges", "migs"):
        for row in pick_rows(len(T[tab]), rng, rows_per_col):
            def f(X, tab=tab, row=row):
                X[tab][row][1] = X[tab][row][0]
            out.append(("%s[%d].left==right" % (tab, row), f))
            def f2(X, tab=tab, row=row):
                X[tab][row][0], X[tab][row][1] = X[tab][row][1], X[tab][row][0]
            out.append(("%s[%d].left<->right" % (tab, row), f2))
    # swapped adjacent rows, duplicated rows, deleted rows
    for tab in ("nodes", "edges", "sites", "muts", "migs", "inds"):
        n = len(T[tab])
        for row in pick_rows(max(n - 1, 0), rng, rows_per_col):
            def f(X, tab=tab, row=row):
                X[tab][row], X[tab][row + 1] = X[tab][row + 1], X[tab][row]
            out.append(("%s swap %d,%d" % (tab, row, row + 1), f))
        for row in pick_rows(n, rng, 2):
            def f(X, tab=tab, row=row):
                X[tab].insert(row + 1, list(X[tab][row]))
                if tab == "edges":
                    X["index"] = None       # has_index() is false once the row count changed
            out.append(("%s dup %d" % (tab, row), f))
            def f3(X, tab=tab, row=row):
                del X[tab][row]
                if tab == "edges":
                    X["index"] = None
            out.append(("%s del %d" % (tab, row), f3))
    # a long region without any edge at the end / at the start of the sequence (ROUND5 class 5)
    fin = [e for e in T["edges"] if isnum(e[0]) and isnum(e[1])]
    if fin and isnum(L):
        for frac, lab in ((0.5, "half"), (0.125, "eighth")):
            cut = L * frac
            def f(X, cut=cut):
                X["edges"] = [[e[0], min(e[1], cut), e[2], e[3]] for e in X["edges"] if e[0] < cut]
                X["index"] = None
            out.append(("edges: nothing right of L*%s" % lab, f))
            def g(X, cut=cut):
                X["edges"] = [[max(e[0], cut), e[1], e[2], e[3]] for e in X["edges"] if e[1] > cut]
                X["index"] = None
            out.append(("edges: nothing left of L*%s" % lab, g))
    # populations removed (dangling population references)
    if T["npop"]:
        def f(X):
            X["npop"] -= 1
        out.append(("npop-1", f))
    # user supplied index departures (only meaningful with an explicit index)
    if T["index"] is not None:
        E = len(T["edges"])
        for which in ("I", "O"):
            for pos in pick_rows(E, rng, rows_per_col):
                for v in sorted(set(id_values(E)) | {pos}):
                    if v != T["index"][which][pos]:
                        def f(X, which=which, pos=pos, v=v):
                            X["index"][which][pos] = v
                        out.append(("index.%s[%d]=id:%s" % (which, pos, id_label(v, E)), f))
                for pos2 in pick_rows(E, rng, rows_per_col):
                    if pos2 != pos:
                        def f(X, which=which, pos=pos, pos2=pos2):
                            X["index"][which][pos] = X["index"][which][pos2]
                        out.append(("index.%s[%d]=copy[%d]" % (which, pos, pos2), f))
            for pos in pick_rows(max(E - 1, 0), rng, rows_per_col):
                def f(X, which=which, pos=pos):
                    a = X["index"][which]
                    a[pos], a[pos + 1] = a[pos + 1], a[pos]
                out.append(("index.%s swap %d,%d" % (which, pos, pos + 1), f))
            def f(X, which=which):
                X["index"][which].reverse()
            out.append(("index.%s reversed" % which, f))
        def f(X):
            X["index"]["I"], X["index"]["O"] = X["index"]["O"], X["index"]["I"]
        out.append(("index I<->O", f))
    return out


def id_label(v, n):
    if v == INT_MAX:
        return "intmax"
    for name, x in (("n-1", n - 1), ("n", n), ("n+1", n + 1)):
        if v == x and v > 0:
            return name
    return str(v)


def flabel(v, L):
    if isinstance(v, str):
        return v
    if v == L:
        return "L"
    if v > L:
        return ">L"
    if v == 0:
        return "0"
    if v < 0:
        return "<0"
    return "in"


def jitter_mutation_times(T, rng):
    """Move known mutation times strictly between the bounds while the tables stay valid."""
    for j, m in enumerate(T["muts"]):
        if isnum(m[3]) and rng.random() < 0.5:
            old = m[3]
            m[3] = old + 1.0
            if valid_ts(T):
                m[3] = old


def base_tables(rng, n, small=True, migrations=True):
    out = []
    tries = 0
    while len(out) < n and tries < 50 * n + 50:
        tries += 1
        d = gen_ts.random_desc(rng, max_nodes=6 if small else 9, max_L=4 if small else 6,
                               max_sites=3, max_muts=3, migrations=migrations and rng.random() < 0.6,
                               individuals=True, populations=True)
        if len(d["edges"]) > 8 and small:
            continue
        # node ids need not follow time order (ROUND5 class 1): half of the bases are renumbered;
        # from_desc re-sorts the edges by (time[parent], parent, child, left) on the new ids and the
        # oracle works on the flat tables, so nothing else is indexed by the old ids
        d, _pi = gen_ts.permute_node_ids(rng, d, p=0.5)
        T = from_desc(d)
        T["rm"] = rng.choice([0, 0, 1, 2])
        if valid_ts(T):          # the shared generator is expected to give valid tables
            raise AssertionError("gen_ts produced tables the docs oracle rejects: %r %r" % (valid_ts(T), T))
        jitter_mutation_times(T, rng)
        out.append(T)
    return out


# --------------------------------------------------------------------------------------
# implementation adapter
# --------------------------------------------------------------------------------------

_ERR = None


def err_codes():
    """TSK_ERR_* name -> numeric code, read from the C header of the tree under test."""
    global _ERR
    if _ERR is None:
        txt = open(os.path.join(common.REPO, "c", "tskit", "core.h")).read()
        _ERR = {m.group(1): int(m.group(2)) for m in re.finditer(r"#define\s+(TSK_ERR_\w+)\s+(-\d+)", txt)}
    return _ERR


def dec(v):
    import tskit
    if isinstance(v, str):
        return {"nan": math.nan, "inf": math.inf, "-inf": -math.inf, "unk": tskit.UNKNOWN_TIME}[v]
    return float(v)


def ragged_lengths(T):
    """Lengths of the 8 ragged columns re-validated by check_offsets, by ragged mode:
    0 mixed; 1 state columns all-empty beside non-empty metadata; 2 metadata all-empty beside
    non-empty state columns (ROUND5 class 8: one ragged column all-empty beside a sibling)."""
    rm = T.get("rm", 0)
    nN, nS, nM, nI = len(T["nodes"]), len(T["sites"]), len(T["muts"]), len(T["inds"])
    node_md = [0] * nN if rm == 2 else [j % 3 for j in range(nN)]
    st = 0 if rm == 1 else 1
    md = 0 if rm == 2 else 1
    return {"node_md": node_md, "site_state": [st] * nS, "site_md": [md] * nS, "mut_state": [st] * nM,
            "mut_md": [0] * nM if rm == 2 else ([1] * nM if rm == 1 else [j % 2 for j in range(nM)]),
            "ind_md": [md] * nI}


def as_view(a, layout):
    """The same values as a non-contiguous view of the exact dtype (no conversion copy happens in
    the C module): every second element of a buffer, a reversed view, a column of a 2-D array."""
    import numpy as np
    n = len(a)
    if layout == "strided":
        buf = np.zeros(2 * n + 1, dtype=a.dtype)
        buf[1:2 * n:2] = a
        v = buf[1:2 * n:2]
    elif layout == "reversed":
        buf = a[::-1].copy()
        v = buf[::-1]
    elif layout == "col2d":
        m = np.zeros((n, 3), dtype=a.dtype)
        m[:, 1] = a
        v = m[:, 1]
    else:
        return a
    assert n < 2 or not v.flags["C_CONTIGUOUS"] or layout == "reversed" and n < 2
    return v


def build_tc(T, layout=None):
    import tskit
    tc = tskit.TableCollection(1.0)
    fill_tc(tc, T, layout)
    return tc


def fill_tc(tc, T, layout=None, keep_index=False):
    """Columns are written with set_columns (add_row refuses ids < -1 and > 2^31-2 at the
    Python level; set_columns stores any int32 / double, which is what a file can contain).
    Works on an existing TableCollection too (error-then-reuse)."""
    import numpy as np
    import tskit
    tc.sequence_length = dec(T["L"])
    i32 = lambda xs: as_view(np.array(list(xs), dtype=np.int32), layout)          # noqa: E731
    f64 = lambda xs: as_view(np.array([dec(x) for x in xs], dtype=np.float64), layout)   # noqa: E731

    def ragged(chunks):
        data = b"".join(chunks)
        off = np.zeros(len(chunks) + 1, dtype=np.uint64)
        off[1:] = np.cumsum([len(c) for c in chunks])
        return np.frombuffer(data, dtype=np.int8), off

    col = lambda tab, k: [r[k] for r in T[tab]]   # noqa: E731
    md, mdo = ragged([b"p"] * T["npop"])
    tc.populations.set_columns(metadata=md, metadata_offset=mdo)
    nI = len(T["inds"])
    par_off = np.zeros(nI + 1, dtype=np.uint64)
    par_off[1:] = np.cumsum([len(p) for p in T["inds"]])
    md, mdo = ragged([b"i" * k for k in ragged_lengths(T)["ind_md"]])
    tc.individuals.set_columns(
        flags=np.zeros(nI, dtype=np.uint32), location=np.full(nI, 1.5), location_offset=np.arange(nI + 1, dtype=np.uint64),
        parents=i32(x for p in T["inds"] for x in p), parents_offset=par_off, metadata=md, metadata_offset=mdo)
    RL = ragged_lengths(T)
    md, mdo = ragged([b"n" * k for k in RL["node_md"]])
    tc.nodes.set_columns(flags=as_view(np.array(col("nodes", 3), dtype=np.uint32), layout), time=f64(col("nodes", 0)),
                         population=i32(col("nodes", 1)), individual=i32(col("nodes", 2)), metadata=md, metadata_offset=mdo)
    md, mdo = ragged([b"e"] * len(T["edges"]))
    tc.edges.set_columns(left=f64(col("edges", 0)), right=f64(col("edges", 1)), parent=i32(col("edges", 2)),
                         child=i32(col("edges", 3)), metadata=md, metadata_offset=mdo)
    a, ao = ragged([b"ACGT"[j % 4:j % 4 + 1] * k for j, k in enumerate(RL["site_state"])])
    md, mdo = ragged([b"s" * k for k in RL["site_md"]])
    tc.sites.set_columns(position=f64(col("sites", 0)), ancestral_state=a, ancestral_state_offset=ao,
                         metadata=md, metadata_offset=mdo)
    a, ao = ragged([b"TGCA"[j % 4:j % 4 + 1] * k for j, k in enumerate(RL["mut_state"])])
    md, mdo = ragged([b"m" * k for k in RL["mut_md"]])
    tc.mutations.set_columns(site=i32(col("muts", 0)), node=i32(col("muts", 1)), parent=i32(col("muts", 2)),
                             time=f64(col("muts", 3)), derived_state=a, derived_state_offset=ao,
                             metadata=md, metadata_offset=mdo)
    md, mdo = ragged([b"g"] * len(T["migs"]))
    tc.migrations.set_columns(left=f64(col("migs", 0)), right=f64(col("migs", 1)), node=i32(col("migs", 2)),
                              source=i32(col("migs", 3)), dest=i32(col("migs", 4)), time=f64(col("migs", 5)),
                              metadata=md, metadata_offset=mdo)
    if T["index"] is not None:
        tc.indexes = tskit.TableCollectionIndexes(
            edge_insertion_order=i32(T["index"]["I"]), edge_removal_order=i32(T["index"]["O"]))
    elif not keep_index:
        tc.drop_index()
    return tc


def snapshot(obj):
    """Canonical bytes-level picture of tables.asdict()."""
    import numpy as np
    if isinstance(obj, dict):
        return [[k, snapshot(obj[k])] for k in sorted(obj)]
    if isinstance(obj, np.ndarray):
        return [obj.dtype.str, list(obj.shape), obj.tobytes().hex()]
    if isinstance(obj, (bytes, bytearray)):
        return bytes(obj).hex()
    if isinstance(obj, (list, tuple)):
        return [snapshot(x) for x in obj]
    if isinstance(obj, float):
        return obj.hex()
    return obj


def classify(e):
    import tskit
    if isinstance(e, tskit.LibraryError):
        m = re.search(r"\((TSK_ERR_\w+)\)\s*$", str(e))
        return {"v": "LibraryError", "err": m.group(1) if m else str(e)[:80]}
    return {"v": "other:" + type(e).__name__, "msg": str(e)[:120]}


def gate_once(tc):
    """tree_sequence() on tc -> verdict (+ trees and sample list when accepted)."""
    o = {}
    try:
        ts = tc.tree_sequence()
        o["ts"] = {"v": "ok", "num_trees": ts.num_trees}
        o["trees"] = [[t.interval.left, t.interval.right, sorted([c, p] for c, p in t.parent_dict.items())]
                      for t in ts.trees()]
        o["samples"] = [int(u) for u in ts.samples()]
    except Exception as e:   # noqa: BLE001
        o["ts"] = classify(e)
    return o


def run_reuse(case):
    """error-then-reuse: a rejected tree_sequence() (and a rejected load of the same tables),
    then the SAME TableCollection object is repaired column by column and asked again; it must
    behave like a fresh TableCollection holding the same tables and the same index arrays."""
    import tskit
    bad, good = case["bad"], case["T"]
    tc = build_tc(bad)
    first = gate_once(tc)
    d = os.environ.get("VERIF_SCRATCH", common.SCRATCH_ROOT)
    if tc.has_index():
        fd, path = tempfile.mkstemp(prefix="c02u-", suffix=".trees", dir=d)
        os.close(fd)
        try:
            tc.dump(path)
            try:
                tskit.load(path)
            except Exception:   # noqa: BLE001
                pass
        finally:
            os.unlink(path)
    fill_tc(tc, good, keep_index=True)          # repair in place; whatever index the object holds stays
    idx = None
    if tc.has_index():
        ix = tc.indexes
        idx = {"I": [int(x) for x in ix.edge_insertion_order], "O": [int(x) for x in ix.edge_removal_order]}
    second = gate_once(tc)
    third = gate_once(tc)                        # and once more on the same object
    G = copyT(good)
    G["index"] = idx
    fresh = gate_once(build_tc(G))
    return {"first": first["ts"], "index_after_repair": idx, "ts": second["ts"], "trees": second.get("trees"),
            "samples": second.get("samples"), "again": third, "fresh": fresh}


def run_gate(T, layout=None):
    """tree_sequence() and dump()->load() on the tables T, in this process."""
    import tskit
    tc = build_tc(T, layout)
    had_index = tc.has_index()
    before = tc.asdict()
    if not had_index:
        before.pop("indexes")
    before = snapshot(before)
    obs = {}
    try:
        ts = tc.tree_sequence()
        obs["ts"] = {"v": "ok", "num_trees": ts.num_trees}
        trees = []
        for t in ts.trees():
            trees.append([t.interval.left, t.interval.right, sorted([c, p] for c, p in t.parent_dict.items())])
        obs["trees"] = trees
        obs["samples"] = [int(u) for u in ts.samples()]
        obs["num_samples"] = int(ts.num_samples)
    except Exception as e:   # noqa: BLE001  (every exception class is an observation here)
        obs["ts"] = classify(e)
    after = tc.asdict()
    if not had_index:
        after.pop("indexes")
    obs["unchanged"] = snapshot(after) == before
    # TreeSequence.load_tables on a fresh copy of the same tables, without and with build_indexes
    for key, flag in (("lt", False), ("lt_build", True)):
        tcl = build_tc(T, layout)
        try:
            tsl = tskit.TreeSequence.load_tables(tcl, build_indexes=flag)
            obs[key] = {"v": "ok", "num_trees": tsl.num_trees}
        except Exception as e:   # noqa: BLE001
            obs[key] = classify(e)
    # file path: the same tables written by dump() and read by tskit.load()
    tc2 = build_tc(T, layout)
    pre = None
    if not tc2.has_index():
        try:
            tc2.build_index()
        except Exception as e:   # noqa: BLE001
            pre = classify(e)
            pre["at"] = "build_index"
    if pre is not None:
        obs["load"] = pre
    else:
        d = os.environ.get("VERIF_SCRATCH", common.SCRATCH_ROOT)
        os.makedirs(d, exist_ok=True)
        fd, path = tempfile.mkstemp(prefix="c02-", suffix=".trees", dir=d)
        os.close(fd)
        try:
            tc2.dump(path)
            try:
                ts2 = tskit.load(path)
                obs["load"] = {"v": "ok", "num_trees": ts2.num_trees}
            except Exception as e:   # noqa: BLE001
                obs["load"] = classify(e)
        finally:
            os.unlink(path)
    # tskit.load on the tables exactly as they are (no build_index first): tsk_treeseq_load =
    # tsk_table_collection_load + tsk_treeseq_init(TAKE_OWNERSHIP), which never builds an index
    if T["index"] is None:
        tc3 = build_tc(T)
        d = os.environ.get("VERIF_SCRATCH", common.SCRATCH_ROOT)
        fd, path = tempfile.mkstemp(prefix="c02r-", suffix=".trees", dir=d)
        os.close(fd)
        try:
            tc3.dump(path)
            try:
                ts3 = tskit.load(path)
                obs["load_raw"] = {"v": "ok", "num_trees": ts3.num_trees}
            except Exception as e:   # noqa: BLE001
                obs["load_raw"] = classify(e)
        finally:
            os.unlink(path)
    return obs


def run_gate_forked(T):
    """Same, in a child process: used for inputs on which the unchanged library is known to
    abort (finding F14) so that the abort is an observation with its own oracle key instead
    of the runner's generic 'crash'."""
    import json
    r, w = os.pipe()
    pid = os.fork()
    if pid == 0:
        os.close(r)
        try:
            devnull = os.open(os.devnull, os.O_WRONLY)
            os.dup2(devnull, 2)
            try:
                o = run_gate(T)
            except BaseException as e:   # noqa: BLE001  adapter bug in the child: re-raised in the parent
                o = {"__child_exception__": "%s: %s" % (type(e).__name__, e)}
            os.write(w, json.dumps(o).encode())
        finally:
            os._exit(0)
    os.close(w)
    buf = b""
    while True:
        b = os.read(r, 1 << 16)
        if not b:
            break
        buf += b
    os.close(r)
    _, status = os.waitpid(pid, 0)
    if buf:
        o = json.loads(buf)
        if "__child_exception__" in o:
            raise RuntimeError(o["__child_exception__"])
        return o
    return {"aborted": os.WTERMSIG(status) if os.WIFSIGNALED(status) else -os.WEXITSTATUS(status)}


# --------------------------------------------------------------------------------------
# Coq term for the correspondence
# --------------------------------------------------------------------------------------

def rank_maps(T):
    coords = {0.0}
    times = set()

    def add(s, v):
        if isnum(v):
            s.add(float(v))

    add(coords, T["L"])
    for e in T["edges"]:
        add(coords, e[0]); add(coords, e[1])
    for s in T["sites"]:
        add(coords, s[0])
    for m in T["migs"]:
        add(coords, m[0]); add(coords, m[1]); add(times, m[5])
    for n in T["nodes"]:
        add(times, n[0])
    for m in T["muts"]:
        add(times, m[3])
    cs = sorted(coords)
    z = cs.index(0.0)
    cmap = {v: i - z for i, v in enumerate(cs)}
    tmap = {v: i for i, v in enumerate(sorted(times))}
    return cmap, tmap


def cfl(v, mp):
    if isinstance(v, str):
        return {"nan": "FNaN", "inf": "FPInf", "-inf": "FNInf", "unk": "FUnk"}[v]
    return "(Fin %s)" % cz(mp[float(v)])


def coq_tables(T):
    cmap, tmap = rank_maps(T)
    col = lambda tab, k: [r[k] for r in T[tab]]   # noqa: E731
    fl = lambda xs, mp: "[" + "; ".join(cfl(x, mp) for x in xs) + "]"   # noqa: E731
    par_flat, par_off = [], [0]
    for pars in T["inds"]:
        par_flat += pars
        par_off.append(len(par_flat))
    # the 8 ragged columns re-validated by tsk_table_collection_check_offsets, in its order
    def offs(lengths):
        o = [0]
        for x in lengths:
            o.append(o[-1] + x)
        return "(%s, %s, %s)" % (cz(len(lengths)), clist(o), cz(o[-1]))
    nN, nS, nM, nI = len(T["nodes"]), len(T["sites"]), len(T["muts"]), len(T["inds"])
    RL = ragged_lengths(T)
    ragged = [offs(RL["node_md"]), offs(RL["site_state"]), offs(RL["site_md"]), offs(RL["mut_state"]),
              offs(RL["mut_md"]), offs(RL["ind_md"]), offs([]), offs([])]
    idx = "None" if T["index"] is None else "(Some (%s, %s))" % (clist(T["index"]["I"]), clist(T["index"]["O"]))
    fields = [
        cfl(T["L"], cmap), cz(T["npop"]), cz(len(T["inds"])),
        clist(par_flat), clist(par_off),
        fl(col("nodes", 0), tmap), clist(col("nodes", 1)), clist(col("nodes", 2)),
        fl(col("edges", 0), cmap), fl(col("edges", 1), cmap), clist(col("edges", 2)), clist(col("edges", 3)),
        fl(col("sites", 0), cmap),
        clist(col("muts", 0)), clist(col("muts", 1)), clist(col("muts", 2)), fl(col("muts", 3), tmap),
        fl(col("migs", 0), cmap), fl(col("migs", 1), cmap), clist(col("migs", 2)), clist(col("migs", 3)),
        clist(col("migs", 4)), fl(col("migs", 5), tmap),
        "[" + "; ".join(ragged) + "]", idx,
    ]
    return "(mkTables " + " ".join(fields) + ")"


# --------------------------------------------------------------------------------------
# families
# --------------------------------------------------------------------------------------

class Gate(Family):
    prelude = "From TskVerif Require Import Base.Common C02.Fl C02.Model.\nOpen Scope Z_scope."
    workers = 8
    timeout = 30.0
    shard = 300

    def observe(self, case):
        T = case["T"]
        if "bad" in case:
            return run_reuse(case)
        if not isnum(T["L"]):
            return run_gate_forked(T)
        return run_gate(T, case.get("layout"))

    def oracle(self, case, obs):
        T = case["T"]
        if "bad" in case:
            return self.oracle_reuse(case, obs)
        bad = valid_ts(T)
        cls = "+".join(sorted(bad))
        out = []
        if "aborted" in obs:
            return [("crash:" + (cls or "valid"), "process aborted (signal %s) instead of raising a library error" % obs["aborted"])]
        v = obs["ts"]["v"]
        if v == "ok":
            if bad:
                out.append(("accepted-invalid:" + cls, "tree_sequence() accepted tables violating %s" % bad))
            else:
                exp = trees_by_definition(T)
                if obs["ts"]["num_trees"] != len(exp) or obs["trees"] != exp:
                    out.append(("tree-mismatch", "trees %r differ from the definition %r" % (obs["trees"], exp)))
                exp_s = [i for i, n in enumerate(T["nodes"]) if n[3] & 1]
                if obs.get("samples") != exp_s or ("num_samples" in obs and obs["num_samples"] != len(exp_s)):
                    out.append(("samples-mismatch", "samples %r, flags & 1 gives %r" % (obs.get("samples"), exp_s)))
                for d in documented_not_checked(T):
                    out.append(("documented-not-checked:" + d,
                                "accepted although the documented requirement '%s' does not hold" % d))
        elif v == "LibraryError":
            if not bad:
                out.append(("rejected-valid:" + obs["ts"]["err"], "valid tables rejected: %s" % obs["ts"]["err"]))
        else:
            out.append(("wrong-exception:" + v, "rejection is not a LibraryError: %s %s" % (v, obs["ts"].get("msg"))))
        if not obs["unchanged"]:
            out.append(("rows-changed", "tables.asdict() differs after the call"))
        lv = obs["load"]["v"]
        if lv == "ok":
            if bad:
                out.append(("load-accepted-invalid:" + cls, "tskit.load accepted tables violating %s" % bad))
            elif obs["load"]["num_trees"] != len(trees_by_definition(T)):
                out.append(("load-tree-count", "tskit.load num_trees %r" % obs["load"]["num_trees"]))
        elif lv == "LibraryError":
            if not bad:
                out.append(("load-rejected-valid:" + obs["load"]["err"], "valid tables rejected by load: %s" % obs["load"]["err"]))
        else:
            out.append(("load-wrong-exception:" + lv, "load rejection is not a LibraryError: %s" % obs["load"].get("msg")))
        # TreeSequence.load_tables: the gate alone / the gate after an unconditional build_index
        if "lt" in obs:
            unindexed = T["index"] is None
            v1 = obs["lt"]["v"]
            if v1 == "ok" and (bad or unindexed):
                out.append(("load_tables-accepted-invalid:" + (cls or "unindexed"), "load_tables accepted"))
            elif v1 == "LibraryError" and not bad and not unindexed:
                out.append(("load_tables-rejected-valid:" + obs["lt"]["err"], "load_tables rejected valid tables"))
            elif v1 not in ("ok", "LibraryError"):
                out.append(("load_tables-wrong-exception:" + v1, str(obs["lt"].get("msg"))))
            N = copyT(T)
            N["index"] = None
            badn = valid_ts(N)
            v2 = obs["lt_build"]["v"]
            if v2 == "ok" and badn:
                out.append(("load_tables-build-accepted-invalid:" + "+".join(sorted(badn)), "load_tables(build_indexes=True) accepted"))
            elif v2 == "LibraryError" and not badn:
                out.append(("load_tables-build-rejected-valid:" + obs["lt_build"]["err"], "load_tables(build_indexes=True) rejected"))
            elif v2 not in ("ok", "LibraryError"):
                out.append(("load_tables-build-wrong-exception:" + v2, str(obs["lt_build"].get("msg"))))
        if "load_raw" in obs:      # a file without an index is never a tree sequence ("the tables must be indexed")
            rv = obs["load_raw"]["v"]
            if rv == "ok":
                out.append(("load-accepted-unindexed", "tskit.load accepted a file without an index"))
            elif rv != "LibraryError":
                out.append(("load-unindexed-wrong-exception:" + rv, "not a LibraryError: %s" % obs["load_raw"].get("msg")))
        return out

    def oracle_reuse(self, case, obs):
        out = []
        G = copyT(case["T"])
        G["index"] = obs["index_after_repair"]
        bad = valid_ts(G)
        if valid_ts(case["bad"]) and obs["first"]["v"] == "ok":
            out.append(("accepted-invalid:" + "+".join(sorted(valid_ts(case["bad"]))), "first call accepted invalid tables"))
        v = obs["ts"]["v"]
        if v == "ok" and bad:
            out.append(("reuse-accepted-invalid:" + "+".join(sorted(bad)), "after repair accepted tables violating %s" % bad))
        elif v == "LibraryError" and not bad:
            out.append(("reuse-rejected-valid:" + obs["ts"]["err"], "repaired tables on a reused object rejected: %s" % obs["ts"]["err"]))
        elif v not in ("ok", "LibraryError"):
            out.append(("reuse-wrong-exception:" + v, str(obs["ts"].get("msg"))))
        if v == "ok" and not bad:
            if obs["trees"] != trees_by_definition(G):
                out.append(("reuse-tree-mismatch", "trees after repair differ from the definition"))
            if obs["samples"] != [i for i, n in enumerate(G["nodes"]) if n[3] & 1]:
                out.append(("reuse-samples-mismatch", "samples after repair"))
        fresh, again = obs["fresh"], obs["again"]
        for name, o in (("fresh", fresh), ("again", again)):
            if o["ts"] != obs["ts"] or o.get("trees") != obs.get("trees") or o.get("samples") != obs.get("samples"):
                out.append(("reuse-differs-from-" + name, "reused object %r vs %s %r" % (obs["ts"], name, o["ts"])))
        return out

    def coq_check(self, case, obs):
        T = case["T"]
        if "bad" in case:
            return None
        if "aborted" in obs or obs["ts"]["v"].startswith("other"):
            return None
        if len(T["nodes"]) > 12 or len(T["edges"]) > 16:
            return None
        if obs["ts"]["v"] == "ok":
            exp = "(Ok %s)" % cz(obs["ts"]["num_trees"])
        else:
            code = err_codes().get(obs["ts"]["err"])
            if code is None:
                return "false"
            exp = "(Err %s)" % cz(code)
        # tree_sequence(): has_index() false -> build_index() (modelled, incl. its sort) -> gate;
        # TreeSequence.load_tables without / with build_indexes; tskit.load of the unindexed file
        def expected(o):
            if o["v"] == "ok":
                return "(Ok %s)" % cz(o["num_trees"])
            code = err_codes().get(o["err"])
            return None if code is None else "(Err %s)" % cz(code)

        parts = ["res_eqb (tree_sequence_gate t) %s" % exp]
        for key, fn in (("lt", "load_tables_gate false"), ("lt_build", "load_tables_gate true"), ("load_raw", "load_gate")):
            o = obs.get(key)
            if o is not None and o["v"] in ("ok", "LibraryError"):
                e = expected(o)
                if e is None:
                    return "false"
                parts.append("res_eqb (%s t) %s" % (fn, e))
        return "let t := %s in %s" % (coq_tables(T), " && ".join(parts))

    def nontrivial(self, case, obs):
        T = case["T"]
        return len(T["edges"]) >= 2

    def describe(self, case, obs):
        T = case["T"]
        if "bad" in case:
            return {"first": obs["first"].get("err", obs["first"]["v"]), "second": obs["ts"].get("err", obs["ts"]["v"]),
                    "index_after_repair": "kept" if obs["index_after_repair"] else "none"}
        if "aborted" in obs:
            verdict = "aborted"
        elif obs["ts"]["v"] == "ok":
            verdict = "accepted"
        else:
            verdict = obs["ts"].get("err", obs["ts"]["v"])
        return {"verdict": verdict, "edges": len(T["edges"]), "index": "user" if T["index"] else "built",
                "departures": len(case.get("edits", []))}

    def shrink(self, case):
        T = case["T"]
        for tab in ("migs", "muts", "inds"):
            if T[tab]:
                X = copyT(T)
                X[tab].pop()
                if tab == "inds" and any(n[2] >= len(X["inds"]) for n in X["nodes"]):
                    continue
                yield {"T": X, "edits": case.get("edits", []) + ["shrunk"]}
        if T["sites"] and not any(m[0] == len(T["sites"]) - 1 for m in T["muts"]):
            X = copyT(T)
            X["sites"].pop()
            yield {"T": X, "edits": case.get("edits", []) + ["shrunk"]}


class Valid(Gate):
    name = "valid"

    def generate(self, rng, tier):
        n = 60 if tier == "quick" else 600
        for k, T in enumerate(base_tables(rng, n, small=True) + base_tables(rng, n // 3, small=False)):
            yield {"T": T, "edits": []}
            X = copyT(T)
            X["index"] = make_index(T, rng if k % 2 else None)
            yield {"T": X, "edits": ["index:user-consistent"]}


def features(T):
    f = set()
    t = [n[0] for n in T["nodes"]]
    if len(T["edges"]) >= 3:
        f.add("edges>=3")
    if len({e[0] for e in T["edges"]} | {e[1] for e in T["edges"]}) >= 3:
        f.add("several-trees")
    if len({e[3] for e in T["edges"]}) < len(T["edges"]):
        f.add("child-with-several-edges")
    if len(T["sites"]) >= 2:
        f.add("sites>=2")
    for j, (site, node, par, tm) in enumerate(T["muts"]):
        f.add("unknown-time" if tm == "unk" else "known-time")
        if par != NULL:
            f.add("mutation-parent")
            if isnum(tm):
                f.add("known-time-with-parent")
        if isnum(tm) and any(c == node and l <= T["sites"][site][0] < r for l, r, p, c in T["edges"]):
            f.add("known-time-below-parent-node")
        if j and T["muts"][j - 1][0] == site:
            f.add("site-with-several-mutations")
    if T["migs"]:
        f.add("migrations")
    if len(T["migs"]) >= 2:
        f.add("migrations>=2")
    if any(p for p in T["inds"]):
        f.add("individual-parents")
    if any(n[1] != NULL for n in T["nodes"]):
        f.add("node-population")
    if any(n[2] != NULL for n in T["nodes"]):
        f.add("node-individual")
    return f


def pick_bases(rng, n):
    """n bases out of a pool, greedily by the number of still uncovered features."""
    pool = base_tables(rng, 12 * n, small=True)
    have, out = set(), []
    while len(out) < n and pool:
        pool.sort(key=lambda T: (-len(features(T) - have), -len(T["muts"]) - len(T["edges"])))
        T = pool.pop(0)
        out.append(T)
        have |= features(T)
        if len(out) % 4 == 0:
            have = set()
    return out


class Stream(Gate):
    name = "stream"

    def generate(self, rng, tier):
        nbase = 5 if tier == "quick" else 20
        rows = 2 if tier == "quick" else 3
        bases = pick_bases(rng, nbase)
        for k, T in enumerate(bases):
            for explicit in (False, True):
                B = copyT(T)
                if explicit:
                    B["index"] = make_index(T, rng)
                deps = single_departures(B, rng, rows)
                for label, f in deps:
                    X = copyT(B)
                    f(X)
                    yield {"T": X, "edits": [label]}
                # random pairs of departures
                for _ in range(40 if tier == "quick" else 200):
                    (l1, f1), (l2, f2) = rng.sample(deps, 2)
                    X = copyT(B)
                    try:
                        f1(X)
                        f2(X)
                    except (IndexError, TypeError):
                        continue        # the second edit addressed a row the first removed
                    yield {"T": X, "edits": [l1, l2]}


class F1Scope(Gate):
    """Exhaustive small scope for user-supplied indexes: k edges under one parent over one or
    two intervals, every insertion/removal order in {0..k-1}^k x {0..k-1}^k (k<=3)."""
    name = "f1"

    def generate(self, rng, tier):
        import itertools
        shapes = [
            [[0.0, 10.0, 2, 0], [0.0, 10.0, 2, 1]],
            [[0.0, 5.0, 2, 0], [0.0, 10.0, 2, 1]],
            [[0.0, 5.0, 2, 0], [5.0, 10.0, 2, 0], [0.0, 10.0, 2, 1]],
        ]
        for edges in shapes:
            k = len(edges)
            T = {"L": 10.0, "npop": 0, "inds": [], "nodes": [[0.0, -1, -1, 1], [0.0, -1, -1, 1], [2.0, -1, -1, 0]],
                 "edges": edges, "sites": [], "muts": [], "migs": [], "index": None}
            for I in itertools.product(range(k), repeat=k):
                for O in itertools.product(range(k), repeat=k):
                    if k == 3 and tier == "quick" and sorted(I) != [0, 1, 2] and rng.random() < 0.8:
                        continue
                    X = copyT(T)
                    X["index"] = {"I": list(I), "O": list(O)}
                    yield {"T": X, "edits": ["index:user"]}


class Layout(Gate):
    """array layout: every column (and the index arrays) handed over as a non-contiguous view of
    the exact dtype — every second element of a buffer, a reversed view, a column of a 2-D
    array — must give the result of the equivalent contiguous arrays (i.e. what valid_ts says)."""
    name = "layout"

    def generate(self, rng, tier):
        n = 10 if tier == "quick" else 60
        for T in base_tables(rng, n, small=True):
            B = copyT(T)
            B["index"] = make_index(T, rng)
            deps = single_departures(B, rng, 1)
            for layout in ("strided", "reversed", "col2d"):
                yield {"T": copyT(T), "edits": [], "layout": layout}
                yield {"T": copyT(B), "edits": ["index:user-consistent"], "layout": layout}
                for label, f in rng.sample(deps, min(len(deps), 4 if tier == "quick" else 10)):
                    X = copyT(B)
                    f(X)
                    yield {"T": X, "edits": [label], "layout": layout}


class Reuse(Gate):
    """error then reuse: tree_sequence() on tables with one departure (rejected), the same
    TableCollection repaired in place, tree_sequence() again (twice) — compared with the data
    model and with a fresh TableCollection holding the same tables and index arrays."""
    name = "reuse"

    def generate(self, rng, tier):
        n = 8 if tier == "quick" else 40
        for T in pick_bases(rng, n):
            for explicit in (False, True):
                G = copyT(T)
                if explicit:
                    G["index"] = make_index(T, rng)
                deps = single_departures(G, rng, 1)
                for label, f in rng.sample(deps, min(len(deps), 12 if tier == "quick" else 40)):
                    X = copyT(G)
                    f(X)
                    yield {"T": copyT(G), "bad": X, "edits": [label]}


class Stale(Gate):
    """stale derived state (ROUND5 class 7): an index is built on a live TableCollection, the
    tables are then grown / shrunk / rewritten in place, and the gate (tree_sequence, dump+load,
    load_tables) runs on that live object.  Expected = the data model on the final tables with
    whatever index arrays the object still regards as present (has_index() compares the edge
    count), identical to a fresh TableCollection built from those, and the model on the same."""
    name = "stale"

    def generate(self, rng, tier):
        n = 6 if tier == "quick" else 30
        for T in pick_bases(rng, n):
            deps = [d for d in single_departures(T, rng, 2)
                    if any(k in d[0] for k in (" dup ", " del ", " swap ", "nothing right", "nothing left", "edges[", "nodes["))]
            for label, f in rng.sample(deps, min(len(deps), 14 if tier == "quick" else 40)):
                X = copyT(T)
                f(X)
                X["index"] = None
                yield {"T": X, "start": copyT(T), "edits": ["index built, then: " + label]}

    def observe(self, case):
        import tskit
        tc = build_tc(case["start"])
        tc.build_index()
        fill_tc(tc, case["T"], keep_index=True)
        idx = None
        if tc.has_index():
            ix = tc.indexes
            idx = {"I": [int(x) for x in ix.edge_insertion_order], "O": [int(x) for x in ix.edge_removal_order]}
        live = {"ts": gate_once(tc)["ts"]}
        try:
            live["lt"] = {"v": "ok", "num_trees": tskit.TreeSequence.load_tables(tc).num_trees}
        except Exception as e:   # noqa: BLE001
            live["lt"] = classify(e)
        F = copyT(case["T"])
        F["index"] = idx
        obs = run_gate(F)
        obs["live"] = live
        obs["index_kept"] = idx
        return obs

    def _final(self, case, obs):
        F = copyT(case["T"])
        F["index"] = obs["index_kept"]
        return {"T": F, "edits": case["edits"]}

    def oracle(self, case, obs):
        out = Gate.oracle(self, self._final(case, obs), obs)
        sig = lambda o: (o.get("v"), o.get("err"), o.get("num_trees"))   # noqa: E731
        for key in ("ts", "lt"):
            if key == "lt" and obs["index_kept"] is None and obs["live"]["ts"]["v"] == "ok":
                continue        # tree_sequence() has just built an index on the live object
            if sig(obs["live"][key]) != sig(obs[key]):
                out.append(("stale-live-differs:" + key, "live object %r, fresh object with the same tables and index %r"
                            % (obs["live"][key], obs[key])))
        return out

    def coq_check(self, case, obs):
        return Gate.coq_check(self, self._final(case, obs), obs)

    def describe(self, case, obs):
        d = Gate.describe(self, self._final(case, obs), obs)
        d["index_kept"] = obs["index_kept"] is not None
        return d

    def nontrivial(self, case, obs):
        return True


class Big(Gate):
    """sizes (thorough only): one node with 2**16 + 1 children, i.e. > 2**16 edges and index
    entries beyond the 16-bit range, with a consistent user index, a built index, and a removal
    order that repeats its last entry (the F1 class)."""
    name = "big"
    timeout = 300.0
    workers = 3

    def generate(self, rng, tier):
        if tier == "quick":
            return
        n = 2 ** 16 + 1
        nodes = [[0.0, -1, -1, 1 if i % 2 else 1 | 1 << 16] for i in range(n)] + [[2.0, -1, -1, 0]]
        edges = [[0.0, 8.0, n, i] for i in range(n)]
        edges[7] = [0.0, 4.0, n, 7]
        edges.insert(8, [4.0, 8.0, n, 7])
        T = {"L": 8.0, "npop": 0, "inds": [], "nodes": nodes, "edges": edges, "sites": [[4.0]],
             "muts": [[0, 7, -1, 1.0]], "migs": [], "index": None}
        yield {"T": copyT(T), "edits": ["big"]}
        X = copyT(T)
        X["index"] = make_index(T, rng)
        yield {"T": X, "edits": ["big", "index:user-consistent"], "layout": "strided"}
        Y = copyT(X)
        Y["index"]["O"][-1] = Y["index"]["O"][-2]
        yield {"T": Y, "edits": ["big", "index.O[last]=copy[last-1]"]}
        Z = copyT(X)
        Z["index"]["I"][2 ** 16] = 2 ** 16 + 5
        yield {"T": Z, "edits": ["big", "index.I[2^16]=out-of-range"]}


FAMILIES = [Valid, Stream, F1Scope, Layout, Reuse, Stale, Big]

NOT_COVERED = [
    "provenance requirements of the docs (ISO-8601 timestamp, JSON record: 'should', not part of tree-sequence validity); "
    "mutation.parent vs topology, migration time vs ancestry and migration population bookkeeping ARE evaluated and "
    "reported under 'documented-not-checked:' keys",
    "TSK_ERR_BAD_OFFSET / ragged-offset corruption (not reachable through the Python API; the model includes check_offsets)",
    "allocation failure paths (TSK_ERR_NO_MEMORY), TSK_ERR_TREE_OVERFLOW (needs 2^31 trees)",
]
