"""C12 — metadata codecs decode what they encode and honour the schema.

Families compare tskit.metadata (MetadataSchema / StructCodec / JSONCodec and the table-level
paths) with (i) an independent oracle written from the property text with Python's `struct`
module and (ii) the Gallina model coq/theories/C12/Model.v evaluated by vm_compute.

Value encoding in cases/observations ("tagged" JSON): int, bool, None, str, list, dict are
themselves; a float is {"$f": "<16 hex digits of the IEEE binary64 pattern>"} so that cases are
exact (NaN, -0.0, subnormals survive the JSON transport).  Property names are never "$f".
"""
import json
import math
import re
import os
import signal
import struct

from harness.runner import Family
from harness.common import cz, clist

# --------------------------------------------------------------------------
# tagged values
# --------------------------------------------------------------------------


def f2bits(x):
    return struct.unpack("<Q", struct.pack("<d", x))[0]


def bits2f(b):
    return struct.unpack("<d", struct.pack("<Q", b))[0]


def tag(v):
    if isinstance(v, bool) or v is None or isinstance(v, (int, str)):
        return v
    if isinstance(v, float):
        return {"$f": "%016x" % f2bits(v)}
    if isinstance(v, (list, tuple)):
        return [tag(x) for x in v]
    if isinstance(v, dict):
        return {str(k): tag(x) for k, x in v.items()}
    if isinstance(v, bytes):
        return {"$b": list(v)}
    return {"$repr": repr(v)[:80]}


def untag(v):
    if isinstance(v, dict):
        if set(v) == {"$f"}:
            return bits2f(int(v["$f"], 16))
        if set(v) == {"$b"}:
            return bytes(v["$b"])
        return {k: untag(x) for k, x in v.items()}
    if isinstance(v, list):
        return [untag(x) for x in v]
    return v


def is_tf(v):
    return isinstance(v, dict) and set(v) == {"$f"}


def exc_name(e):
    n = type(e).__name__
    if isinstance(e, struct.error):
        return "struct.error"
    return n


class _Hang(BaseException):
    pass


ENC_SECONDS = 3.0      # CPU seconds; encoding/validation never loops, the budget is only a backstop


def guarded(fn, seconds=0.3):
    """Run fn() under a CPU-time watchdog (ITIMER_VIRTUAL: robust against the process being
    descheduled on a loaded machine; the decode loops are pure Python, so the signal handler
    runs).  Returns ("ok", value) | ("exc", class name) | ("hang", None)."""
    def h(signum, frame):
        raise _Hang()
    old = signal.signal(signal.SIGVTALRM, h)
    signal.setitimer(signal.ITIMER_VIRTUAL, seconds)
    try:
        try:
            r = fn()
        finally:
            signal.setitimer(signal.ITIMER_VIRTUAL, 0)
        return ("ok", r)
    except _Hang:
        return ("hang", None)
    except MemoryError:
        return ("exc", "MemoryError")
    except Exception as e:
        return ("exc", exc_name(e))
    finally:
        signal.setitimer(signal.ITIMER_VIRTUAL, 0)
        signal.signal(signal.SIGVTALRM, old)


# --------------------------------------------------------------------------
# The oracle's reference semantics (independent of tskit; from the property text and
# docs/metadata.md): ordering, layout, defaults, rounding, truncation, validity.
# --------------------------------------------------------------------------

LEAF_TYPES = ("number", "integer", "boolean", "string", "null")
INT_RANGE = {"b": (-2**7, 2**7 - 1), "B": (0, 2**8 - 1), "h": (-2**15, 2**15 - 1), "H": (0, 2**16 - 1),
             "i": (-2**31, 2**31 - 1), "I": (0, 2**32 - 1), "l": (-2**31, 2**31 - 1), "L": (0, 2**32 - 1),
             "q": (-2**63, 2**63 - 1), "Q": (0, 2**64 - 1)}
LEN_SIZE = {"B": 1, "H": 2, "I": 4, "L": 4, "Q": 8}
NUL_SAFE_ENCODINGS = ("utf-8", "ascii", "latin-1")
# width in bytes of one code unit: the model's NUL search is per unit (Model.cut)
# ("utf-16"/"utf-32" write a byte-order mark on encode and strip it on decode, so text -> bytes is
#  not the inverse of the decode the implementation did: they stay oracle-only)
CODE_UNIT = {"utf-8": 1, "ascii": 1, "latin-1": 1, "utf-16-le": 2, "utf-16-be": 2, "utf-32-le": 4, "utf-32-be": 4}


class Domain(Exception):
    """The value is outside what the binaryFormat can represent (documented struct limits)."""


def parse_fmt(fmt):
    """'12s' -> ('s', 12); 'i' -> ('i', None)."""
    if fmt and fmt[-1] in "spx":
        return fmt[-1], (int(fmt[:-1]) if fmt[:-1] else 1)
    return fmt, None


def ref_order(props):
    # "The order that properties are encoded is by default alphabetically by name.  The order can
    #  be overridden by setting an optional numerical index on each property."
    return sorted(props.items(), key=lambda kv: (kv[1].get("index", 0), kv[0]))


def is_objnull(s):
    return isinstance(s.get("type"), list)


def ref_required(s):
    if "required" in s:
        return list(s["required"])
    return [k for k, p in s.get("properties", {}).items() if "default" not in p]


def ref_valid(s, v, struct_codec=True):
    """JSON-schema validity for the restricted keyword set the generators use: type,
    properties, items, required, additionalProperties.  Under the struct codec every object
    has fixed properties: no additional ones, and every property without a default (or
    listed in `required`) must be present (docs/metadata.md, struct codec rule 2)."""
    t = s.get("type")
    if isinstance(t, list):
        if v is None:
            return True
        t = "object"
    if t == "object":
        if not isinstance(v, dict):
            return False
        props = s.get("properties", {})
        if struct_codec:
            closed, req = True, ref_required(s)
        else:
            closed, req = s.get("additionalProperties", True) is False, s.get("required", [])
        if closed and any(k not in props for k in v):
            return False
        if any(k not in v for k in req):
            return False
        return all(ref_valid(props[k], x, struct_codec) for k, x in v.items() if k in props)
    if t == "array":
        return isinstance(v, list) and all(ref_valid(s["items"], x, struct_codec) for x in v)
    if t == "string":
        return isinstance(v, str)
    if t == "null":
        return v is None
    if t == "boolean":
        return isinstance(v, bool)
    if t == "number":
        return isinstance(v, (int, float)) and not isinstance(v, bool)
    if t == "integer":
        if isinstance(v, bool):
            return False
        return isinstance(v, int) or (isinstance(v, float) and v.is_integer())
    if t is None:
        return True
    raise AssertionError("ref_valid: type %r" % (t,))


def ref_leaf_pack(s, v):
    """bytes of one leaf, by struct with the '<' prefix; Domain if not representable."""
    t = s["type"]
    fmt = s.get("binaryFormat")
    if t == "null":
        if fmt is None:
            return b""
        c, n = parse_fmt(fmt)
        if c != "x":
            raise Domain("null with non-pad format")
        return b"\x00" * n
    c, n = parse_fmt(fmt)
    if t == "string":
        if c not in "csp":
            raise Domain("string with non-string format")
        try:
            raw = v.encode(s.get("stringEncoding", "utf-8"))
        except (UnicodeError, LookupError):
            raise Domain("string not encodable")
        if c == "c":
            if len(raw) != 1:
                raise Domain("char needs exactly one byte")
            return raw
        if c == "s":
            return raw[:n] + b"\x00" * (n - len(raw[:n]))
        if n == 0:
            return b""          # struct packs nothing for '0p'
        k = min(len(raw), n - 1)
        return bytes([min(k, 255)]) + raw[:k] + b"\x00" * (n - 1 - k)
    # number / integer / boolean
    if c in "csp" or c == "x":
        raise Domain("numeric with string/pad format")
    if c == "?":
        return b"\x01" if v else b"\x00"
    if c in INT_RANGE:
        if isinstance(v, float):
            raise Domain("float in integer format")
        lo, hi = INT_RANGE[c]
        if not (lo <= int(v) <= hi):
            raise Domain("integer out of range")
        size = struct.calcsize("<" + c)
        return (int(v) % (1 << (8 * size))).to_bytes(size, "little")
    if c == "d":
        try:
            return struct.pack("<d", float(v))
        except OverflowError:
            raise Domain("int too large for double")
    if c == "f":
        try:
            return struct.pack("<f", float(v))
        except OverflowError:
            raise Domain("too large for binary32")
    raise AssertionError(fmt)


def ref_leaf_norm(s, v):
    """What the documented rules say comes back for a leaf (tagged-comparable Python value)."""
    t = s["type"]
    if t == "null":
        return None
    c, n = parse_fmt(s["binaryFormat"])
    raw = ref_leaf_pack(s, v)
    if t == "string":
        enc = s.get("stringEncoding", "utf-8")
        if c == "p":
            raw = raw[1:1 + min(raw[0], n - 1)] if n > 0 else b""
        try:
            out = raw.decode(enc)
        except UnicodeDecodeError:
            raise SplitChar()
        if s.get("nullTerminated", False):
            i = out.find("\x00")
            if i != -1:
                out = out[:i]
        return out
    if c == "?":
        return bool(v)
    if c in INT_RANGE:
        return int(v)
    if c == "d":
        return float(v)
    return struct.unpack("<f", raw)[0]


class SplitChar(Exception):
    """fixed-width truncation cut a multi-byte character; the remainder is not decodable"""


def ref_lookup(s, v):
    """[(key, subschema, value-or-default)] of an object in encoding order."""
    out = []
    for k, p in ref_order(s.get("properties", {})):
        if k in v:
            out.append((k, p, v[k]))
        elif "default" in p:
            out.append((k, p, p["default"]))
        else:
            raise Domain("missing key without default")
    return out


def ref_encode(s, v):
    t = s.get("type")
    if isinstance(t, list):
        if v is None:
            return b""
        t = "object"
    if t == "object":
        return b"".join(ref_encode(p, x) for _, p, x in ref_lookup(s, v))
    if t == "array":
        body = b"".join(ref_encode(s["items"], x) for x in v)
        if "length" in s:
            if len(v) != s["length"]:
                raise Domain("fixed-length array of the wrong length")
            return body
        if s.get("noLengthEncodingExhaustBuffer", False):
            return body
        c = s.get("arrayLengthFormat", "L")
        if len(v) >= 1 << (8 * LEN_SIZE[c]):
            raise Domain("array too long for its length prefix")
        return len(v).to_bytes(LEN_SIZE[c], "little") + body
    return ref_leaf_pack(s, v)


def ref_norm(s, v):
    t = s.get("type")
    if isinstance(t, list):
        if v is None:
            return None
        t = "object"
    if t == "object":
        return {k: ref_norm(p, x) for k, p, x in ref_lookup(s, v)}
    if t == "array":
        return [ref_norm(s["items"], x) for x in v]
    return ref_leaf_norm(s, v)


def min_width_zero(s):
    """can an encoded element of this schema be zero bytes wide (for every value)?"""
    t = s.get("type")
    if isinstance(t, list) or t == "object":
        return all(min_width_zero(p) for p in s.get("properties", {}).values())
    if t == "array":
        if "length" in s:
            return s["length"] <= 0 or min_width_zero(s["items"])
        # an exhaust array decodes (to []) from an empty buffer; a length prefix never does
        return bool(s.get("noLengthEncodingExhaustBuffer", False))
    if t == "null":
        return parse_fmt(s.get("binaryFormat", "0x"))[1] == 0
    c, n = parse_fmt(s.get("binaryFormat", "i"))
    return n == 0


def always_zero_width(s):
    """every encoding of this schema is empty (fields after an exhaust array may be these)"""
    t = s.get("type")
    if isinstance(t, list) or t == "object":
        return all(always_zero_width(p) for p in s.get("properties", {}).values())
    if t == "array":
        if "length" in s:
            return s["length"] <= 0 or always_zero_width(s["items"])
        return False
    return min_width_zero(s)


def exhaust_info(s, tail=True):
    """(has exhaust array, has exhaust array with zero-width items, has non-tail exhaust array)"""
    t = s.get("type")
    has = zero = nontail = False
    if isinstance(t, list) or t == "object":
        items = ref_order(s.get("properties", {}))
        for i, (k, p) in enumerate(items):
            later_empty = all(always_zero_width(q) for _, q in items[i + 1:])
            h, z, n = exhaust_info(p, tail and later_empty)
            has, zero, nontail = has or h, zero or z, nontail or n
    elif t == "array":
        ex = s.get("noLengthEncodingExhaustBuffer", False) and "length" not in s
        if ex:
            has = True
            nontail = not tail
            zero = min_width_zero(s["items"])
            h, z, n = exhaust_info(s["items"], False)
        else:
            single = "length" in s and s["length"] == 1
            h, z, n = exhaust_info(s["items"], tail and single)
        has, zero, nontail = has or h, zero or z, nontail or n
    return has, zero, nontail


def has_fmt(s, pred):
    t = s.get("type")
    if isinstance(t, list) or t == "object":
        return any(has_fmt(p, pred) for p in s.get("properties", {}).values())
    if t == "array":
        return has_fmt(s["items"], pred)
    return pred(s)


def deep_eq(a, b):
    """equality of tagged values: floats by bit pattern, dict order ignored"""
    if is_tf(a) or is_tf(b):
        return is_tf(a) and is_tf(b) and a["$f"] == b["$f"]
    if isinstance(a, dict) and isinstance(b, dict):
        return set(a) == set(b) and all(deep_eq(a[k], b[k]) for k in a)
    if isinstance(a, list) and isinstance(b, list):
        return len(a) == len(b) and all(deep_eq(x, y) for x, y in zip(a, b))
    return type(a) is type(b) and a == b


# --------------------------------------------------------------------------
# Generators: schemas over the struct-codec grammar, conforming and non-conforming values
# --------------------------------------------------------------------------

NAMES = ["a", "b", "c", "aa", "ab", "B", "Z", "z", "_x", "0", "10", "9", "k1", "k2", "id", "name",
         "index", "default", "required", "items", "null", "length", "codec", "é", "ñandú", "漢", "a b", "A"]
INT_FMTS = "bBhHiIlLqQ"
WIDE_ENCODINGS = ["utf-16-le", "utf-16-be", "utf-32-le", "utf-32-be", "utf-16", "utf-32"]
SPECIAL_FLOATS = [0.0, -0.0, 1.0, -1.5, 0.1, 1e-3, 3.5, 1 / 3, 2.0**-149, 2.0**-150, 2.0**-126, 1e-40, 1e-46,
                  3.4028234663852886e38, 16777217.0, 16777219.0, 1e10, 6.02e23, float("inf"), float("-inf"),
                  float("nan"), 5e-324, 1.7976931348623157e308, 2.5, 1 + 2.0**-23, 1 + 2.0**-24, 1 + 3 * 2.0**-24]
CHARS = "abcXYZ 09_-éñü漢字😀\x00\x00"


def gen_leaf(rng, plain=False):
    r = rng.random()
    if r < 0.5:
        c = rng.choice(INT_FMTS + "fd" + "fd")
        t = "number" if c in "fd" and rng.random() < 0.7 else rng.choice(["integer", "number", "integer"])
        if rng.random() < 0.1:
            return {"type": "boolean", "binaryFormat": "?"}
        if not plain and rng.random() < 0.04:     # documented but odd pairings
            return rng.choice([{"type": "integer", "binaryFormat": "?"}, {"type": "boolean", "binaryFormat": "b"},
                               {"type": "boolean", "binaryFormat": "H"}])
        return {"type": t, "binaryFormat": c}
    if r < 0.8:
        k = rng.random()
        if k < 0.1:
            fmt = "c"
        elif k < 0.2:
            fmt = rng.choice(["s", "p"])
        elif k < 0.75:
            fmt = "%ds" % rng.choice([0, 1, 2, 3, 4, 5, 8, 12, 12, 255, 256, 300] if not plain else [1, 2, 3, 4, 8, 12])
        else:
            fmt = "%dp" % rng.choice([1, 2, 3, 5, 8, 12, 255, 256, 257, 300] if not plain else [2, 3, 5, 8, 12])
        s = {"type": "string", "binaryFormat": fmt}
        if rng.random() < 0.4:
            s["nullTerminated"] = rng.random() < 0.8
        if rng.random() < 0.3:
            s["stringEncoding"] = rng.choice(["utf-8", "ascii", "latin-1", "latin-1"] + WIDE_ENCODINGS if not plain
                                             else ["utf-8", "ascii", "latin-1"])
            if s["stringEncoding"] in WIDE_ENCODINGS and fmt[-1] in "sp" and fmt not in ("s", "p"):
                # multi-byte code units: make NUL termination and fixed widths meet them often
                if rng.random() < 0.7:
                    s["nullTerminated"] = True
                if rng.random() < 0.7:
                    s["binaryFormat"] = "%d%s" % (rng.choice([4, 8, 12, 16, 24, 7]), fmt[-1])
        return s
    k = rng.random()
    if k < 0.3:
        return {"type": "null"}
    return {"type": "null", "binaryFormat": rng.choice(["x", "0x", "1x", "2x", "3x", "5x", "16x"])}


def gen_array(rng, depth, plain=False):
    s = {"type": "array", "items": gen_node(rng, depth - 1, plain)}
    k = rng.random()
    if k < 0.35:
        s["length"] = rng.choice([0, 1, 2, 2, 3, 4])
    elif k < 0.85:
        s["arrayLengthFormat"] = rng.choice("BHILQ")
    if "length" not in s and rng.random() < 0.1:
        s["noLengthEncodingExhaustBuffer"] = False
    return s


def gen_index(rng, style):
    if style == 0:
        return None
    if style == 4:
        return rng.choice([None, 0, 0, 1])                    # un-indexed (= 0) mixed with explicit ties
    if style == 1:
        return rng.choice([0, 1, 2, 3])                      # many ties
    if style == 2:
        return rng.choice([-2, -1, 0, 1, 5, 10, 1000])
    return rng.choice([-1.5, -0.25, 0, 0.0, 0.5, 1, 1.0, 1.25, 2.75, 1e3])


def gen_object(rng, depth, plain=False, top=False):
    n = rng.choice([0, 1, 1, 2, 2, 3, 3, 4, 5, 6]) if depth > 0 else rng.choice([1, 2])
    names = rng.sample(NAMES, n)
    style = rng.choice([0, 0, 1, 2, 3, 4, 4])
    if style in (1, 4) and rng.random() < 0.5:
        names = sorted(names, reverse=True)                  # dict order opposite to name order
    props = {}
    for k in names:
        p = gen_node(rng, depth - 1, plain)
        ix = gen_index(rng, style)
        if ix is not None and (style == 4 or rng.random() < 0.8):
            p["index"] = ix
        props[k] = p
    s = {"type": "object", "properties": props}
    # defaults (a default must itself be a valid in-domain value to be usable)
    for k, p in props.items():
        if rng.random() < 0.3:
            p["default"] = tag_free(gen_value(rng, p))
    r = rng.random()
    if r < 0.15:
        s["required"] = [k for k, p in props.items() if "default" not in p or rng.random() < 0.3]
    elif r < 0.2:
        s["required"] = list(props)
    # the author may write additionalProperties either way: modify_schema forces it to false
    r = rng.random()
    if r < 0.2:
        s["additionalProperties"] = True
    elif r < 0.3:
        s["additionalProperties"] = False
    return s


def gen_node(rng, depth, plain=False):
    if depth <= 0:
        return gen_leaf(rng, plain)
    r = rng.random()
    if r < 0.55:
        return gen_leaf(rng, plain)
    if r < 0.8:
        return gen_array(rng, depth, plain)
    return gen_object(rng, depth, plain)


def gen_struct_schema(rng, depth=3, plain=False, objnull=None):
    s = gen_object(rng, depth, plain, top=True)
    out = {"codec": "struct"}
    out.update(s)
    if objnull is None:
        objnull = rng.random() < 0.15
    if objnull:
        out["type"] = ["object", "null"]
    return out


def tag_free(v):
    """defaults live inside the schema (plain JSON): keep floats that JSON carries exactly"""
    return v


def gen_string(rng, s):
    c, n = parse_fmt(s["binaryFormat"])
    enc = s.get("stringEncoding", "utf-8")
    if c == "c":
        pool = "abcXYZ09 " if enc != "latin-1" else "abé\xffZ"
        return rng.choice(pool)
    target = n if c == "s" else max(n - 1, 0)
    if enc in WIDE_ENCODINGS:
        unit = 4 if "32" in enc else 2
        target = max(target // unit - (1 if enc in ("utf-16", "utf-32") else 0), 0)
    ln = max(0, rng.choice([0, 1, target - 1, target, target, target + 1, target + 3, rng.randrange(0, target + 5)]))
    ln = min(ln, 320)
    if enc == "ascii":
        pool = "abcXYZ 09_-\x00"
    elif enc == "latin-1":
        pool = "abcXYZ 09éñü\xff\x00"
    elif enc in WIDE_ENCODINGS:
        pool = "abcXYZ 09éñü漢\x00" if rng.random() < 0.8 else CHARS
    else:
        pool = CHARS if rng.random() < 0.12 else "abcdefgh XYZ\x00"
    return "".join(rng.choice(pool) for _ in range(ln))


def gen_number(rng, s):
    c = s["binaryFormat"]
    t = s["type"]
    if t == "boolean":
        return rng.random() < 0.5
    if c == "?":
        return rng.choice([0, 1, 2, -1, 255])
    if c in INT_RANGE:
        lo, hi = INT_RANGE[c]
        v = rng.choice([lo, hi, 0, 1, max(lo, -1), rng.randint(lo, hi), rng.randint(max(lo, -300), min(hi, 300))])
        return v
    # f / d
    k = rng.random()
    if t == "integer":
        return rng.choice([0, 1, -7, 2**24 + 1, 2**53, -2**53, rng.randint(-10**6, 10**6)]) if k < 0.7 else float(rng.randint(-1000, 1000))
    if k < 0.25:
        return rng.choice([0, 3, -12, 2**24 + 1, 2**40 + 1])
    if k < 0.6:
        x = rng.choice(SPECIAL_FLOATS)
    else:
        x = bits2f(rng.getrandbits(64))
        if x != x:
            x = float("nan")
    if c == "f" and x == x and abs(x) != math.inf and abs(x) > 3.4028235677973362e38:
        x = math.copysign(rng.choice([1e38, 3.4028234663852886e38, 2.5]), x)
    return x


def gen_value(rng, s, omit_defaults=True):
    """a conforming, in-domain (untagged) value for schema node s"""
    t = s.get("type")
    if isinstance(t, list):
        if rng.random() < 0.3:
            return None
        t = "object"
    if t == "object":
        out = {}
        req = ref_required(s)
        items = list(s.get("properties", {}).items())
        rng.shuffle(items)
        for k, p in items:
            if "default" in p and k not in req and omit_defaults and rng.random() < 0.5:
                continue
            out[k] = gen_value(rng, p, omit_defaults)
        return out
    if t == "array":
        if "length" in s:
            n = max(int(s["length"]), 0)
        else:
            n = rng.choice([0, 1, 2, 3, 3, 5])
        return [gen_value(rng, s["items"], omit_defaults) for _ in range(n)]
    if t == "null":
        return None
    if t == "string":
        return gen_string(rng, s)
    return gen_number(rng, s)


WRONG = [None, True, 7, -1, 2.5, "str", "", [], [1], {}, {"zz": 1}]


def mutate_value(rng, s, v):
    """returns (mutated value, kind) where kind is 'schema' (JSON-schema violation) or
    'domain' (valid JSON-schema-wise, outside the binaryFormat's documented range) or None"""
    t = s.get("type")
    if isinstance(t, list):
        if v is None:
            return rng.choice([0, "x", [], False]), "schema"
        t = "object"
    if t == "object" and isinstance(v, dict):
        props = s.get("properties", {})
        r = rng.random()
        if s.get("additionalProperties") is True and r < 0.6:
            out = dict(v)
            extra = rng.choice(["extra", "zz", "a ", "A1", "unknown"])
            if extra not in props:
                out[extra] = rng.choice([1, None, "x", [1], {"q": 2}])
                return out, "schema"
        r = rng.random()
        keys = [k for k in v if k in props]
        if keys and r < 0.55:
            k = rng.choice(keys)
            m, kind = mutate_value(rng, props[k], v[k])
            if kind:
                out = dict(v)
                out[k] = m
                return out, kind
        req = [k for k in ref_required(s) if k in v]
        if req and r < 0.75:
            out = dict(v)
            del out[rng.choice(req)]
            return out, "schema"
        if r < 0.9:
            out = dict(v)
            extra = rng.choice(["extra", "zz", "a ", "A1"])
            if extra not in props:
                out[extra] = rng.choice([1, None, "x"])
                return out, "schema"
        return rng.choice([[], 3, "s", True]), "schema"
    if t == "array" and isinstance(v, list):
        r = rng.random()
        if v and r < 0.5:
            i = rng.randrange(len(v))
            m, kind = mutate_value(rng, s["items"], v[i])
            if kind:
                return v[:i] + [m] + v[i + 1:], kind
        if "length" in s and r < 0.8:
            if v and rng.random() < 0.5:
                return v[:-1], "domain"
            return v + [gen_value(rng, s["items"])], "domain"
        if s.get("arrayLengthFormat") == "B" and not s.get("noLengthEncodingExhaustBuffer") and "length" not in s \
                and r < 0.9 and not always_zero_width(s["items"]) is None:
            x = gen_value(rng, s["items"])
            return [x] * 256, "domain"
        return rng.choice([None, {}, 3, "s"]), "schema"
    if t == "null":
        return rng.choice([0, False, "", [], {}]), "schema"
    if t == "string":
        c, n = parse_fmt(s["binaryFormat"])
        if c == "c" and rng.random() < 0.5:
            return rng.choice(["", "ab", "xyz"]), "domain"
        return rng.choice([None, 5, 1.5, True, ["a"], {}]), "schema"
    c = s["binaryFormat"]
    if t == "boolean":
        return rng.choice([None, 0, 1, "true", 1.0, []]), "schema"
    r = rng.random()
    if c in INT_RANGE and r < 0.4:
        lo, hi = INT_RANGE[c]
        return rng.choice([lo - 1, hi + 1, hi + 2**64, lo - 2**70]), "domain"
    if c in INT_RANGE and t == "number" and r < 0.55:
        return rng.choice([0.5, -1.25, 1e300]), "domain"
    if c in INT_RANGE and r < 0.65:
        return float(rng.choice([0, 1, 3])), "domain"       # 3.0 is a JSON-schema integer, not a struct one
    if c == "f" and r < 0.3:
        return rng.choice([1e39, -1e300, 3.4028235677973366e38]), "domain"
    if t == "integer" and r < 0.8:
        return rng.choice([0.5, -2.75]), "schema"
    return rng.choice([None, True, False, "1", [1], {}]), "schema"


# --------------------------------------------------------------------------
# Implementation adapters
# --------------------------------------------------------------------------

def construct(schema):
    """-> (MetadataSchema | None, 'ok' | exception class name)"""
    import tskit
    try:
        return tskit.MetadataSchema(schema), "ok"
    except Exception as e:
        return None, exc_name(e)


def observe_rows(ms, values, want_str=True):
    """validate_and_encode_row + decode_row for each (tagged) value; the same through the
    schema's string form (repr -> parse_metadata_schema)."""
    import tskit.metadata as M
    rows = []
    ms2 = None
    str_obs = None
    if want_str:
        try:
            M.parse_metadata_schema.cache_clear()
            ms2 = M.parse_metadata_schema(repr(ms))
            str_obs = {"same_repr": repr(ms2) == repr(ms), "eq": bool(ms2 == ms)}
        except Exception as e:
            str_obs = {"exc": exc_name(e)}
    for tv in values:
        v = untag(tv)
        row = {}
        for name, m in (("", ms), ("s", ms2)):
            if m is None:
                continue
            st, r = guarded(lambda: m.validate_and_encode_row(v), ENC_SECONDS)
            if st != "ok":
                row["enc" + name] = {"exc": r} if st == "exc" else "HANG"
                continue
            row["enc" + name] = list(r)
            if name == "s" and row.get("dec") == "HANG" and row.get("enc") == row["encs"]:
                row["decs"] = "HANG"     # same bytes, same hang: do not pay the watchdog twice
                continue
            st, d = guarded(lambda: m.decode_row(r))
            row["dec" + name] = tag(d) if st == "ok" else ({"exc": d} if st == "exc" else "HANG")
        rows.append(row)
    return rows, str_obs


# --------------------------------------------------------------------------
# Oracle pieces shared by the struct families
# --------------------------------------------------------------------------

VALIDATION = "MetadataValidationError"
SCHEMA_ERR = "MetadataSchemaValidationError"


def classify_roundtrip_failure(schema):
    has, zero, nontail = exhaust_info(schema)
    if nontail:
        return "exhaust-nontail-roundtrip"
    return "roundtrip"


def oracle_row(schema, tv, row, prefix=""):
    """Evaluate the property text on one (schema, value, observation)."""
    out = []
    v = untag(tv)
    enc, dec = row.get("enc"), row.get("dec")
    has, zero, nontail = exhaust_info(schema)
    if not ref_valid(schema, v):
        if enc != {"exc": VALIDATION}:
            out.append((prefix + "invalid-object-not-rejected", "value %r violates the schema but validate_and_encode_row gave %r"
                        % (tv, enc)))
        return out
    try:
        exp = ref_encode(schema, v)
    except Domain as d:
        if isinstance(enc, list):
            key = "out-of-domain-silently-encoded"
            if "missing key without default" in str(d):
                key = "nested-keyerror-default-substituted"
            out.append((prefix + key, "%s: encoded as %r" % (d, enc)))
        return out
    if not isinstance(enc, list):
        out.append((prefix + "valid-object-rejected", "valid in-domain value %r -> %r" % (tv, enc)))
        return out
    if bytes(enc) != exp:
        out.append((prefix + "layout", "encoded %r, the ordered binaryFormat fields give %r" % (bytes(enc), exp)))
    if dec == "HANG":
        # a non-tail exhaust array can also feed the following fields' bytes to a length prefix
        # (2^32 zero-width elements): not an infinite loop, but it does not return either
        key = "exhaust-zero-width-hang" if zero else ("exhaust-nontail-roundtrip" if nontail else "decode-hang")
        out.append((prefix + key, "decode_row did not return"))
        return out
    try:
        norm = tag(ref_norm(schema, v))
    except SplitChar:
        if dec != {"exc": "UnicodeDecodeError"}:
            out.append((prefix + ("exhaust-nontail-roundtrip" if nontail else "split-char-no-error"),
                        "truncation split a character yet decode gave %r" % (dec,)))
        else:
            out.append((prefix + "string-truncation-splits-character",
                        "fixed-width truncation cut a multi-byte character; decode_row raises UnicodeDecodeError"))
        return out
    if isinstance(dec, dict) and set(dec) == {"exc"}:
        key = classify_roundtrip_failure(schema)
        if has_fmt(schema, lambda s: s.get("binaryFormat") == "0p") and dec["exc"] == "SystemError":
            key = "pascal-zero-count-decode-error"
        out.append((prefix + key, "decode_row(validate_and_encode_row(v)) raised %s" % dec["exc"]))
        return out
    if not deep_eq(dec, norm):
        key = classify_roundtrip_failure(schema)
        if is_objnull(schema) and v is not None and exp == b"" and dec is None:
            key = "object-or-null-empty-object-decodes-null"
        out.append((prefix + key, "decoded %r, expected %r" % (dec, norm)))
    elif isinstance(dec, dict) and isinstance(norm, dict):
        # dict order of the decoded row follows the encoding order
        pass
    return out


def oracle_str(case, obs):
    out = []
    so = obs.get("str")
    if so is None:
        return out
    if "exc" in so:
        return [("schema-string-roundtrip", "parse_metadata_schema(repr(schema)) raised %s" % so["exc"])]
    if not so["same_repr"] or not so["eq"]:
        out.append(("schema-string-roundtrip", "repr differs after str -> parse"))
    for tv, row in zip(case["values"], obs["rows"]):
        if row.get("enc") != row.get("encs") or not _same_dec(row.get("dec"), row.get("decs")):
            out.append(("schema-string-roundtrip", "value %r: (%r, %r) vs through string (%r, %r)"
                        % (tv, row.get("enc"), row.get("dec"), row.get("encs"), row.get("decs"))))
    return out


def _same_dec(a, b):
    if a is None or b is None:
        return a is b
    return deep_eq(a, b)


# --------------------------------------------------------------------------
# translation of (schema, value, observation) into terms of coq/theories/C12/Model.v
# --------------------------------------------------------------------------

class Untranslatable(Exception):
    """outside the fragment the Coq model speaks about (the case is oracle-only)"""


IFMT = {"b": "Ib", "B": "IB", "h": "Ih", "H": "IH", "i": "Ii", "I": "II", "l": "Il", "L": "IL", "q": "Iq", "Q": "IQ"}
JTY = {"number": "TNumber", "integer": "TInteger", "boolean": "TBoolean", "string": "TString", "null": "TNull"}
ERR = {"MetadataValidationError": "EValidation", "struct.error": "EStruct", "ValueError": "EValue", "KeyError": "EKey",
       "OverflowError": "EOverflow", "AttributeError": "EAttr", "SystemError": "ESystem"}
LEAF_KEYS = {"type", "binaryFormat", "nullTerminated", "stringEncoding", "index", "default"}
ARR_KEYS = {"type", "items", "length", "arrayLengthFormat", "noLengthEncodingExhaustBuffer", "index", "default"}
OBJ_KEYS = {"type", "properties", "required", "additionalProperties", "index", "default", "codec"}


def coq_bytes(b):
    return "[" + "; ".join(str(x) for x in b) + "]"


def coq_key(k):
    return coq_bytes(k.encode("utf-8"))


def coq_bfmt(fmt):
    c, n = parse_fmt(fmt)
    if c in IFMT:
        return "BInt %s" % IFMT[c]
    if n is None:
        return {"?": "BBool", "f": "BFloat", "d": "BDouble", "c": "BChar"}[c]
    return "%s %d" % ({"s": "BStr", "p": "BPas", "x": "BPad"}[c], n)


def node_encoding(s):
    if isinstance(s, dict) and s.get("type") == "string":
        enc = s.get("stringEncoding", "utf-8")
        if enc not in CODE_UNIT:
            raise Untranslatable("stringEncoding %r" % enc)
        return enc
    return "utf-8"


def coq_value(s, v):
    """schema-directed: strings become the bytes of str.encode(stringEncoding of their node)"""
    if v is None:
        return "VNull"
    if isinstance(v, bool):
        return "(VBool %s)" % ("true" if v else "false")
    if isinstance(v, int):
        return "(VInt %s)" % cz(v)
    if isinstance(v, float):
        return "(VFloat %d)" % f2bits(v)
    if isinstance(v, str):
        try:
            return "(VStr %s)" % coq_bytes(v.encode(node_encoding(s)))
        except UnicodeError:
            raise Untranslatable("string not encodable")
    if isinstance(v, list):
        it = s.get("items") if isinstance(s, dict) and s.get("type") == "array" else None
        return "(VArr [" + "; ".join(coq_value(it, x) for x in v) + "])"
    if isinstance(v, dict):
        props = s.get("properties", {}) if isinstance(s, dict) and (s.get("type") == "object" or isinstance(s.get("type"), list)) else {}
        return "(VObj [" + "; ".join("(%s, %s)" % (coq_key(k), coq_value(props.get(k), x)) for k, x in v.items()) + "])"
    raise Untranslatable("value %r" % (v,))


def coq_schema(s):
    t = s.get("type")
    if isinstance(t, list) or t == "object":
        # "additionalProperties" is dropped: modify_schema overwrites it with false whatever the
        # author wrote (ret["additionalProperties"] = False), which is all the model's [valid] knows
        if set(s) - OBJ_KEYS or not isinstance(s.get("additionalProperties", False), bool):
            raise Untranslatable("object keywords")
        props = []
        for k, p in s.get("properties", {}).items():
            ix = p.get("index", 0)
            if isinstance(ix, bool) or not isinstance(ix, (int, float)) or ix * 4 != int(ix * 4):
                raise Untranslatable("index")
            d = "None" if "default" not in p else "(Some %s)" % coq_value(p, p["default"])
            props.append("(%s, {| p_index := %s; p_default := %s |}, %s)" % (coq_key(k), cz(int(ix * 4)), d, coq_schema(p)))
        req = "None" if "required" not in s else "(Some [%s])" % "; ".join(coq_key(k) for k in s["required"])
        return "(SObj %s [%s])" % (req, "; ".join(props))
    if t == "array":
        if set(s) - ARR_KEYS:
            raise Untranslatable("array keywords")
        if "length" in s:
            if isinstance(s["length"], bool) or not isinstance(s["length"], int):
                raise Untranslatable("length")
            if s.get("noLengthEncodingExhaustBuffer", False) or "arrayLengthFormat" in s:
                raise Untranslatable("length together with another array mode")
            m = "(AFixed %s)" % cz(s["length"])
        elif s.get("noLengthEncodingExhaustBuffer", False):
            m = "AExhaust"
        else:
            m = "(ALen %s)" % IFMT[s.get("arrayLengthFormat", "L")]
        return "(SArr %s %s)" % (m, coq_schema(s["items"]))
    if t in JTY:
        if set(s) - LEAF_KEYS:
            raise Untranslatable("leaf keywords")
        node_encoding(s)
        f = "None" if "binaryFormat" not in s else "(Some (%s))" % coq_bfmt(s["binaryFormat"])
        unit = CODE_UNIT[node_encoding(s)] if s.get("nullTerminated", False) else 0
        return "(SLeaf %s %s %d%%nat)" % (JTY[t], f, unit)
    raise Untranslatable("type %r" % (t,))


def coq_top(s):
    return "{| t_nullable := %s; t_schema := %s |}" % ("true" if isinstance(s.get("type"), list) else "false", coq_schema(s))


def coq_oenc(enc):
    if isinstance(enc, list):
        return "(OB %s)" % coq_bytes(enc)
    if isinstance(enc, dict) and enc.get("exc") in ERR:
        return "(OE %s)" % ERR[enc["exc"]]
    raise Untranslatable("encode outcome %r" % (enc,))


def coq_odec(s, dec):
    if dec == "HANG":
        return "OHang"
    if isinstance(dec, dict) and set(dec) == {"exc"}:
        if dec["exc"] in ERR:
            return "(ODE %s)" % ERR[dec["exc"]]
        return "OSkip"
    return "(OV %s)" % coq_value(s, untag(dec))


CRES = {"ok": "CAccept", "MetadataSchemaValidationError": "CSchemaErr", "KeyError": "CKeyErr", "AttributeError": "CAttrErr"}


def coq_construct(schema, cons):
    """`the model's MetadataSchema() outcome = the observed one`, or None"""
    if cons not in CRES:
        return None
    try:
        return "cres_eqb (construct %s) %s" % (coq_top(schema), CRES[cons])
    except (Untranslatable, KeyError, TypeError, AttributeError):
        return None


def coq_rows(schema, values, rows, cons="ok"):
    """conjunction of check_row terms, or None when nothing is translatable"""
    try:
        top = coq_top(schema)
    except Untranslatable:
        return None
    terms = ["cres_eqb (construct c12_t) %s" % CRES[cons]]
    has, zero, nontail = exhaust_info(schema)
    for tv, row in zip(values, rows):
        if row.get("dec") == "HANG" and not zero:
            continue        # astronomically long finite loop (see oracle_row): the model would run it too
        try:
            oe = coq_oenc(row.get("enc"))
            od = coq_odec(schema, row["dec"]) if "dec" in row else "OSkip"
            terms.append("check_row c12_t %s %s %s" % (coq_value(schema, untag(tv)), oe, od))
        except Untranslatable:
            continue
    if not terms:
        return None
    return "(let c12_t := %s in %s)" % (top, " && ".join(terms))


def walk_objects(s):
    t = s.get("type")
    if isinstance(t, list) or t == "object":
        yield s
        for p in s.get("properties", {}).values():
            if isinstance(p, dict):
                yield from walk_objects(p)
    elif t == "array" and isinstance(s.get("items"), dict):
        yield from walk_objects(s["items"])


REPAIRED = [("repaired", "rejected at construction")]


def exhaust_not_last(s):
    """an exhaust-buffer array that is not (in) the last property of an object, or is inside
    array items — what docs/metadata.md forbids ("must be the last type in the encoded struct")"""
    t = s.get("type")
    if isinstance(t, list) or t == "object":
        items = ref_order(s.get("properties", {}))
        for i, (k, p) in enumerate(items):
            if exhaust_info(p)[0] and i < len(items) - 1:
                return True
            if exhaust_not_last(p):
                return True
        return False
    if t == "array":
        return exhaust_info(s["items"])[0]
    return False


def oracle_construct_valid(schema, cons):
    """a schema built by the rules of docs/metadata.md must be accepted.  Schemas of the finding
    classes F9a / F9b / F9f may instead be *refused* with MetadataSchemaValidationError (that is
    the proposed repair): then there is nothing further to check (REPAIRED)."""
    if cons == "ok":
        return []
    if cons == SCHEMA_ERR:
        has, zero, nontail = exhaust_info(schema)
        if zero or nontail or exhaust_not_last(schema) or has_fmt(schema, lambda s: re.fullmatch(r"0+p", str(s.get("binaryFormat", "")))):
            return REPAIRED
    names = set()
    for o in walk_objects(schema):
        names |= set(o.get("properties", {}))
    if "properties" in names:
        return [("property-named-properties-crash", "a property called 'properties' makes MetadataSchema() raise %s" % cons)]
    if "type" in names:
        return [("property-named-type-rejected", "a property called 'type' makes MetadataSchema() raise %s" % cons)]
    return [("valid-schema-rejected", "MetadataSchema() raised %s" % cons)]


class StructFamily(Family):
    prelude = "From TskVerif Require Import Base.Common C12.Model.\nOpen Scope Z_scope."
    timeout = 30.0
    workers = 8
    shard = 150

    def observe(self, case):
        ms, cons = construct(case["schema"])
        obs = {"construct": cons}
        if ms is None:
            return obs
        obs["repr_sorted"] = None
        rows, so = observe_rows(ms, case["values"])
        obs["rows"] = rows
        obs["str"] = so
        return obs

    def oracle(self, case, obs):
        out = oracle_construct_valid(case["schema"], obs["construct"])
        if out:
            return [] if out is REPAIRED else out
        for tv, row in zip(case["values"], obs["rows"]):
            out += oracle_row(case["schema"], tv, row)
        out += oracle_str(case, obs)
        return dedup(out)

    def coq_check(self, case, obs):
        if obs.get("construct") != "ok":
            # schemas refused for exhaust-buffer misuse or "0p": the model's constructor must agree
            # (other refusals, e.g. a property called "type", are outside the model: finding F9e)
            # and property names colliding with keywords (F9e): modelled by construct as well
            names = set()
            for o in walk_objects(case["schema"]):
                names |= set(o.get("properties", {}))
            if oracle_construct_valid(case["schema"], obs.get("construct")) is REPAIRED or names & {"properties", "type"}:
                return coq_construct(case["schema"], obs.get("construct"))
            return None
        return coq_rows(case["schema"], case["values"], obs["rows"])

    def nontrivial(self, case, obs):
        return obs.get("construct") == "ok" and any(isinstance(r.get("enc"), list) and len(r["enc"]) > 0
                                                    for r in obs.get("rows", []))

    def describe(self, case, obs):
        s = case["schema"]
        d = {"construct": obs.get("construct"), "objnull": is_objnull(s), "nprops": len(s.get("properties", {}))}
        for r in obs.get("rows", []):
            e = r.get("enc")
            d["row"] = "bytes" if isinstance(e, list) else (e if isinstance(e, str) else e.get("exc"))
        return d

    def shrink(self, case):
        s = case["schema"]
        vals = case["values"]
        if len(vals) > 1:
            for i in range(len(vals)):
                c = dict(case)
                c["values"] = [vals[i]]
                if "kinds" in case:
                    c["kinds"] = [case["kinds"][i]]
                yield c
        props = s.get("properties", {})
        for k in list(props):
            if "default" in props[k] or len(props) <= 1:
                continue
            c = json.loads(json.dumps(case))
            del c["schema"]["properties"][k]
            if "required" in c["schema"]:
                c["schema"]["required"] = [x for x in c["schema"]["required"] if x != k]
            c["values"] = [drop_key(v, k) for v in c["values"]]
            yield c


def drop_key(v, k):
    if isinstance(v, dict) and not is_tf(v):
        return {a: b for a, b in v.items() if a != k}
    return v


def dedup(fs):
    seen, out = set(), []
    for k, m in fs:
        if k not in seen:
            seen.add(k)
            out.append((k, m))
    return out


def gen_f9c_case(rng):
    """a nested object whose explicit "required" leaves out a property without default (accepted,
    F9c); rows that omit it: KeyError, or — when the enclosing property has a default — the
    default silently encoded instead (object_encode's except KeyError)"""
    names = rng.sample(["a", "b", "c", "d"], rng.choice([2, 3]))
    props = {k: {"type": "integer", "binaryFormat": rng.choice("bhiq")} for k in names}
    opt = rng.sample(names, rng.choice([1, len(names) - 1]))
    inner = {"type": "object", "properties": props, "required": [k for k in names if k not in opt]}
    if rng.random() < 0.6:
        inner["default"] = {k: rng.randrange(-9, 9) for k in names}
    wrap = rng.random()
    if wrap < 0.5:
        schema = {"codec": "struct", "type": "object", "properties": {"o": inner, "z": dict(I32)}}
        mk = lambda o: {"o": o, "z": 7}                                     # noqa: E731
    else:
        inner2 = dict(inner)
        schema = {"codec": "struct", "type": "object",
                  "properties": {"w": {"type": "array", "items": inner2, "arrayLengthFormat": "B"}}}
        inner2.pop("default", None)
        if rng.random() < 0.5:
            schema["properties"]["w"]["default"] = []
        mk = lambda o: {"w": [o]}                                           # noqa: E731
    vals = []
    for _ in range(3):
        o = {k: rng.randrange(-9, 9) for k in names}
        for k in opt:
            if rng.random() < 0.6:
                del o[k]
        vals.append(mk(o))
    return {"schema": schema, "values": vals}


class StructRoundTrip(StructFamily):
    """valid schemas x conforming values: round trip, layout, string form"""
    name = "struct_roundtrip"

    def generate(self, rng, tier):
        yield from handwritten_cases()
        for _ in range(40 if tier == "quick" else 400):
            yield gen_f9c_case(rng)
        n = 500 if tier == "quick" else 8000
        for i in range(n):
            plain = i % 3 == 0
            s = gen_struct_schema(rng, depth=rng.choice([1, 2, 2, 3]), plain=plain)
            vals = [tag(gen_value(rng, s)) for _ in range(rng.choice([1, 2, 3]))]
            yield {"schema": s, "values": vals}


class StructInvalidValue(StructFamily):
    """valid schemas x non-conforming values: schema violations raise MetadataValidationError,
    values outside a binaryFormat's documented range raise (never encode silently)"""
    name = "struct_invalid_value"

    def generate(self, rng, tier):
        n = 400 if tier == "quick" else 5000
        made = 0
        while made < n:
            s = gen_struct_schema(rng, depth=rng.choice([1, 2, 3]), plain=True)
            if not s["properties"]:
                continue
            vals, kinds = [], []
            for _ in range(3):
                v = gen_value(rng, s)
                m, kind = mutate_value(rng, s, v)
                if kind is None:
                    continue
                vals.append(tag(m))
                kinds.append(kind)
            if vals:
                made += 1
                yield {"schema": s, "values": vals, "kinds": kinds}

    def oracle(self, case, obs):
        out = super().oracle(case, obs)
        # the generator's intent must agree with the oracle's own notion (guards the generator)
        for tv, kind in zip(case["values"], case["kinds"]):
            v = untag(tv)
            if kind == "schema" and ref_valid(case["schema"], v):
                out.append(("generator-bug", "mutation labelled schema-invalid is valid: %r" % (tv,)))
        return out

    def nontrivial(self, case, obs):
        return obs.get("construct") == "ok"


I32 = {"type": "integer", "binaryFormat": "i"}


def handwritten_cases():
    def S(props, **kw):
        d = {"codec": "struct", "type": "object", "properties": props}
        d.update(kw)
        return d
    F = lambda x: {"$f": "%016x" % f2bits(x)}      # noqa: E731
    yield {"schema": S({"a": I32, "b": {"type": "string", "binaryFormat": "5s"},
                        "c": {"type": "array", "items": {"type": "number", "binaryFormat": "f"}, "arrayLengthFormat": "B"}}),
           "values": [{"a": 3, "b": "hello world", "c": [F(1.1), F(2.5)]}, {"a": -1, "b": "", "c": []}]}
    # the documentation's example schema (docs/metadata.md, sec_metadata_schema_examples)
    yield {"schema": S({"accession_number": {"type": "integer", "binaryFormat": "i"},
                        "collection_date": {"type": "string", "binaryFormat": "10p", "pattern": "^([1-9][0-9]{3})-(1[0-2]|0[1-9])-(3[01]|0[1-9]|[12][0-9])?$"},
                        "phenotypes": {"type": "array", "items": {"type": "object", "properties": {
                            "height": {"type": "number", "binaryFormat": "f"}, "age": {"type": "number", "binaryFormat": "h"}},
                            "default": {"height": -1, "age": -1}}, "arrayLengthFormat": "H"}},
                       required=["accession_number", "collection_date", "phenotypes"], additionalProperties=False),
           "values": [{"accession_number": 12, "collection_date": "2020-01-31", "phenotypes": [{"height": F(1.5), "age": 3}]}]}
    # ordering: index ties broken alphabetically, negative and fractional indexes
    yield {"schema": S({"z": dict(I32, index=0), "a": dict(I32, index=1), "m": dict(I32, index=0), "B": I32,
                        "q": dict(I32, index=-0.5), "r": dict(I32, index=1.0)}),
           "values": [{"z": 1, "a": 2, "m": 3, "B": 4, "q": 5, "r": 6}]}
    # tied indexes written in reverse name order; un-indexed (0) mixed with explicit 0 and 1
    yield {"schema": S({"z": dict(I32, index=0), "y": I32, "x": dict(I32, index=0), "b": dict(I32, index=1), "a": dict(I32, index=1)}),
           "values": [{"z": 1, "y": 2, "x": 3, "b": 4, "a": 5}]}
    yield {"schema": S({"o": {"type": "object", "properties": {"q": dict(I32, index=2), "p": dict(I32, index=2), "c": I32}},
                        "w": {"type": "array", "length": 1, "items": {"type": "object", "properties": {
                            "n": dict(I32, index=0), "m": I32}}}}),
           "values": [{"o": {"q": 1, "p": 2, "c": 3}, "w": [{"n": 4, "m": 5}]}]}
    # multi-byte code units: NUL termination is on characters, widths are in bytes
    for enc in WIDE_ENCODINGS:
        for fmt in ("8s", "12s", "16p", "7s"):
            for nt in (True, False):
                sch = {"type": "string", "binaryFormat": fmt, "stringEncoding": enc}
                if nt:
                    sch["nullTerminated"] = True
                yield {"schema": S({"s": sch}), "values": [{"s": v} for v in ("", "a", "ab", "a\x00b", "é漢", "abcdefgh")]}
    # every numeric format at its range ends
    for c, (lo, hi) in INT_RANGE.items():
        yield {"schema": S({"v": {"type": "integer", "binaryFormat": c}}), "values": [{"v": lo}, {"v": hi}, {"v": 0}]}
    for x in SPECIAL_FLOATS:
        yield {"schema": S({"f": {"type": "number", "binaryFormat": "f"}, "d": {"type": "number", "binaryFormat": "d"}}),
               "values": [{"f": F(x) if abs(x) <= 3.4028235677973362e38 or x != x or math.isinf(x) else F(1.0), "d": F(x)}]}
    # nested defaults, object|null
    yield {"schema": S({"o": {"type": "object", "properties": {"x": dict(I32, default=7), "y": {"type": "object", "properties": {
        "k": {"type": "string", "binaryFormat": "3s", "default": "ab"}}, "default": {}}}, "default": {"x": 1}}}),
        "values": [{}, {"o": {}}, {"o": {"y": {}}}, {"o": {"x": 2, "y": {"k": "zzzz"}}}]}
    yield {"schema": dict(S({"a": I32}), type=["object", "null"]), "values": [None, {"a": 5}]}
    yield {"schema": dict(S({}), type=["object", "null"]), "values": [None, {}]}
    yield {"schema": dict(S({"p": {"type": "null", "binaryFormat": "0x"}, "n": {"type": "null"}}), type=["object", "null"]),
           "values": [{"p": None, "n": None}]}
    # witnesses of nested_validators_skipped_refuted (F9c), replayed on the real code every run
    yield {"schema": S({"o": {"type": "object", "properties": {"a": I32}, "required": []}}), "values": [{"o": {}}, {"o": {"a": 1}}]}
    yield {"schema": S({"o": {"type": "object", "properties": {"a": {"type": "array", "length": -2, "items": I32}}}}),
           "values": [{"o": {"a": []}}]}
    # object_encode's `except KeyError` swallowing a nested KeyError (F9c): the default of "o" is
    # encoded instead of the supplied {"b": 1}
    yield {"schema": S({"o": {"type": "object", "properties": {"a": I32, "b": I32}, "required": ["b"],
                              "default": {"a": 5, "b": 6}}}),
           "values": [{"o": {"b": 1}}, {"o": {"a": 1, "b": 2}}, {}]}
    # explicit additionalProperties: true (top level, nested, array items) is overridden
    yield {"schema": S({"a": I32, "o": {"type": "object", "properties": {"b": I32}, "additionalProperties": True},
                        "w": {"type": "array", "arrayLengthFormat": "B",
                              "items": {"type": "object", "properties": {"c": I32}, "additionalProperties": True}}},
                       additionalProperties=True),
           "values": [{"a": 1, "o": {"b": 2}, "w": [{"c": 3}]}, {"a": 1, "o": {"b": 2}, "w": [], "extra": 5},
                      {"a": 1, "o": {"b": 2, "extra": 5}, "w": []}, {"a": 1, "o": {"b": 2}, "w": [{"c": 3, "extra": None}]}]}
    # property names that collide with schema keywords
    for nm in ("properties", "type", "required", "default", "items", "null", "index", "additionalProperties", "binaryFormat"):
        yield {"schema": S({nm: I32, "z": I32}), "values": [{nm: 1, "z": 2}]}
    yield {"schema": S({"o": {"type": "object", "properties": {"properties": I32}}}), "values": [{"o": {"properties": 1}}]}
    # strings: truncation, padding, NUL rules, Pascal strings, zero widths
    for fmt in ("0s", "s", "1s", "4s", "0p", "p", "1p", "2p", "4p", "256p", "257p", "c"):
        for nt in (None, True):
            sch = {"type": "string", "binaryFormat": fmt}
            if nt:
                sch["nullTerminated"] = True
            vals = ["", "a", "abc", "abcd", "abcde", "a\x00b", "é", "aé", "x" * 260]
            if fmt == "c":
                vals = ["a", "\x00", "Z"]
            yield {"schema": S({"s": sch}), "values": [{"s": v} for v in vals]}
    # arrays of every length format, nested arrays, fixed length
    for c in "BHILQ":
        yield {"schema": S({"a": {"type": "array", "items": {"type": "integer", "binaryFormat": "h"}, "arrayLengthFormat": c}}),
               "values": [{"a": []}, {"a": [1, -2, 3]}]}
    yield {"schema": S({"a": {"type": "array", "items": {"type": "integer", "binaryFormat": "B"}, "arrayLengthFormat": "B"}}),
           "values": [{"a": [1] * 255}, {"a": [1] * 256}]}
    yield {"schema": S({"a": {"type": "array", "items": {"type": "array", "length": 2, "items": {"type": "array", "items": I32}}}}),
           "values": [{"a": [[[1], []], [[2, 3], [4]]]}]}


class StructExhaust(StructFamily):
    """noLengthEncodingExhaustBuffer arrays: in tail position they round-trip; F9: zero-width
    items never return from decode; a non-tail position is accepted but does not round-trip."""
    name = "struct_exhaust"

    def generate(self, rng, tier):
        def S(props, **kw):
            d = {"codec": "struct", "type": "object", "properties": props}
            d.update(kw)
            return d

        def ex(items, **kw):
            d = {"type": "array", "items": items, "noLengthEncodingExhaustBuffer": True}
            d.update(kw)
            return d
        U8 = {"type": "integer", "binaryFormat": "B"}
        # tail position, positive-width items: must round-trip
        yield {"schema": S({"a": I32, "z": ex(U8)}), "values": [{"a": 1, "z": []}, {"a": 1, "z": [1, 2, 3]}], "class": "tail"}
        yield {"schema": S({"z": ex({"type": "object", "properties": {"x": U8, "y": {"type": "string", "binaryFormat": "2s"}}})}),
               "values": [{"z": [{"x": 1, "y": "ab"}, {"x": 2, "y": "cd"}]}], "class": "tail"}
        yield {"schema": S({"z": ex(U8), "zz": {"type": "null"}, "zzz": {"type": "null", "binaryFormat": "0x"}}),
               "values": [{"z": [5, 6], "zz": None, "zzz": None}], "class": "tail"}
        yield {"schema": S({"o": {"type": "object", "properties": {"k": U8, "z": ex(I32)}, "index": 5}, "a": U8}),
               "values": [{"o": {"k": 1, "z": [7, 8]}, "a": 2}], "class": "tail"}
        yield {"schema": S({"z": ex(U8, arrayLengthFormat="H")}), "values": [{"z": [1, 2]}], "class": "tail"}
        # zero-width items (F9a)
        for items in ({"type": "null"}, {"type": "string", "binaryFormat": "0s"}, {"type": "null", "binaryFormat": "0x"},
                      {"type": "object", "properties": {}}, {"type": "array", "length": 0, "items": U8},
                      {"type": "object", "properties": {"n": {"type": "null"}}}):
            v = gen_value(rng, items)
            yield {"schema": S({"z": ex(items)}), "values": [{"z": []}, {"z": [v, v]}], "class": "zero-width"}
        # non-tail (F9b)
        yield {"schema": S({"a": ex(U8), "z": I32}), "values": [{"a": [1, 2], "z": 7}, {"a": [], "z": 7}], "class": "nontail"}
        yield {"schema": S({"a": {"type": "array", "items": ex(U8), "arrayLengthFormat": "B"}}),
               "values": [{"a": [[1], [2, 3]]}], "class": "nontail"}
        yield {"schema": S({"a": ex(ex(U8))}), "values": [{"a": [[1], [2, 3]]}], "class": "nontail"}
        yield {"schema": S({"a": ex(U8), "z": {"type": "string", "binaryFormat": "1s"}}), "values": [{"a": [1], "z": "q"}], "class": "nontail"}
        # exhaust arrays *inside* nested objects / array-item objects, at every combination of
        # (last | not last) in their own object and (last | not last) of that object in its parent,
        # also under an ["object","null"] top level: only last-in-last is legal
        for objnull in (False, True):
            for inner_last in (True, False):
                for outer_last in (True, False):
                    for depth in (1, 2):
                        inner = {"k": dict(U8, index=0), "z": dict(ex(I32), index=1 if inner_last else -1)}
                        node = {"type": "object", "properties": inner}
                        val = {"k": 1, "z": [7, 8]}
                        for _ in range(depth - 1):
                            node = {"type": "object", "properties": {"p": dict(U8, index=0), "q": dict(node, index=1)}}
                            val = {"p": 2, "q": val}
                        sch = S({"a": dict(U8, index=0), "o": dict(node, index=1 if outer_last else -1)})
                        if objnull:
                            sch["type"] = ["object", "null"]
                        yield {"schema": sch, "values": [{"a": 3, "o": val}], "class": "nested"}
        yield {"schema": S({"w": {"type": "array", "length": 2, "items": {"type": "object", "properties": {"k": U8, "z": ex(U8)}}}}),
               "values": [{"w": [{"k": 1, "z": [1]}, {"k": 2, "z": []}]}], "class": "nested"}
        n = 150 if tier == "quick" else 1500
        for i in range(n):
            s = gen_struct_schema(rng, depth=2, plain=True, objnull=rng.random() < 0.15)
            if not s["properties"]:
                continue
            items = gen_node(rng, 1, plain=True)
            if rng.random() < 0.06:
                items = rng.choice([{"type": "null"}, {"type": "string", "binaryFormat": "0s"}, {"type": "null", "binaryFormat": "0x"}])
            mode = rng.random()
            arr = ex(items)
            if rng.random() < 0.4:
                # bury the array in a nested object (sometimes two deep), itself last or not
                for _ in range(rng.choice([1, 1, 2])):
                    inner = {"k%d" % j: gen_leaf(rng, plain=True) for j in range(rng.choice([0, 1, 2]))}
                    if rng.random() < 0.6:
                        arr["index"] = 1000
                    inner["e"] = arr
                    arr = {"type": "object", "properties": inner}
            if mode < 0.6:
                # make it the last field in encoding order
                top = max([p.get("index", 0) for p in s["properties"].values()] + [0])
                arr["index"] = top + 1
                s["properties"]["zzzz"] = arr
            else:
                if rng.random() < 0.5:
                    arr["index"] = rng.choice([-5, 0, 1])
                s["properties"]["a0"] = arr
            s.pop("required", None)
            yield {"schema": s, "values": [tag(gen_value(rng, s)) for _ in range(2)], "class": "random"}

    def describe(self, case, obs):
        has, zero, nontail = exhaust_info(case["schema"])
        return {"class": "zero-width" if zero else ("nontail" if nontail else "tail")}

    def shrink(self, case):
        if len(case["values"]) > 1:
            for v in case["values"]:
                c = dict(case)
                c["values"] = [v]
                yield c


# --------------------------------------------------------------------------
# schemas that break the documented struct-codec rules
# --------------------------------------------------------------------------

def schema_nodes(s, path=()):
    """(path, node, depth) for every schema node; depth 0 = the top-level object,
    1 = its properties, >= 2 = nested"""
    yield path, s
    t = s.get("type")
    if isinstance(t, list) or t == "object":
        for k, p in s.get("properties", {}).items():
            yield from schema_nodes(p, path + ("properties", k))
    elif t == "array":
        yield from schema_nodes(s["items"], path + ("items",))


def node_at(s, path):
    for k in path:
        s = s[k]
    return s


def break_schema(rng, s):
    """-> (broken schema, rule, where) or None.  where: 'top' = the top-level object or one of
    its direct properties, 'nested' = deeper."""
    s = json.loads(json.dumps(s))
    nodes = list(schema_nodes(s))
    rng.shuffle(nodes)
    rules = ["binaryformat-missing", "binaryformat-endian", "binaryformat-bad", "type-union", "type-unknown",
             "items-heterogeneous", "arraylengthformat-bad", "length-and-exhaust", "length-and-arraylengthformat",
             "length-negative", "length-not-integer", "index-not-number", "nullterminated-not-bool",
             "exhaust-not-bool", "stringencoding-not-string", "optional-without-default", "null-nonpad-format",
             "items-missing", "properties-missing", "codec-missing", "codec-unknown", "top-type"]
    rng.shuffle(rules)
    for rule in rules:
        if rule == "codec-missing":
            del s["codec"]
            return s, rule, "top"
        if rule == "codec-unknown":
            s["codec"] = rng.choice(["xml", "STRUCT", "", "msgpack"])
            return s, rule, "top"
        if rule == "top-type":
            s["type"] = rng.choice(["array", "string", ["null", "object"], ["object", "string"], "null"])
            return s, rule, "top"
        for path, node in nodes:
            depth = sum(1 for k in path if k in ("properties", "items") and True)
            depth = len([1 for i, k in enumerate(path) if (k == "items") or (k == "properties" and i % 2 == 0)])
            where = "top" if len(path) <= 2 and "items" not in path else "nested"
            t = node.get("type")
            leaf = t in LEAF_TYPES
            if rule == "binaryformat-missing" and leaf and t != "null" and path:
                del node["binaryFormat"]
            elif rule == "binaryformat-endian" and leaf and "binaryFormat" in node:
                node["binaryFormat"] = rng.choice("<>=!@") + node["binaryFormat"]
            elif rule == "binaryformat-bad" and leaf and "binaryFormat" in node:
                node["binaryFormat"] = rng.choice(["zz", "ii", "3i", "e", "n", "P", "", "s3", "2?", "i ", "4 s"])
            elif rule == "type-union" and leaf and path:
                node["type"] = [t, "null"] if t != "null" else ["null", "integer"]
            elif rule == "type-unknown" and leaf:
                node["type"] = rng.choice(["int", "float", "str", "bool", "Integer"])
            elif rule == "items-heterogeneous" and t == "array":
                node["items"] = [node["items"], node["items"]]
            elif rule == "arraylengthformat-bad" and t == "array" and "length" not in node:
                node["arrayLengthFormat"] = rng.choice(["b", "h", "x", "LL", "", "q", "<L", "f"])
            elif rule == "length-and-exhaust" and t == "array" and "length" in node:
                node["noLengthEncodingExhaustBuffer"] = True
            elif rule == "length-and-arraylengthformat" and t == "array" and "length" in node:
                node["arrayLengthFormat"] = rng.choice("BHILQ")
            elif rule == "length-negative" and t == "array" and "arrayLengthFormat" not in node:
                node["length"] = rng.choice([-1, -2, -100])
                node.pop("noLengthEncodingExhaustBuffer", None)
            elif rule == "length-not-integer" and t == "array" and "arrayLengthFormat" not in node:
                node["length"] = rng.choice(["3", 2.5, [2], None])
                node.pop("noLengthEncodingExhaustBuffer", None)
            elif rule == "index-not-number" and path:
                node["index"] = rng.choice(["1", True, None, [1]])
            elif rule == "nullterminated-not-bool" and t == "string":
                node["nullTerminated"] = rng.choice([1, 0, "true", None])
            elif rule == "exhaust-not-bool" and t == "array" and "length" not in node:
                node["noLengthEncodingExhaustBuffer"] = rng.choice([1, "yes", None])
            elif rule == "stringencoding-not-string" and t == "string":
                node["stringEncoding"] = rng.choice([8, None, ["utf-8"]])
            elif rule == "optional-without-default" and (t == "object" or isinstance(t, list)) and \
                    any("default" not in p for p in node.get("properties", {}).values()):
                k = rng.choice([k for k, p in node["properties"].items() if "default" not in p])
                node["required"] = [x for x in node["properties"] if x != k]
                where = "top" if not path else "nested"
            elif rule == "null-nonpad-format" and t == "null" and path and path[-1] != "null":
                node["binaryFormat"] = rng.choice(["i", "3s", "c", "d"])
            elif rule == "items-missing" and t == "array":
                del node["items"]
            elif rule == "properties-missing" and (t == "object" or isinstance(t, list)) and "default" not in node:
                del node["properties"]
                node.pop("required", None)
                where = "top" if not path else "nested"
            else:
                continue
            return s, rule, where
    return None


class StructInvalidSchema(Family):
    """schemas violating the struct codec's documented schema rules (docs/metadata.md, the
    meta-schema and its extra validators) must raise MetadataSchemaValidationError"""
    name = "struct_invalid_schema"
    workers = 8

    def generate(self, rng, tier):
        n = 500 if tier == "quick" else 6000
        made = 0
        while made < n:
            s = gen_struct_schema(rng, depth=rng.choice([1, 2, 3]), plain=True)
            r = break_schema(rng, s)
            if r is None:
                continue
            made += 1
            yield {"schema": r[0], "rule": r[1], "where": r[2]}

    prelude = "From TskVerif Require Import Base.Common C12.Model.\nOpen Scope Z_scope."

    def observe(self, case):
        st, r = guarded(lambda: construct(case["schema"])[1], 5.0)
        return {"construct": r if st == "ok" else ("HANG" if st == "hang" else r)}

    def coq_check(self, case, obs):
        if case["rule"] not in ("binaryformat-missing", "length-negative", "optional-without-default",
                                "null-nonpad-format"):
            return None            # the other rule violations are not expressible in the model's schema type
        return coq_construct(case["schema"], obs["construct"])

    def oracle(self, case, obs):
        c = obs["construct"]
        if c == SCHEMA_ERR:
            return []
        if c == "ok":
            return [("schema-violation-accepted:%s:%s" % (case["rule"], case["where"]),
                     "schema breaking rule %s (%s) was accepted" % (case["rule"], case["where"]))]
        return [("schema-violation-wrong-exception:%s:%s:%s" % (case["rule"], case["where"], c),
                 "schema breaking rule %s (%s) raised %s, not MetadataSchemaValidationError" % (case["rule"], case["where"], c))]

    def describe(self, case, obs):
        return {"rule": case["rule"], "where": case["where"], "construct": obs["construct"]}

    def shrink(self, case):
        return []


# --------------------------------------------------------------------------
# table-level paths and the numpy structured view
# --------------------------------------------------------------------------

KINDS = ["individuals", "nodes", "edges", "sites", "mutations", "migrations", "populations"]
ROW_ACCESSOR = {"individuals": "individual", "nodes": "node", "edges": "edge", "sites": "site",
                "mutations": "mutation", "migrations": "migration", "populations": "population"}


def add_rows(kind, ms, values):
    """A small valid table collection whose `kind` table carries one row per value, inserted
    through table.add_row(metadata=value) with the schema set on the table.
    -> (tables, [row index | {"exc": class}])"""
    import tskit
    tc = tskit.TableCollection(sequence_length=1.0)
    n = len(values)
    t = getattr(tc, kind)
    t.metadata_schema = ms
    res = []
    if kind in ("edges", "mutations", "migrations"):
        for i in range(n + 2):
            tc.nodes.add_row(flags=0, time=float(i))
    if kind == "migrations":
        tc.populations.add_row()
        tc.populations.add_row()
    if kind == "mutations":
        for i in range(n + 1):
            tc.sites.add_row(position=i / (n + 2), ancestral_state="A")
    for i, tv in enumerate(values):
        v = untag(tv)
        k = len(t)
        try:
            if kind == "individuals":
                r = t.add_row(flags=0, metadata=v)
            elif kind == "nodes":
                r = t.add_row(flags=0, time=float(k), metadata=v)
            elif kind == "edges":
                r = t.add_row(left=0.0, right=1.0, parent=k + 1, child=k, metadata=v)
            elif kind == "sites":
                r = t.add_row(position=k / (n + 2), ancestral_state="A", metadata=v)
            elif kind == "mutations":
                r = t.add_row(site=k, node=0, derived_state="T", metadata=v)
            elif kind == "migrations":
                r = t.add_row(left=0.0, right=1.0, node=0, source=0, dest=1, time=float(k), metadata=v)
            else:
                r = t.add_row(metadata=v)
            res.append(int(r))
        except Exception as e:
            res.append({"exc": exc_name(e), "rows_after": len(t) - k})
    return tc, res


def add_rows_all(per_kind):
    """One valid table collection in which every table with a metadata column has its OWN schema
    and rows: per_kind = {kind: (MetadataSchema, [values])}; nodes need 3 values, the others 2."""
    import tskit
    tc = tskit.TableCollection(sequence_length=1.0)
    for kind, (ms, _) in per_kind.items():
        getattr(tc, kind).metadata_schema = ms
    v = {k: [untag(x) for x in vals] for k, (_, vals) in per_kind.items()}
    for m in v["populations"]:
        tc.populations.add_row(metadata=m)
    for m in v["individuals"]:
        tc.individuals.add_row(flags=0, metadata=m)
    for i, m in enumerate(v["nodes"]):
        tc.nodes.add_row(flags=0, time=float(i), metadata=m)
    for i, m in enumerate(v["edges"]):
        tc.edges.add_row(left=0.0, right=1.0, parent=i + 1, child=i, metadata=m)
    for i, m in enumerate(v["sites"]):
        tc.sites.add_row(position=(i + 1) / 8, ancestral_state="A", metadata=m)
    for i, m in enumerate(v["mutations"]):
        tc.mutations.add_row(site=i, node=0, derived_state="T", metadata=m)
    for i, m in enumerate(v["migrations"]):
        tc.migrations.add_row(left=0.0, right=1.0, node=0, source=0, dest=1, time=float(i) + 0.5, metadata=m)
    return tc


def raw_row(t, i):
    off = t.metadata_offset
    return bytes(t.metadata[int(off[i]):int(off[i + 1])].tobytes())


class TablePaths(StructFamily):
    """row insertion through table.add_row(metadata=...) with a schema set, row.metadata,
    ts.<row>(i).metadata, and the collection-level MetadataProvider (tables.metadata)"""
    name = "table_paths"

    def generate(self, rng, tier):
        n = 210 if tier == "quick" else 3000
        for i in range(n):
            s = gen_struct_schema(rng, depth=rng.choice([1, 2]), plain=True)
            vals, kinds = [], []
            for _ in range(3):
                v = gen_value(rng, s)
                if rng.random() < 0.35 and s["properties"]:
                    m, kind = mutate_value(rng, s, v)
                    if kind:
                        v = m
                vals.append(tag(v))
            yield {"schema": s, "values": vals, "kind": KINDS[i % len(KINDS)]}

    def observe(self, case):
        import tskit
        ms, cons = construct(case["schema"])
        obs = {"construct": cons}
        if ms is None:
            return obs
        tc, res = add_rows(case["kind"], ms, case["values"])
        t = getattr(tc, case["kind"])
        obs["schema_same"] = repr(t.metadata_schema) == repr(ms)
        rows = []
        ts = None
        st, r = guarded(lambda: (tc.build_index(), tc.tree_sequence())[1], 5.0)
        if st == "ok":
            ts = r
        else:
            obs["ts"] = r if st == "exc" else "HANG"
        for x in res:
            if isinstance(x, dict):
                rows.append({"enc": {"exc": x["exc"]}, "rows_after": x["rows_after"]})
                continue
            row = {"enc": list(raw_row(t, x))}
            st, d = guarded(lambda: t[x].metadata)
            row["dec"] = tag(d) if st == "ok" else ({"exc": d} if st == "exc" else "HANG")
            if ts is not None:
                st, d = guarded(lambda: getattr(ts, ROW_ACCESSOR[case["kind"]])(x).metadata)
                row["dec_ts"] = tag(d) if st == "ok" else ({"exc": d} if st == "exc" else "HANG")
            rows.append(row)
        obs["rows"] = rows
        # collection-level metadata (MetadataProvider setter/getter)
        tc2 = tskit.TableCollection(1.0)
        tc2.metadata_schema = ms
        top = []
        for tv in case["values"][:2]:
            def setter():
                tc2.metadata = untag(tv)
                return list(tc2.metadata_bytes)
            st, r = guarded(setter, ENC_SECONDS)
            if st == "ok":
                st, d = guarded(lambda: tc2.metadata)
                top.append({"enc": r, "dec": tag(d) if st == "ok" else ({"exc": d} if st == "exc" else "HANG")})
            else:
                top.append({"enc": {"exc": r} if st == "exc" else "HANG"})
        obs["top"] = top
        # more of the table-level API on the rows that were accepted: packset_metadata (rows encoded
        # by the schema object, packed into a table whose schema travelled as a string),
        # metadata_vector, the lazily decoded + cached row.metadata, reference_sequence.metadata
        ok_rows = [x for x in res if not isinstance(x, dict)]
        extra = {}

        def packset():
            tcp = tc.copy()
            tp = getattr(tcp, case["kind"])
            encs = [ms.validate_and_encode_row(untag(case["values"][j])) for j, x in enumerate(res) if not isinstance(x, dict)]
            tp.packset_metadata(encs)
            return [list(raw_row(tp, i)) for i in range(len(tp))] == [list(raw_row(t, i)) for i in range(len(t))] \
                and all(deep_eq(tag(tp[i].metadata), tag(t[i].metadata)) for i in range(len(tp)))
        clean = all(not (isinstance(r.get("dec"), dict) and set(r["dec"]) == {"exc"}) and r.get("dec") != "HANG"
                    for r in rows if "dec" in r)        # a row that does not decode (F9h ...) is reported by oracle_row
        if ok_rows and clean:
            st, r = guarded(packset, ENC_SECONDS)
            extra["packset"] = r if st == "ok" else ({"exc": r} if st == "exc" else "HANG")
            st, r = guarded(lambda: (lambda row: row.metadata is row.metadata)(t[ok_rows[0]]))
            extra["cached"] = r if st == "ok" else ({"exc": r} if st == "exc" else "HANG")
            firsts = [rows[k].get("dec") for k in range(len(rows)) if "dec" in rows[k]]
            keys = [k for k in case["schema"].get("properties", {}) if all(isinstance(d, dict) and not is_tf(d) and k in d for d in firsts)]
            if keys and firsts:
                key = keys[0]
                st, r = guarded(lambda: [tag(x) for x in t.metadata_vector(key, dtype=object).tolist()])
                extra["vector"] = {"key": key, "got": r if st == "ok" else ({"exc": r} if st == "exc" else "HANG"),
                                   "want": [d[key] for d in firsts]}
        tc3 = tskit.TableCollection(1.0)
        tc3.reference_sequence.metadata_schema = ms

        def refseq_set():
            tc3.reference_sequence.metadata = untag(case["values"][0])
            return list(tc3.reference_sequence.metadata_bytes)
        st, r = guarded(refseq_set, ENC_SECONDS)
        if st == "ok":
            st, d = guarded(lambda: tc3.reference_sequence.metadata)
            extra["refseq"] = {"enc": r, "dec": tag(d) if st == "ok" else ({"exc": d} if st == "exc" else "HANG")}
        else:
            extra["refseq"] = {"enc": {"exc": r} if st == "exc" else "HANG"}
        obs["extra"] = extra
        return obs

    def oracle(self, case, obs):
        out = oracle_construct_valid(case["schema"], obs["construct"])
        if out:
            return [] if out is REPAIRED else out
        if not obs["schema_same"]:
            out.append(("table-schema-roundtrip", "table.metadata_schema differs from the schema that was set"))
        if "ts" in obs:
            out.append(("adapter-tree-sequence", "tables.tree_sequence() failed: %s" % obs["ts"]))
        for tv, row in zip(case["values"], obs["rows"]):
            out += oracle_row(case["schema"], tv, row, prefix="")
            if "dec_ts" in row and not _same_dec(row.get("dec"), row.get("dec_ts")):
                out.append(("ts-row-metadata", "table row decodes to %r, tree sequence row to %r" % (row.get("dec"), row["dec_ts"])))
            if isinstance(row.get("enc"), dict) and row.get("rows_after", 0) != 0:
                out.append(("rejected-row-inserted", "add_row raised but the table grew"))
        for tv, row in zip(case["values"], obs["top"]):
            out += oracle_row(case["schema"], tv, row, prefix="")
        ex = obs.get("extra", {})
        if ex.get("packset", True) is not True:
            out.append(("packset-metadata", "rows encoded with the schema object and packed with packset_metadata differ from "
                        "the rows inserted with add_row (or decode differently): %r" % (ex["packset"],)))
        if ex.get("cached", True) is not True:
            out.append(("row-metadata-cache", "row.metadata is not cached / stable: %r" % (ex["cached"],)))
        if "vector" in ex:
            v = ex["vector"]
            if not (isinstance(v["got"], list) and len(v["got"]) == len(v["want"])
                    and all(deep_eq(a, b) for a, b in zip(v["got"], v["want"]))):
                out.append(("metadata-vector", "metadata_vector(%r) = %r, rows decode to %r" % (v["key"], v["got"], v["want"])))
        if "refseq" in ex and case["values"]:
            row = ex["refseq"]
            if "dec" not in row and isinstance(row.get("enc"), list):
                row = dict(row)
            out += oracle_row(case["schema"], case["values"][0], row, prefix="")
        return dedup(out)

    def describe(self, case, obs):
        return {"kind": case["kind"], "construct": obs.get("construct")}

    def shrink(self, case):
        return []


# --------------------------------------------------------------------------
# rows moved between tables whose metadata schemas differ
# --------------------------------------------------------------------------

def json_schema_from_struct(s):
    """a typed JSON-codec schema with the shape of struct schema node s"""
    t = s.get("type")
    if isinstance(t, list) or t == "object":
        props = {k: json_schema_from_struct(p) for k, p in s.get("properties", {}).items()}
        return {"type": "object", "properties": props, "required": sorted(props), "additionalProperties": False}
    if t == "array":
        return {"type": "array", "items": json_schema_from_struct(s["items"])}
    return {"type": "number" if t in ("number", "integer") else t}


def struct_variant(rng, a):
    """a struct schema related to a: same, wider formats, other order, a property dropped/added,
    another string width"""
    b = json.loads(json.dumps(a))
    props = b["properties"]
    k = rng.choice(["same", "widen", "reorder", "drop", "add", "width"])
    if k == "widen":
        for p in props.values():
            if p.get("binaryFormat") in ("b", "h", "i", "l"):
                p["binaryFormat"] = "q"
            elif p.get("binaryFormat") == "f":
                p["binaryFormat"] = "d"
    elif k == "reorder":
        for j, p in enumerate(sorted(props, reverse=True)):
            props[p]["index"] = j
    elif k == "drop" and len(props) > 1:
        del props[rng.choice(sorted(props))]
        b.pop("required", None)
    elif k == "add":
        props["added_"] = {"type": "integer", "binaryFormat": "B"}
        b.pop("required", None)
    elif k == "width":
        for p in props.values():
            if p.get("type") == "string" and p["binaryFormat"][-1] == "s":
                p["binaryFormat"] = "%ds" % rng.choice([1, 3, 9])
    return b


def expected_object(schema, tv):
    """the object row.metadata shows for a value stored under `schema` (None = no schema)"""
    v = untag(tv)
    if schema is None:
        return v
    if schema.get("codec") == "json":
        if isinstance(v, dict):
            d = {k: p["default"] for k, p in schema.get("properties", {}).items() if "default" in p}
            return dict(d, **v)
        return v
    return ref_norm(schema, v)


TRANSFER_KINDS = ["nodes", "individuals", "populations", "sites", "mutations"]
TRANSFER_OPS = [("setitem", False), ("setitem", True), ("append", False), ("append", True),
                ("setitem_replace", False), ("append_replace", False), ("setitem_ts", False), ("setitem_ts", True),
                ("append_ts", False)]


class RowTransfer(Family):
    """dst[j] = row / dst.append(row) for rows taken from another table or a tree sequence whose
    metadata schema differs from the destination's (json <-> struct, permissive -> strict, struct ->
    related struct, schema <-> no schema), with and without reading row.metadata first, and through
    row.replace(): the destination schema must validate and encode the *object* (or raise); what
    dst[j].metadata then shows is that object in the destination's normal form."""
    name = "row_transfer"
    workers = 8
    timeout = 60.0

    def generate(self, rng, tier):
        n = 160 if tier == "quick" else 2500
        made = 0
        while made < n:
            mode = rng.choice(["s2j", "s2jt", "j2s", "j2s", "s2s", "s2s", "s2n", "n2s", "j2j", "n2j", "j2n"])
            a = gen_struct_schema(rng, depth=rng.choice([1, 2]), plain=True, objnull=False)
            if not a["properties"] or exhaust_info(a)[0]:
                continue
            vals = [asciify(gen_value(rng, a)) for _ in range(2)]
            try:
                objs = [ref_norm(a, v) for v in vals]
                [ref_encode(a, v) for v in vals]
            except (Domain, SplitChar):
                continue
            src, dst, filler = a, None, None
            if mode == "s2j":
                dst, filler = {"codec": "json"}, {}
            elif mode == "s2jt":
                dst = dict(json_schema_from_struct(a), codec="json")
                filler = objs[0]
                if rng.random() < 0.4:                    # stricter: a key the source rows do not have
                    dst["required"] = dst["required"] + ["missing_"]
                    dst["properties"]["missing_"] = {"type": "integer"}
                    filler = dict(objs[0], missing_=1)
            elif mode == "j2s":
                src, dst, filler = {"codec": "json"}, a, vals[0]
                vals = [objs[0], objs[1]]                  # JSON-representable objects that fit the struct schema ...
                if rng.random() < 0.4:
                    m, kind = mutate_value(rng, a, vals[1])   # ... or not
                    if kind:
                        vals[1] = m
            elif mode == "s2s":
                dst = struct_variant(rng, a)
                try:
                    filler = asciify(gen_value(rng, dst))
                    ref_encode(dst, filler)
                except (Domain, SplitChar):
                    continue
            elif mode == "s2n":
                dst, filler = None, b""
            elif mode == "n2s":
                src, dst, filler = None, a, vals[0]
                vals = [ref_encode(a, vals[0]), b"", b"\x00\x01"]
            elif mode == "j2j":
                src = {"codec": "json"}
                dst = dict(json_schema_from_struct(a), codec="json")
                filler = objs[0]
                vals = [objs[0], rng.choice([{}, {"x": 1}, objs[1]])]
            elif mode == "n2j":
                src, dst, filler = None, {"codec": "json"}, {}
                vals = [b'{"a":1}', b""]
            elif mode == "j2n":
                src, dst, filler = {"codec": "json"}, None, b""
                vals = [objs[0], {}]
            made += 1
            yield {"mode": mode, "src": src, "dst": dst, "values": [tag(v) for v in vals], "filler": tag(filler),
                   "kind": TRANSFER_KINDS[made % len(TRANSFER_KINDS)]}

    def observe(self, case):
        import tskit
        kind = case["kind"]
        msA = tskit.MetadataSchema(case["src"])
        msB = tskit.MetadataSchema(case["dst"])
        n = len(case["values"])
        tcA, resA = add_rows(kind, msA, case["values"])
        if any(isinstance(x, dict) for x in resA):
            return {"source_rejected": resA}
        tcA.build_index()
        tsA = tcA.tree_sequence()
        out = []
        for op, touch in TRANSFER_OPS:
            for i in range(n):
                tcB, resB = add_rows(kind, msB, [case["filler"]] * n)
                if any(isinstance(x, dict) for x in resB):
                    return {"filler_rejected": resB}
                tB = getattr(tcB, kind)
                before = [list(raw_row(tB, j)) for j in range(len(tB))]
                row = getattr(tsA, ROW_ACCESSOR[kind])(i) if op.endswith("_ts") else getattr(tcA, kind)[i]
                rec = {"op": op, "touch": touch, "i": i}

                def do():
                    r = row
                    if touch:
                        r.metadata
                    if "replace" in op:
                        r = r.replace()
                    if op.startswith("setitem"):
                        tB[i] = r
                        return i
                    return int(tB.append(r))
                st, j = guarded(do, ENC_SECONDS)
                if st != "ok":
                    rec["enc"] = {"exc": j} if st == "exc" else "HANG"
                    rec["unchanged"] = [list(raw_row(tB, k)) for k in range(len(tB))] == before
                else:
                    rec["enc"] = list(raw_row(tB, j))
                    st, d = guarded(lambda: tB[j].metadata)
                    rec["dec"] = tag(d) if st == "ok" else ({"exc": d} if st == "exc" else "HANG")
                    rec["others_unchanged"] = [list(raw_row(tB, k)) for k in range(n) if k != j] == \
                        [before[k] for k in range(n) if k != j]
                out.append(rec)
        return {"ops": out}

    def oracle(self, case, obs):
        if "ops" not in obs:
            return [("adapter-transfer-setup", "could not set the case up: %r" % (obs,))]
        out = []
        dst = case["dst"]
        for rec in obs["ops"]:
            tv = case["values"][rec["i"]]
            obj = tag(expected_object(case["src"], tv))
            where = "%s%s" % (rec["op"], "+touched" if rec["touch"] else "")
            fs = self.expect(dst, obj, rec)
            out += [("transfer-" + k, "%s (%s -> %s, %s): %s" % (where, case["mode"], "dst", case["kind"], m)) for k, m in fs]
            if isinstance(rec["enc"], dict) and rec.get("unchanged") is False:
                out.append(("transfer-rejected-row-stored", "%s raised but the destination changed" % where))
            if rec.get("others_unchanged") is False:
                out.append(("transfer-other-rows-changed", where))
        return dedup(out)

    def expect(self, dst, obj, rec):
        """the destination schema validates and encodes the object"""
        enc, dec = rec["enc"], rec.get("dec")
        v = untag(obj)
        if dst is None:
            if isinstance(v, bytes):
                ok = enc == list(v) and deep_eq(dec, obj)
                return [] if ok else [("no-schema-bytes", "bytes %r stored as %r" % (obj, enc))]
            return [] if enc == {"exc": "TypeError"} else [("no-schema-object-accepted", "object %r -> %r" % (obj, enc))]
        if isinstance(v, bytes):
            # (the permissive JSON schema skips validation; its encoder then refuses bytes)
            ok = enc in ({"exc": VALIDATION}, {"exc": "MetadataEncodingError"})
            return [] if ok else [("bytes-into-schema-accepted", "raw bytes %r -> %r" % (obj, enc))]
        if dst.get("codec") == "json":
            if not ref_valid(dst, v, struct_codec=False):
                return [] if enc == {"exc": VALIDATION} else [("invalid-object-not-rejected", "%r -> %r" % (obj, enc))]
            if not isinstance(enc, list) or bytes(enc) != canonical(v):
                return [("json-not-reencoded", "object %r stored as %r, canonical JSON is %r"
                         % (obj, bytes(enc) if isinstance(enc, list) else enc, canonical(v)))]
            want = tag(expected_object(dst, obj))
            return [] if deep_eq(dec, want) else [("roundtrip", "reads back %r, expected %r" % (dec, want))]
        return oracle_row(dst, obj, {"enc": enc, "dec": dec} if dec is not None else {"enc": enc})

    prelude = "From TskVerif Require Import Base.Common C12.Model.\nOpen Scope Z_scope."

    def coq_check(self, case, obs):
        """struct -> struct and JSON -> struct: Model.check_transfer / check_row on the object"""
        if "ops" not in obs or case["mode"] not in ("s2s", "j2s"):
            return None
        try:
            dst = coq_top(case["dst"])
            src = coq_top(case["src"]) if case["mode"] == "s2s" else None
        except Untranslatable:
            return None
        terms = []
        for rec in obs["ops"]:
            tv = case["values"][rec["i"]]
            try:
                oe = coq_oenc(rec["enc"])
                od = coq_odec(case["dst"], rec["dec"]) if "dec" in rec else "OSkip"
                if src is not None:
                    terms.append("check_transfer c12_src c12_dst %s %s %s" % (coq_value(case["src"], untag(tv)), oe, od))
                else:
                    terms.append("check_row c12_dst %s %s %s" % (coq_value(case["dst"], untag(tv)), oe, od))
            except (Untranslatable, TypeError, AttributeError, KeyError):
                continue
        terms = list(dict.fromkeys(terms))            # the nine operations mostly give the same term
        if not terms:
            return None
        head = "let c12_dst := %s in " % dst + ("let c12_src := %s in " % src if src is not None else "")
        return "(%s%s)" % (head, " && ".join(terms))

    def nontrivial(self, case, obs):
        return "ops" in obs

    def describe(self, case, obs):
        return {"mode": case["mode"], "kind": case["kind"]}


def gen_fixed_node(rng, depth):
    r = rng.random()
    if depth <= 0 or r < 0.6:
        k = rng.random()
        if k < 0.55:
            c = rng.choice(INT_FMTS + "fd?")
            if c == "?":
                return {"type": "boolean", "binaryFormat": "?"}
            return {"type": "number" if c in "fd" else "integer", "binaryFormat": c}
        if k < 0.85:
            s = {"type": "string", "binaryFormat": rng.choice(["c", "s", "1s", "2s", "3s", "5s", "8s", "0s"])}
            if rng.random() < 0.3:
                s["nullTerminated"] = True
            return s
        return {"type": "null", "binaryFormat": rng.choice(["x", "2x", "3x", "0x"])}
    if r < 0.8:
        return {"type": "array", "length": rng.choice([0, 1, 2, 3]), "items": gen_fixed_node(rng, depth - 1)}
    names = rng.sample(["a", "b", "c", "id", "name", "x1", "Z", "é", "k 2"], rng.choice([1, 2, 3]))
    props = {}
    for k in names:
        p = gen_fixed_node(rng, depth - 1)
        if rng.random() < 0.4:
            p["index"] = rng.choice([0, 1, 2, -1, 0.5])
        props[k] = p
    return {"type": "object", "properties": props}


def asciify(v):
    if isinstance(v, str):
        return "".join(c if ord(c) < 128 else "?" for c in v)
    if isinstance(v, list):
        return [asciify(x) for x in v]
    if isinstance(v, dict):
        return {k: asciify(x) for k, x in v.items()}
    return v


def zero_width_array_items(s):
    t = s.get("type")
    if t == "object":
        return any(zero_width_array_items(p) for p in s.get("properties", {}).values())
    if t == "array":
        it = s["items"]
        return always_zero_width(it) or zero_width_array_items(it)
    return False


def np_to_tagged(x):
    import numpy as np
    if isinstance(x, np.ndarray):
        if x.dtype.names is not None and x.shape == ():
            return {n: np_to_tagged(x[n]) for n in x.dtype.names}
        return [np_to_tagged(e) for e in x]
    if isinstance(x, np.void):
        if x.dtype.names is not None:
            return {n: np_to_tagged(x[n]) for n in x.dtype.names}
        return {"$b": list(bytes(x))}
    if isinstance(x, (bytes, np.bytes_)):
        return {"$b": list(bytes(x))}
    if isinstance(x, np.bool_):
        return bool(x)
    if isinstance(x, np.integer):
        return int(x)
    if isinstance(x, np.floating):
        return {"$f": "%016x" % f2bits(float(x))}
    raise TypeError("np_to_tagged: %r" % type(x))


NP_KIND = {"b": 63, "i": 105, "u": 117, "f": 102, "S": 83, "V": 86}


def np_flat(dt, base=0):
    """leaves of a numpy dtype in memory order: [offset, itemsize, kind code]"""
    out = []
    if dt.names is not None:
        for name in dt.names:
            sub, off = dt.fields[name][:2]
            out += np_flat(sub, base + off)
    elif dt.subdtype is not None:
        item, shape = dt.subdtype
        n = 1
        for x in shape:
            n *= x
        for i in range(n):
            out += np_flat(item, base + i * item.itemsize)
    else:
        out.append([base, int(dt.itemsize), NP_KIND[dt.kind]])
    return out


def ref_np_view(s, v):
    """what the structured view of a fixed-size row must show: numbers as they decode, 'S'
    fields as the stored bytes with numpy's trailing-NUL stripping, pad bytes as stored"""
    t = s.get("type")
    if t == "object":
        return {k: ref_np_view(p, x) for k, p, x in ref_lookup(s, v)}
    if t == "array":
        return [ref_np_view(s["items"], x) for x in v]
    raw = ref_leaf_pack(s, v)
    if t == "string":
        return {"$b": list(raw.rstrip(b"\x00"))}
    if t == "null":
        return {"$b": list(raw)}
    return tag(ref_leaf_norm(s, v))


class NumpyView(Family):
    """fixed-size struct schemas: ts.<table>_metadata (numpy_dtype + structured_array_from_buffer)
    agrees with the struct layout and with row-by-row decoding"""
    name = "numpy_view"
    workers = 8
    timeout = 30.0

    def generate(self, rng, tier):
        n = 250 if tier == "quick" else 5000
        i = 0
        while i < n:
            names = rng.sample(["a", "b", "c", "id", "name", "x1", "Z", "é", "k 2", "f0", "f1"], rng.choice([1, 2, 3, 4]))
            props = {}
            for k in names:
                p = gen_fixed_node(rng, 2)
                if rng.random() < 0.4:
                    p["index"] = rng.choice([0, 1, 2, -1, 0.5])
                props[k] = p
            s = {"codec": "struct", "type": "object", "properties": props}
            if len(ref_encode(s, gen_value(rng, s))) == 0:
                continue
            i += 1
            case = {"schema": s, "values": [tag(asciify(gen_value(rng, s))) for _ in range(rng.choice([1, 2, 4]))],
                    "kind": KINDS[i % len(KINDS)]}
            if i % 3 == 0:
                # every table gets its OWN struct schema; every ts.<table>_metadata accessor is read
                alls = {}
                for k in KINDS:
                    while True:
                        pk = {nm: gen_fixed_node(rng, 1) for nm in rng.sample(["a", "b", "c", "id", "x1", k[:3]], rng.choice([1, 2, 3]))}
                        sk = {"codec": "struct", "type": "object", "properties": pk}
                        if not zero_width_array_items(sk) and len(ref_encode(sk, gen_value(rng, sk))) > 0:
                            break
                    alls[k] = {"schema": sk, "values": [tag(asciify(gen_value(rng, sk))) for _ in range(3 if k == "nodes" else 2)]}
                case["all_tables"] = alls
            yield case
        U = {"type": "integer", "binaryFormat": "H"}
        # documented exclusions: must raise, not return a wrong view
        yield {"schema": {"codec": "struct", "type": "object", "properties": {"a": {"type": "string", "binaryFormat": "3p"}}},
               "values": [{"a": "ab"}], "kind": "nodes", "expect": "unsupported"}
        yield {"schema": {"codec": "struct", "type": "object", "properties": {"a": {"type": "array", "items": U}}},
               "values": [{"a": [1]}], "kind": "nodes", "expect": "unsupported"}
        yield {"schema": {"codec": "struct", "type": ["object", "null"], "properties": {"a": U}},
               "values": [{"a": 1}], "kind": "nodes", "expect": "unsupported"}
        yield {"schema": {"codec": "struct", "type": "object", "properties": {"a": U, "n": {"type": "null"}}},
               "values": [{"a": 1, "n": None}], "kind": "sites", "expect": "null-without-format"}

    def observe(self, case):
        ms, cons = construct(case["schema"])
        obs = {"construct": cons}
        if ms is None:
            return obs
        tc, res = add_rows(case["kind"], ms, case["values"])
        if any(isinstance(x, dict) for x in res):
            obs["add_row"] = res
            return obs
        tc.build_index()
        ts = tc.tree_sequence()
        t = getattr(tc, case["kind"])
        obs["enc"] = [list(raw_row(t, i)) for i in range(len(res))]
        obs["dec"] = [tag(t[i].metadata) for i in range(len(res))]
        try:
            arr = getattr(ts, case["kind"] + "_metadata")
        except Exception as e:
            obs["view"] = {"exc": exc_name(e)}
            return obs
        obs["itemsize"] = int(arr.dtype.itemsize)
        obs["n"] = int(len(arr))
        obs["records"] = [list(arr[i].tobytes()) for i in range(len(arr))]
        obs["fields"] = [np_to_tagged(arr[i]) for i in range(len(arr))]
        obs["names"] = list(arr.dtype.names or [])
        obs["flat"] = np_flat(arr.dtype)
        if "all_tables" in case:
            import tskit
            per = {k: (tskit.MetadataSchema(d["schema"]), d["values"]) for k, d in case["all_tables"].items()}
            tca = add_rows_all(per)
            tca.build_index()
            tsa = tca.tree_sequence()
            allobs = {}
            for k in KINDS:
                try:
                    a = getattr(tsa, k + "_metadata")
                    allobs[k] = {"names": list(a.dtype.names or []), "itemsize": int(a.dtype.itemsize), "flat": np_flat(a.dtype),
                                 "records": [list(a[i].tobytes()) for i in range(len(a))],
                                 "fields": [np_to_tagged(a[i]) for i in range(len(a))]}
                except Exception as e:
                    allobs[k] = {"exc": exc_name(e)}
            obs["all_tables"] = allobs
        try:
            direct = ms.numpy_dtype()         # the schema object itself, not the table's string form
            obs["direct_same"] = bool(direct == arr.dtype)
        except Exception as e:
            obs["direct_same"] = exc_name(e)
        return obs

    def oracle(self, case, obs):
        out = oracle_construct_valid(case["schema"], obs["construct"])
        if out:
            return [] if out is REPAIRED else out
        s = case["schema"]
        if "add_row" in obs:
            return [("numpy-valid-row-rejected", "add_row failed: %r" % (obs["add_row"],))]
        exp = case.get("expect")
        if exp == "null-without-format" and "view" not in obs:
            exp = None
        if exp == "unsupported":
            if "view" not in obs:
                return [("numpy-unsupported-schema-viewed", "a schema documented as unsupported produced a structured array")]
            return []
        if "view" in obs:
            if exp == "null-without-format":
                return [("numpy-null-without-binaryformat", "fixed-size schema with a format-less null property: %s" % obs["view"]["exc"])]
            if zero_width_array_items(s):
                return [("numpy-zero-width-array-items", "fixed-length array of zero-width items ('0x'/'0s'): ts.%s_metadata raised %s"
                         % (case["kind"], obs["view"]["exc"]))]
            return [("numpy-view-failed", "fixed-size schema: ts.%s_metadata raised %s" % (case["kind"], obs["view"]["exc"]))]
        vals = [untag(tv) for tv in case["values"]]
        if obs.get("direct_same") is not True:
            out.append(("numpy-dtype-schema-vs-string-form", "schema.numpy_dtype() differs from the dtype of ts.%s_metadata: %r"
                        % (case["kind"], obs.get("direct_same"))))
        if obs["n"] != len(vals):
            out.append(("numpy-row-count", "%d rows viewed, %d inserted" % (obs["n"], len(vals))))
            return out
        for i, v in enumerate(vals):
            raw = ref_encode(s, v)
            if bytes(obs["enc"][i]) != raw:
                out.append(("layout", "row %d encoded %r, expected %r" % (i, obs["enc"][i], list(raw))))
            if obs["itemsize"] != len(raw) or bytes(obs["records"][i]) != raw:
                out.append(("numpy-layout", "record %d is %r (itemsize %d), struct layout is %r" % (i, obs["records"][i], obs["itemsize"], list(raw))))
            if not deep_eq(obs["dec"][i], tag(ref_norm(s, v))):
                out.append(("roundtrip", "row %d decodes to %r" % (i, obs["dec"][i])))
            want = ref_np_view(s, v)
            if list(want) != obs["names"]:
                out.append(("numpy-field-order", "fields %r, encoding order %r" % (obs["names"], list(want))))
            elif not deep_eq(obs["fields"][i], tag(want)):
                out.append(("numpy-view-values", "row %d viewed as %r, decodes as %r" % (i, obs["fields"][i], tag(want))))
        for k, d in case.get("all_tables", {}).items():
            o = obs.get("all_tables", {}).get(k)
            if o is None or "exc" in o:
                out.append(("numpy-all-tables-view-failed", "ts.%s_metadata with per-table schemas: %r" % (k, o)))
                continue
            vs = [untag(tv) for tv in d["values"]]
            raws = [list(ref_encode(d["schema"], v)) for v in vs]
            wants = [ref_np_view(d["schema"], v) for v in vs]
            if o["records"] != raws or (raws and o["itemsize"] != len(raws[0])) or (wants and o["names"] != list(wants[0])) \
                    or not all(deep_eq(a, tag(b)) for a, b in zip(o["fields"], wants)):
                out.append(("numpy-all-tables-wrong-schema", "ts.%s_metadata does not show the %s table's own rows/schema: "
                            "fields %r itemsize %r records %r, expected fields %r records %r"
                            % (k, k, o["names"], o["itemsize"], o["records"], list(wants[0]) if wants else None, raws)))
        return dedup(out)

    prelude = "From TskVerif Require Import Base.Common C12.Model.\nOpen Scope Z_scope."

    def coq_check(self, case, obs):
        """the model's dtype spec + numpy's packing rule = the real dtype (itemsize, leaf offsets, kinds)"""
        if obs.get("construct") != "ok" or "add_row" in obs:
            return None
        try:
            top = "(modify_top %s)" % coq_top(case["schema"])
        except Untranslatable:
            return None
        if "view" in obs:
            exc = obs["view"]["exc"]
            if zero_width_array_items(case["schema"]):
                return None        # np.dtype's own refusal of zero-size sub-arrays (finding F9j, numpy side)
            want = {"ValueError": "NValueErr", "KeyError": "NKeyErr"}.get(exc)
            if want is None:
                return None
            return "match np_dtype_top %s with %s => true | _ => false end" % (top, want)
        flat = "[" + "; ".join("(%d, %d, %d)" % (o, sz, k) for o, sz, k in obs["flat"]) + "]"
        term = ("match np_dtype_top %s with NOk d => (dt_itemsize d =? %d) && layout_eqb (dt_layout d 0) %s | _ => false end"
                % (top, obs["itemsize"], flat))
        if "all_tables" in case and all("flat" in obs.get("all_tables", {}).get(k, {}) for k in KINDS):
            # Model.table_view: the view of table k comes from the schema of table k
            try:
                tops = "[" + "; ".join(coq_top(case["all_tables"][k]["schema"]) for k in KINDS) + "]"
            except Untranslatable:
                return term
            for j, k in enumerate(KINDS):
                o = obs["all_tables"][k]
                fl = "[" + "; ".join("(%d, %d, %d)" % tuple(x) for x in o["flat"]) + "]"
                term += (" && match table_view c12_tops %d%%nat with NOk d => (dt_itemsize d =? %d) && layout_eqb (dt_layout d 0) %s"
                         " | _ => false end" % (j, o["itemsize"], fl))
            term = "(let c12_tops := %s in %s)" % (tops, term)
        return term

    def nontrivial(self, case, obs):
        return "records" in obs

    def describe(self, case, obs):
        return {"kind": case["kind"], "itemsize": min(obs.get("itemsize", -1) // 8, 10)}


# --------------------------------------------------------------------------
# JSON codec
# --------------------------------------------------------------------------

def gen_json_subschema(rng, depth):
    r = rng.random()
    if depth <= 0 or r < 0.6:
        return {"type": rng.choice(["number", "integer", "string", "boolean", "null", "string", "integer"])}
    if r < 0.8:
        return {"type": "array", "items": gen_json_subschema(rng, depth - 1)}
    names = rng.sample(NAMES, rng.choice([0, 1, 2, 3]))
    s = {"type": "object", "properties": {k: gen_json_subschema(rng, depth - 1) for k in names}}
    if rng.random() < 0.5:
        s["required"] = [k for k in names if rng.random() < 0.6]
    if rng.random() < 0.3:
        s["additionalProperties"] = False
    return s


def gen_json_value(rng, s, full=False):
    t = s.get("type")
    if isinstance(t, list):
        if rng.random() < 0.25:
            return None
        t = "object"
    if t == "object":
        out = {}
        for k, p in s.get("properties", {}).items():
            if full or k in s.get("required", []) or rng.random() < 0.6:
                out[k] = gen_json_value(rng, p, full)
        if s.get("additionalProperties", True) is not False and rng.random() < 0.3:
            out["extra_" + rng.choice("xyz")] = rng.choice([1, "s", None, [1, {"q": 2.5}], {"n": {"m": []}}])
        return out
    if t == "array":
        return [gen_json_value(rng, s["items"], full) for _ in range(rng.choice([0, 1, 2, 3]))]
    if t == "string":
        return "".join(rng.choice(CHARS + '"\\\n/') for _ in range(rng.choice([0, 1, 3, 8])))
    if t == "boolean":
        return rng.random() < 0.5
    if t == "null":
        return None
    if t == "integer":
        return rng.choice([0, -1, 7, 2**53 + 1, -2**70, rng.randint(-10**6, 10**6), 4.0])
    x = rng.choice([0, 1, -3, 0.5, 0.1, 1e-7, 1e22, 1e300, -0.0, 5e-324, 2**64, 1 / 3, bits2f(rng.getrandbits(62))])
    return x


def gen_json_schema(rng):
    names = rng.sample(NAMES, rng.choice([0, 1, 2, 3, 4, 5]))
    props = {k: gen_json_subschema(rng, 2) for k in names}
    s = {"codec": "json", "type": "object", "properties": props}
    for k, p in props.items():
        if rng.random() < 0.4:
            p["default"] = gen_json_value(rng, p, full=True)
    r = rng.random()
    if r < 0.6:
        s["required"] = [k for k in names if "default" not in props[k] and rng.random() < 0.7 or rng.random() < 0.1]
    if rng.random() < 0.4:
        s["additionalProperties"] = rng.random() < 0.7 and False
    if rng.random() < 0.15:
        s["type"] = ["object", "null"]
    if rng.random() < 0.05:
        return {"codec": "json"}
    return s


def mutate_json_value(rng, s, v):
    """-> a value violating s, or None"""
    t = s.get("type")
    if isinstance(t, list):
        t = "object"
    if t is None:
        return None
    if t == "object":
        if not isinstance(v, dict):
            return None
        req = [k for k in s.get("required", []) if k in v]
        keys = [k for k in v if k in s.get("properties", {})]
        r = rng.random()
        if req and r < 0.4:
            out = dict(v)
            del out[rng.choice(req)]
            return out
        if keys and r < 0.8:
            k = rng.choice(keys)
            m = mutate_json_value(rng, s["properties"][k], v[k])
            if m is not NOPE:
                out = dict(v)
                out[k] = m
                return out
        if s.get("additionalProperties", True) is False:
            out = dict(v)
            out["not_in_schema"] = 1
            return out
        return rng.choice([[], 5, "s"])
    if t == "array":
        if isinstance(v, list) and v and rng.random() < 0.5:
            m = mutate_json_value(rng, s["items"], v[0])
            if m is not NOPE:
                return [m] + v[1:]
        return rng.choice([{}, 5, "s", None])
    wrong = {"string": [5, None, True, ["a"]], "boolean": [0, 1, "true", None], "null": [0, False, ""],
             "integer": [0.5, "1", None, True, [1]], "number": ["1.5", None, True, {}]}[t]
    return rng.choice(wrong)


NOPE = object()


def canonical(v):
    return json.dumps(v, sort_keys=True, separators=(",", ":")).encode()


class JsonCodec(Family):
    """JSON codec: canonical encoding, decode(encode(v)) = top-level defaults filled in under v,
    schema violations rejected, schema string round trip"""
    name = "json_codec"
    workers = 8
    timeout = 30.0

    def generate(self, rng, tier):
        n = 400 if tier == "quick" else 5000
        yield {"schema": {"codec": "json"}, "values": [{}, {"a": [1, {"$f": "%016x" % f2bits(2.5)}, None]}, [1, 2], "s", 5, None,
                                                        {"$b": [1, 2]}]}
        for i in range(n):
            s = gen_json_schema(rng)
            vals = []
            for _ in range(3):
                v = gen_json_value(rng, s)
                if rng.random() < 0.35:
                    m = mutate_json_value(rng, s, v)
                    if m is not None and m is not NOPE:
                        v = m
                vals.append(tag(v))
            yield {"schema": s, "values": vals}
        # schemas the JSON codec must refuse
        bad = [
            ("nested-default", {"codec": "json", "type": "object", "properties": {"o": {"type": "object", "properties": {"x": {"type": "integer", "default": 1}}}}}),
            ("top-type-array", {"codec": "json", "type": "array"}),
            ("top-type-string", {"codec": "json", "type": "string"}),
            ("type-unknown", {"codec": "json", "type": "object", "properties": {"a": {"type": "objekt"}}}),
            ("properties-not-object", {"codec": "json", "type": "object", "properties": 5}),
            ("required-not-array", {"codec": "json", "type": "object", "required": "a"}),
            ("codec-missing", {"type": "object"}),
            ("codec-not-string", {"codec": 5, "type": "object"}),
            ("codec-unknown", {"codec": "yaml", "type": "object"}),
            ("minimum-not-number", {"codec": "json", "type": "object", "properties": {"a": {"type": "integer", "minimum": "0"}}}),
        ]
        for rule, s in bad:
            yield {"schema": s, "values": [], "rule": rule}

    def observe(self, case):
        import tskit.metadata as M
        ms, cons = construct(case["schema"])
        obs = {"construct": cons}
        if ms is None:
            return obs
        vals = []
        for tv in case["values"]:
            if isinstance(tv, dict) and set(tv) == {"$b"}:
                vals.append(bytes(tv["$b"]))
            else:
                vals.append(untag(tv))
        rows = []
        M.parse_metadata_schema.cache_clear()
        st, ms2 = guarded(lambda: M.parse_metadata_schema(repr(ms)))
        obs["str"] = {"same_repr": repr(ms2) == repr(ms), "eq": bool(ms2 == ms)} if st == "ok" else {"exc": ms2}
        for v in vals:
            row = {}
            for name, m in (("", ms), ("s", ms2 if st == "ok" else None)):
                if m is None:
                    continue
                st1, r = guarded(lambda: m.validate_and_encode_row(v), ENC_SECONDS)
                if st1 != "ok":
                    row["enc" + name] = {"exc": r} if st1 == "exc" else "HANG"
                    continue
                row["enc" + name] = list(r)
                st2, d = guarded(lambda: m.decode_row(r))
                row["dec" + name] = tag(d) if st2 == "ok" else ({"exc": d} if st2 == "exc" else "HANG")
            rows.append(row)
        obs["rows"] = rows
        st, d = guarded(lambda: ms.decode_row(b""))
        obs["dec_empty"] = tag(d) if st == "ok" else {"exc": d}
        obs["empty_value"] = tag(ms.empty_value)
        return obs

    def oracle(self, case, obs):
        s = case["schema"]
        if "rule" in case:
            if obs["construct"] != SCHEMA_ERR:
                return [("json-schema-violation:%s:%s" % (case["rule"], obs["construct"]),
                         "schema breaking %s gave %s" % (case["rule"], obs["construct"]))]
            return []
        if obs["construct"] != "ok":
            return [("valid-schema-rejected", "MetadataSchema() raised %s" % obs["construct"])]
        out = []
        defaults = {k: p["default"] for k, p in s.get("properties", {}).items() if "default" in p}
        for tv, row in zip(case["values"], obs["rows"]):
            enc, dec = row.get("enc"), row.get("dec")
            if isinstance(tv, dict) and set(tv) == {"$b"}:
                if enc != {"exc": "MetadataEncodingError"}:
                    out.append(("json-unencodable", "bytes value gave %r" % (enc,)))
                continue
            v = untag(tv)
            if not ref_valid(s, v, struct_codec=False):
                if enc != {"exc": VALIDATION}:
                    key = "invalid-object-not-rejected"
                    if len(s.get("properties", {})) == 0:
                        key = "json-no-properties-skips-validation"
                    out.append((key, "value %r violates the schema, got %r" % (tv, enc)))
                continue
            if not isinstance(enc, list):
                out.append(("valid-object-rejected", "valid value %r -> %r" % (tv, enc)))
                continue
            if bytes(enc) != canonical(v):
                out.append(("json-canonical-encoding", "encoded %r, canonical JSON is %r" % (bytes(enc), canonical(v))))
            exp = dict(defaults, **v) if isinstance(v, dict) else v
            if not (isinstance(dec, (dict, list, str, int, float, bool)) or dec is None) or not deep_eq(dec, tag(exp)):
                out.append(("json-roundtrip-defaults", "decoded %r, expected %r" % (dec, tag(exp))))
        if not deep_eq(obs["dec_empty"], tag(defaults)):
            out.append(("json-empty-bytes", "decode_row(b'') = %r, expected the defaults %r" % (obs["dec_empty"], tag(defaults))))
        out += oracle_str(case, obs)
        return dedup(out)

    prelude = "From TskVerif Require Import Base.Common C12.Model.\nOpen Scope Z_scope."

    def coq_check(self, case, obs):
        """JSONCodec.decode's default filling (dict(self.defaults, **result)), key order included;
        json.loads(json.dumps(.)) itself is Python's (trusted base)"""
        if obs.get("construct") != "ok" or "rule" in case:
            return None
        s = case["schema"]
        defaults = [(k, p["default"]) for k, p in s.get("properties", {}).items() if "default" in p]
        terms = []
        for tv, row in zip(case["values"], obs["rows"]):
            if not isinstance(row.get("enc"), list) or "dec" not in row or (isinstance(tv, dict) and set(tv) == {"$b"}):
                continue
            v = untag(tv)
            dec = row["dec"]
            if not isinstance(v, dict) or not isinstance(dec, dict) or is_tf(dec):
                continue
            loaded = json.loads(canonical(v).decode())
            try:
                d = "[" + "; ".join("(%s, %s)" % (coq_key(k), coq_value(None, x)) for k, x in defaults) + "]"
                kv = "[" + "; ".join("(%s, %s)" % (coq_key(k), coq_value(None, x)) for k, x in loaded.items()) + "]"
                terms.append("value_eqb (VObj (json_fill %s %s)) %s" % (d, kv, coq_value(None, untag(dec))))
            except Untranslatable:
                continue
        return " && ".join(terms) if terms else None

    def nontrivial(self, case, obs):
        pr = case["schema"].get("properties", {})
        return obs.get("construct") == "ok" and isinstance(pr, dict) and len(pr) > 0

    def describe(self, case, obs):
        pr = case["schema"].get("properties", {})
        return {"construct": obs.get("construct"), "nprops": len(pr) if isinstance(pr, dict) else "n/a"}


# --------------------------------------------------------------------------
# aliasing / observational immutability: a schema behaves as a function of its string
# --------------------------------------------------------------------------

ALIAS_SOURCES = ["ms.schema", "ms.asdict", "table.schema", "table.asdict", "derived.schema", "parsed.schema",
                 "decoded.direct", "decoded.row", "decoded.empty", "empty_value", "input-dict"]


def deep_mutate(obj, rng, n=4):
    """mutate a nested dict/list structure in place at random paths (below and at the top level)"""
    for _ in range(n):
        node = obj
        for _depth in range(rng.choice([0, 1, 1, 2, 2, 3, 4])):
            if isinstance(node, dict) and node:
                nxt = node[rng.choice(sorted(node, key=str))]
            elif isinstance(node, list) and node:
                nxt = rng.choice(node)
            else:
                break
            if not isinstance(nxt, (dict, list)):
                break
            node = nxt
        k = rng.random()
        if isinstance(node, dict):
            keys = sorted(node, key=str)
            if keys and k < 0.3:
                del node[rng.choice(keys)]
            elif keys and k < 0.7:
                key = rng.choice(keys)
                node[key] = rng.choice(["string", "integer", 7, None, [], {"type": "null"}, ["zz"], False])
            else:
                node[rng.choice(["zz_added", "required", "type", "default", "additionalProperties"])] = \
                    rng.choice([["zz_added"], "string", {"type": "string"}, True, 5])
        elif isinstance(node, list):
            if node and k < 0.4:
                node.pop(rng.randrange(len(node)))
            elif node and k < 0.6:
                node[rng.randrange(len(node))] = rng.choice(["zz", 1, None])
            else:
                node.append(rng.choice(["zz_added", 9, {"q": 1}]))


class SchemaAliasing(Family):
    """History family.  Build schema S; record its behaviour on a probe set (accept/reject, encoded
    bytes, decoded objects, repr, str, equality, the cached parse of its string, a table carrying
    it).  Then read objects out of it — S.schema, S.asdict(), table.metadata_schema.schema/asdict(),
    MetadataSchema(S.asdict()).schema, the cached parse's dict, decoded row objects (direct, through a
    table row, the empty row), empty_value — mutate each deeply at random paths, and record again:
    nothing may have changed (a schema behaves as a function of its string form)."""
    name = "schema_aliasing"
    workers = 8
    timeout = 60.0
    prelude = "From TskVerif Require Import Base.Common C12.Model.\nOpen Scope Z_scope."

    def generate(self, rng, tier):
        n = 150 if tier == "quick" else 2500
        made = 0
        while made < n:
            if made % 2 == 0:
                s = gen_json_schema(rng)
                if not isinstance(s.get("properties"), dict) or not s["properties"]:
                    continue
                probes = []
                for _ in range(4):
                    v = gen_json_value(rng, s)
                    if rng.random() < 0.4:
                        m = mutate_json_value(rng, s, v)
                        if m is not None and m is not NOPE:
                            v = m
                    probes.append(tag(v))
                probes.append({})
            else:
                s = gen_struct_schema(rng, depth=rng.choice([1, 2]), plain=True, objnull=False)
                if not s["properties"] or exhaust_info(s)[0]:
                    continue
                probes = []
                for _ in range(4):
                    v = asciify(gen_value(rng, s))
                    if rng.random() < 0.4:
                        m, kind = mutate_value(rng, s, v)
                        if kind:
                            v = m
                    probes.append(tag(v))
                s = json.loads(json.dumps(asciify_defaults(s)))
            made += 1
            srcs = rng.sample(ALIAS_SOURCES, rng.choice([2, 3, 4]))
            srcs.sort(key=lambda x: x == "input-dict")      # the caller's own dict last: it pollutes later reads
            yield {"schema": s, "probes": probes, "sources": srcs, "mut_seed": rng.randrange(1 << 30),
                   "kind": rng.choice(["nodes", "individuals", "populations"])}

    # -- implementation side ------------------------------------------------
    @staticmethod
    def snapshot(ms, tc, kind, probes):
        import tskit.metadata as M
        out = {"repr": repr(ms), "str": str(ms), "schema_dict": json.dumps(ms.schema, sort_keys=True, default=str)}
        parsed = M.parse_metadata_schema(repr(ms))          # lru_cache: the object every table shares
        out["eq_parsed"] = bool(ms == parsed)
        t = getattr(tc, kind)
        out["table_repr"] = repr(t.metadata_schema)
        rows = []
        for tv in probes:
            v = untag(tv)
            row = {}
            for name, m in (("ms", ms), ("parsed", parsed), ("table", t.metadata_schema)):
                st, r = guarded(lambda: m.validate_and_encode_row(v), ENC_SECONDS)
                if st != "ok":
                    row[name] = {"enc": {"exc": r} if st == "exc" else "HANG"}
                    continue
                st2, d = guarded(lambda: m.decode_row(r))
                row[name] = {"enc": list(r), "dec": tag(d) if st2 == "ok" else ({"exc": d} if st2 == "exc" else "HANG")}
            tcc = tc.copy()
            st, r = guarded(lambda: add_one(getattr(tcc, kind), kind, v), ENC_SECONDS)
            if st == "ok":
                tt = getattr(tcc, kind)
                st2, d = guarded(lambda: tt[len(tt) - 1].metadata)
                row["add_row"] = {"enc": list(raw_row(tt, len(tt) - 1)),
                                  "dec": tag(d) if st2 == "ok" else ({"exc": d} if st2 == "exc" else "HANG")}
            else:
                row["add_row"] = {"enc": {"exc": r} if st == "exc" else "HANG"}
            rows.append(row)
        out["rows"] = rows
        st, d = guarded(lambda: ms.decode_row(b"") if ms.schema is not None and ms.schema.get("codec") == "json" else None)
        out["dec_empty"] = tag(d) if st == "ok" else {"exc": d}
        st, d = guarded(lambda: getattr(tc, kind)[0].metadata)
        out["stored_row0"] = tag(d) if st == "ok" else {"exc": d}
        return out

    def observe(self, case):
        import copy
        import random as _random
        import tskit
        import tskit.metadata as M
        M.parse_metadata_schema.cache_clear()
        user_dict = copy.deepcopy(case["schema"])
        try:
            ms = tskit.MetadataSchema(user_dict)
        except Exception as e:
            return {"construct": exc_name(e)}
        kind = case["kind"]
        tc = tskit.TableCollection(1.0)
        t = getattr(tc, kind)
        t.metadata_schema = ms
        first_ok = None
        for tv in case["probes"]:
            try:
                ms.decode_row(ms.validate_and_encode_row(untag(tv)))
                add_one(t, kind, untag(tv))
                first_ok = tv
                break
            except Exception:
                continue
        if first_ok is None:
            return {"construct": "ok", "no_valid_probe": True}
        before = self.snapshot(ms, tc, kind, case["probes"])
        rng = _random.Random(case["mut_seed"])
        steps = []
        for src in case["sources"]:
            try:
                if src == "ms.schema":
                    obj = ms.schema
                elif src == "ms.asdict":
                    obj = ms.asdict()
                elif src == "table.schema":
                    obj = getattr(tc, kind).metadata_schema.schema
                elif src == "table.asdict":
                    obj = getattr(tc, kind).metadata_schema.asdict()
                elif src == "derived.schema":
                    obj = tskit.MetadataSchema(ms.asdict()).schema
                elif src == "parsed.schema":
                    obj = M.parse_metadata_schema(repr(ms)).schema
                elif src == "decoded.direct":
                    obj = ms.decode_row(ms.validate_and_encode_row(untag(first_ok)))
                elif src == "decoded.row":
                    obj = getattr(tc, kind)[0].metadata
                elif src == "decoded.empty":
                    obj = ms.decode_row(b"") if case["schema"].get("codec") == "json" else ms.decode_row(
                        ms.validate_and_encode_row(untag(first_ok)))
                elif src == "empty_value":
                    obj = ms.empty_value
                else:
                    obj = user_dict                          # the dict the caller passed to MetadataSchema()
                if isinstance(obj, (dict, list)):
                    deep_mutate(obj, rng)
            except Exception as e:                            # a read must not fail either
                steps.append({"src": src, "exc": exc_name(e)})
                continue
            after = self.snapshot(ms, tc, kind, case["probes"])
            steps.append({"src": src, "same": after == before,
                          "diff": None if after == before else first_diff(before, after)})
            if after != before:
                break
        return {"construct": "ok", "before": before, "steps": steps}

    def oracle(self, case, obs):
        if obs.get("construct") != "ok" or obs.get("no_valid_probe"):
            return []
        out = []
        for st in obs["steps"]:
            if "exc" in st:
                out.append(("aliasing-read-failed:" + st["src"], st["exc"]))
            elif not st["same"]:
                codec = case["schema"].get("codec")
                key = "aliasing:%s:%s" % (codec, st["src"])
                out.append((key, "after mutating what %s returned, the schema / its cached parse / the table behave "
                                 "differently although the string form is what it was: %s" % (st["src"], st["diff"])))
        # the three faces of the schema agree with each other on every probe
        for tv, row in zip(case["probes"], obs["before"]["rows"]):
            if not (row["ms"] == row["parsed"] == row["table"]) or row["add_row"].get("enc") != row["ms"].get("enc"):
                out.append(("schema-faces-disagree", "probe %r: %r" % (tv, row)))
        return dedup(out)

    def coq_check(self, case, obs):
        """struct schemas: the behaviour recorded on the probes is the model's, a function of the schema"""
        if obs.get("construct") != "ok" or "before" not in obs or case["schema"].get("codec") != "struct":
            return None
        rows = [r["ms"] for r in obs["before"]["rows"]]
        return coq_rows(case["schema"], case["probes"], rows)

    def nontrivial(self, case, obs):
        return "steps" in obs and len(obs["steps"]) > 0

    def describe(self, case, obs):
        d = {"codec": case["schema"].get("codec")}
        for st in obs.get("steps", []):
            d["source"] = st["src"]
        return d


def asciify_defaults(s):
    """string defaults without multi-byte characters (fixed-width truncation must not split one here)"""
    if isinstance(s, dict):
        return {k: (asciify(v) if k == "default" else asciify_defaults(v)) for k, v in s.items()}
    if isinstance(s, list):
        return [asciify_defaults(x) for x in s]
    return s


def add_one(t, kind, v):
    if kind == "nodes":
        return t.add_row(flags=0, time=0.0, metadata=v)
    if kind == "individuals":
        return t.add_row(flags=0, metadata=v)
    return t.add_row(metadata=v)


def first_diff(a, b, path=""):
    if type(a) is not type(b):
        return "%s: %r -> %r" % (path, a, b)
    if isinstance(a, dict):
        for k in sorted(set(a) | set(b), key=str):
            if a.get(k) != b.get(k):
                return first_diff(a.get(k), b.get(k), path + "/" + str(k))
    if isinstance(a, list):
        if len(a) != len(b):
            return "%s: length %d -> %d" % (path, len(a), len(b))
        for i, (x, y) in enumerate(zip(a, b)):
            if x != y:
                return first_diff(x, y, "%s[%d]" % (path, i))
    return "%s: %r -> %r" % (path, str(a)[:120], str(b)[:120])


def has_len_array_of_zero_width(s):
    t = s.get("type")
    if isinstance(t, list) or t == "object":
        return any(has_len_array_of_zero_width(p) for p in s.get("properties", {}).values())
    if t == "array":
        if "length" not in s and not s.get("noLengthEncodingExhaustBuffer", False) and min_width_zero(s["items"]):
            return True
        return has_len_array_of_zero_width(s["items"])
    return False


class StructDecodeBytes(StructFamily):
    """decode_row on bytes that were not produced by encode (truncated, extended, corrupted,
    random): the property text says nothing about them beyond termination, so the oracle only
    demands that decode returns or raises; the correspondence demands that the model predicts
    the decoded value / the error class (short reads, length prefixes, Pascal length bytes)."""
    name = "struct_decode_bytes"

    def generate(self, rng, tier):
        n = 300 if tier == "quick" else 4000
        made = 0
        while made < n:
            s = gen_struct_schema(rng, depth=rng.choice([1, 2, 3]), plain=True)
            if has_len_array_of_zero_width(s) or not s["properties"]:
                continue            # a corrupt prefix would legitimately ask for 2^32 empty elements
            try:
                good = ref_encode(s, gen_value(rng, s))
            except Domain:
                continue
            bufs = []
            for _ in range(4):
                k = rng.random()
                b = bytearray(good)
                if k < 0.3 and b:
                    b = b[:rng.randrange(len(b))]
                elif k < 0.5:
                    b += bytes(rng.randrange(256) for _ in range(rng.choice([1, 2, 5])))
                elif k < 0.8 and b:
                    for _ in range(rng.choice([1, 1, 2])):
                        b[rng.randrange(len(b))] = rng.choice([0, 1, 2, 255, rng.randrange(256)])
                else:
                    b = bytearray(rng.randrange(256) for _ in range(rng.choice([0, 1, 3, 8, 20])))
                bufs.append(list(b))
            made += 1
            yield {"schema": s, "bufs": bufs}

    def observe(self, case):
        ms, cons = construct(case["schema"])
        obs = {"construct": cons}
        if ms is None:
            return obs
        out = []
        for b in case["bufs"]:
            st, d = guarded(lambda: ms.decode_row(bytes(b)))
            out.append(tag(d) if st == "ok" else ({"exc": d} if st == "exc" else "HANG"))
        obs["decs"] = out
        return obs

    def oracle(self, case, obs):
        out = oracle_construct_valid(case["schema"], obs["construct"])
        if out:
            return [] if out is REPAIRED else out
        has, zero, nontail = exhaust_info(case["schema"])
        for b, d in zip(case["bufs"], obs["decs"]):
            if d == "HANG":
                out.append(("exhaust-zero-width-hang" if zero else "decode-hang", "decode_row(%r) did not return" % (b,)))
        return dedup(out)

    def coq_check(self, case, obs):
        if obs.get("construct") != "ok":
            return None
        try:
            top = coq_top(case["schema"])
        except Untranslatable:
            return None
        terms = []
        for b, d in zip(case["bufs"], obs["decs"]):
            try:
                terms.append("check_decode c12_t %s %s" % (coq_bytes(b), coq_odec(case["schema"], d)))
            except (Untranslatable, UnicodeError, TypeError, AttributeError, KeyError):
                continue
        if not terms:
            return None
        return "(let c12_t := %s in %s)" % (top, " && ".join(terms))

    def nontrivial(self, case, obs):
        return obs.get("construct") == "ok"

    def describe(self, case, obs):
        d = {}
        for x in obs.get("decs", []):
            d["outcome"] = "value" if not (isinstance(x, dict) and set(x) == {"exc"}) and x != "HANG" else (x if x == "HANG" else x["exc"])
        return d

    def shrink(self, case):
        if len(case["bufs"]) > 1:
            for b in case["bufs"]:
                c = dict(case)
                c["bufs"] = [b]
                yield c


# --------------------------------------------------------------------------
# every access path that hands out a row object (or metadata) shows the schema-decoded object
# --------------------------------------------------------------------------

SLOTS = KINDS + ["top", "refseq"]


def has_nan(v):
    if isinstance(v, float):
        return v != v
    if isinstance(v, list):
        return any(has_nan(x) for x in v)
    if isinstance(v, dict):
        return any(has_nan(x) for x in v.values())
    return False


def gen_slot(rng, mode, n):
    """-> (schema | None, n conforming, in-domain, NaN-free values with a non-empty encoding)"""
    while True:
        if mode == "none":
            return None, [bytes(rng.choice([b"raw", b"\x00\x01\xff", b'{"a":1}', b"x", b"[1, 2]"])) + bytes([65 + i]) for i in range(n)]
        vals = []
        if mode == "struct":
            s = gen_struct_schema(rng, depth=rng.choice([1, 2]), plain=True, objnull=False)
            if not s["properties"] or exhaust_info(s)[0]:
                continue
            for _ in range(20 * n):
                v = asciify(gen_value(rng, s))
                try:
                    if ref_valid(s, v) and len(ref_encode(s, v)) > 0 and not has_nan(ref_norm(s, v)):
                        vals.append(v)
                except (Domain, SplitChar):
                    pass
                if len(vals) == n:
                    return s, vals
        else:
            s = gen_json_schema(rng)
            for _ in range(20 * n):
                if "type" not in s:
                    v = {"k": len(vals), "tag": rng.choice(["a", "é漢", ""]), "l": [1, 2.5, None, {"q": [True]}][:rng.choice([1, 2, 4])]}
                else:
                    v = gen_json_value(rng, s)
                if (isinstance(v, dict) or (v is None and is_objnull(s))) and ref_valid(s, v, struct_codec=False) and not has_nan(v):
                    vals.append(v)
                if len(vals) == n:
                    return s, vals


def gen_ts_shape(rng):
    """a small valid tree sequence, written out row by row in the order the tables require:
    `ntrees` random topologies over n samples on consecutive intervals (internal node n+i has
    time i+1 in every tree, so an edge can persist over several trees), sites, mutations (older
    nodes first within a site), migrations, individuals, populations, provenances"""
    n = rng.choice([2, 3, 3, 4])
    ntrees = rng.choice([1, 2, 2, 3, 3, 4, 4])
    L = 8
    bps = [0] + sorted(rng.sample(range(1, L), ntrees - 1)) + [L]
    npop = rng.choice([2, 3])
    nind = rng.choice([1, 2, 3])
    nn = 2 * n - 1
    time = [0.0] * n + [float(i + 1) for i in range(n - 1)]
    nodes = []
    for u in range(nn):
        ind = rng.randrange(nind) if rng.random() < 0.6 else -1
        if u < nind:
            ind = u                       # every individual owns a node
        nodes.append([1 if u < n else 0, time[u], rng.choice([-1] + list(range(npop))), ind])
    present = {}
    for j in range(ntrees):
        active = list(range(n))
        i = 0
        while len(active) > 1:
            k = 3 if len(active) >= 3 and rng.random() < 0.25 else 2
            ch = rng.sample(active, k)
            for c in ch:
                present.setdefault((n + i, c), []).append(j)
            active = [a for a in active if a not in ch] + [n + i]
            i += 1
        if rng.random() < 0.3 and j + 1 < ntrees:
            pass
    edges = []
    for (p, c), js in present.items():
        a = js[0]
        for x, y in zip(js, js[1:] + [None]):
            if y != x + 1:
                edges.append([float(bps[a]), float(bps[x + 1]), p, c])
                a = y
    edges.sort(key=lambda e: (time[e[2]], e[2], e[3], e[0]))
    nsites = rng.choice([1, 2, 3, 4])
    sites = sorted(x / 2 for x in rng.sample(range(2 * L), nsites))
    mutations = []
    for s in range(nsites):
        us = rng.sample(range(nn), rng.choice([0, 1, 1, 2, 3]) if s else rng.choice([1, 2]))
        for u in sorted(us, key=lambda u: (-time[u], u)):
            mutations.append([s, u, rng.choice("CGT")])
    migrations = []
    for i in range(rng.choice([1, 2, 3])):
        a, b = sorted(rng.sample(range(L + 1), 2))
        src = rng.randrange(npop)
        migrations.append([float(a), float(b), rng.randrange(nn), src, (src + 1) % npop, 0.5 + i])
    individuals = [[rng.choice([0, 1, 1 << 20]), [float(x) for x in range(rng.choice([0, 1, 2]))], ([i - 1] if i and rng.random() < 0.5 else [])]
                   for i in range(nind)]
    return {"L": float(L), "nodes": nodes, "edges": edges, "sites": sites, "mutations": mutations, "migrations": migrations,
            "individuals": individuals, "npop": npop,
            "provenances": [["2026-01-0%dT00:00:00" % (i + 1), '{"p": %d}' % i] for i in range(rng.choice([1, 2]))]}


def build_access_tables(case):
    """-> (TableCollection | None, {slot: 'ok' | exception class}, [(slot, row, exception class)])"""
    import tskit
    sh = case["shape"]
    ms, cons = {}, {}
    for slot in SLOTS:
        ms[slot], cons[slot] = construct(case["schemas"][slot])
    if any(c != "ok" for c in cons.values()):
        return None, cons, []
    vals = {slot: [untag(x) for x in case["values"][slot]] for slot in SLOTS}
    tc = tskit.TableCollection(sh["L"])
    for k in KINDS:
        getattr(tc, k).metadata_schema = ms[k]
    rejected = []

    def add(slot, i, fn):
        try:
            fn(vals[slot][i])
        except Exception as e:
            rejected.append([slot, i, exc_name(e)])
    tc.metadata_schema = ms["top"]
    add("top", 0, lambda m: setattr(tc, "metadata", m))
    tc.reference_sequence.metadata_schema = ms["refseq"]
    add("refseq", 0, lambda m: setattr(tc.reference_sequence, "metadata", m))
    tc.reference_sequence.data = "ACGTACGT"
    for i in range(sh["npop"]):
        add("populations", i, lambda m: tc.populations.add_row(metadata=m))
    for i, (fl, loc, par) in enumerate(sh["individuals"]):
        add("individuals", i, lambda m: tc.individuals.add_row(flags=fl, location=loc, parents=par, metadata=m))
    for i, (fl, t, pop, ind) in enumerate(sh["nodes"]):
        add("nodes", i, lambda m: tc.nodes.add_row(flags=fl, time=t, population=pop, individual=ind, metadata=m))
    for i, (l, r, p, c) in enumerate(sh["edges"]):
        add("edges", i, lambda m: tc.edges.add_row(left=l, right=r, parent=p, child=c, metadata=m))
    for i, x in enumerate(sh["sites"]):
        add("sites", i, lambda m: tc.sites.add_row(position=x, ancestral_state="A", metadata=m))
    for i, (s, u, d) in enumerate(sh["mutations"]):
        add("mutations", i, lambda m: tc.mutations.add_row(site=s, node=u, derived_state=d, metadata=m))
    for i, (l, r, u, a, b, t) in enumerate(sh["migrations"]):
        add("migrations", i, lambda m: tc.migrations.add_row(left=l, right=r, node=u, source=a, dest=b, time=t, metadata=m))
    for ts_, rec in sh["provenances"]:
        tc.provenances.add_row(record=rec, timestamp=ts_)
    return tc, cons, rejected


class _Paths:
    """collects (path, kind, id, metadata, row == reference row) compactly"""

    def __init__(self):
        self.pool, self.index, self.entries = [], {}, {}

    def md(self, get):
        try:
            m = tag(get())
        except Exception as e:
            m = {"$exc": exc_name(e)}
        key = json.dumps(m, sort_keys=True)
        if key not in self.index:
            self.index[key] = len(self.pool)
            self.pool.append(m)
        return self.index[key]

    def put(self, path, kind, id_, row, ref):
        """ref: id -> the reference row object (ts.<kind>(id) / tables.<kind>[id]); None = metadata only"""
        try:
            id_ = int(id_)
        except Exception as e:
            id_ = -99
        m = self.md((lambda: row.metadata) if kind != "provenances" else (lambda: None))
        eq = None
        if ref is not None:
            try:
                other = ref(id_)
                eq = bool(row == other) and bool(other == row) and not bool(row != other)
            except Exception as e:
                eq = exc_name(e)
        self.entries.setdefault(path, []).append([kind, id_, m, eq])

    def value(self, path, kind, get):
        self.entries.setdefault(path, []).append([kind, 0, self.md(get), None])


def walk_ts_paths(tskit, ts, P):
    """every row-yielding entry point of TreeSequence / Tree / Variant"""
    ACC = dict(ROW_ACCESSOR, provenances="provenance")

    def ref(kind):
        return lambda i: getattr(ts, ACC[kind])(i)

    def rows(path, kind, it):
        for r in it:
            P.put(path, kind, r.id, r, ref(kind))

    def site_rows(path, sites):
        sites = list(sites)
        rows(path, "sites", sites)
        for s in sites:
            rows(path + ".mutations", "mutations", s.mutations)
    for kind in KINDS + ["provenances"]:
        n = getattr(ts, "num_" + kind)
        acc = getattr(ts, ACC[kind])
        rows("ts.%s(i)" % ACC[kind], kind, [acc(i) for i in range(n)])
        rows("ts.%s(i-n)" % ACC[kind], kind, [acc(i - n) for i in range(n)])
        seq = getattr(ts, kind)()
        rows("ts.%s()" % kind, kind, seq)
        if kind != "mutations":
            rows("reversed(ts.%s())" % kind, kind, reversed(seq))
            rows("ts.%s()[i]" % kind, kind, [seq[i] for i in range(len(seq))])
            rows("list(ts.%s())" % kind, kind, list(seq))
    rows("ts.nodes(order=timeasc)", "nodes", ts.nodes(order="timeasc"))
    site_rows("for site in ts.sites()", ts.sites())
    site_rows("ts.site(position=)", [ts.site(position=x) for x in ts.sites_position])
    for dname, d in (("FORWARD", tskit.FORWARD), ("REVERSE", tskit.REVERSE)):
        for term in (False, True):
            base = "ts.edge_diffs(include_terminal=%s,direction=%s)" % (term, dname)
            for diff in ts.edge_diffs(include_terminal=term, direction=d):
                rows(base + ".edges_out", "edges", diff.edges_out)
                rows(base + ".edges_in", "edges", diff.edges_in)
            for _, eo, ei in ts.edge_diffs(include_terminal=term, direction=d):
                rows(base + "[1]", "edges", eo)
                rows(base + "[2]", "edges", ei)
    diffs = list(ts.edge_diffs(include_terminal=True))     # the list is consumed after the iterator is exhausted
    for diff in diffs:
        rows("list(ts.edge_diffs(include_terminal=True)).edges_out", "edges", diff.edges_out)

    def tree_rows(path, tree):
        site_rows(path + ".sites()", tree.sites())
        rows(path + ".mutations()", "mutations", tree.mutations())
        for u in tree.nodes():
            e = tree.edge(u)
            if e != tskit.NULL:
                rows("ts.edge(tree.edge(u))", "edges", [ts.edge(e)])
    for tree in ts.trees():
        tree_rows("ts.trees()", tree)
        tree_rows("ts.trees().copy()", tree.copy())
    for tree in reversed(ts.trees()):
        tree_rows("reversed(ts.trees())", tree)
    for tree in ts.trees(sample_lists=True, tracked_samples=[0]):
        tree_rows("ts.trees(sample_lists=True,tracked_samples=)", tree)
    for tree in ts.aslist():
        tree_rows("ts.aslist()", tree)
    tree_rows("ts.first()", ts.first())
    tree_rows("ts.last()", ts.last())
    for x in ts.sites_position:
        tree_rows("ts.at(site position)", ts.at(float(x)))
    for x in ts.breakpoints(as_array=True)[:-1]:
        tree_rows("ts.at(breakpoint)", ts.at(float(x)))
    for j in range(ts.num_trees):
        tree_rows("ts.at_index(j)", ts.at_index(j))
        tree_rows("ts.at_index(j-num_trees)", ts.at_index(j - ts.num_trees))
    t = tskit.Tree(ts)
    while t.next():
        tree_rows("Tree(ts).next()", t)
    while t.prev():
        tree_rows("Tree(ts).prev()", t)
    for j in reversed(range(ts.num_trees)):
        t.seek_index(j)
        tree_rows("Tree(ts).seek_index(j)", t)
    for x in ts.sites_position:
        t.seek(float(x))
        tree_rows("Tree(ts).seek(x)", t)
    t.first()
    tree_rows("Tree(ts).first()", t)
    t.last()
    tree_rows("Tree(ts).last()", t)
    for v in ts.variants():
        site_rows("ts.variants().site", [v.site])
    for v in ts.variants(copy=False):
        site_rows("ts.variants(copy=False).site", [v.site])
    for v in ts.variants(samples=[0], isolated_as_missing=False):
        site_rows("ts.variants(samples=).site", [v.site])
    var = tskit.Variant(ts)
    for j in reversed(range(ts.num_sites)):
        var.decode(j)
        site_rows("Variant(ts).decode(j).site", [var.site])
        site_rows("Variant(ts).decode(j).copy().site", [var.copy().site])
    # rows reached through the ids other rows carry
    for ind in ts.individuals():
        rows("ts.node(u) for u in individual.nodes", "nodes", [ts.node(u) for u in ind.nodes])
        rows("ts.individual(p) for p in individual.parents", "individuals", [ts.individual(p) for p in ind.parents if p >= 0])
    for nd in ts.nodes():
        if nd.individual >= 0:
            rows("ts.individual(node.individual)", "individuals", [ts.individual(nd.individual)])
        if nd.population >= 0:
            rows("ts.population(node.population)", "populations", [ts.population(nd.population)])
    for m in ts.mutations():
        rows("ts.site(mutation.site)", "sites", [ts.site(m.site)])
        rows("ts.node(mutation.node)", "nodes", [ts.node(m.node)])
        if m.parent >= 0:
            rows("ts.mutation(mutation.parent)", "mutations", [ts.mutation(m.parent)])
        if m.edge >= 0:
            rows("ts.edge(mutation.edge)", "edges", [ts.edge(m.edge)])
    for g in ts.migrations():
        rows("ts.node(migration.node)", "nodes", [ts.node(g.node)])
        rows("ts.population(migration.source)", "populations", [ts.population(g.source)])
    for e in ts.edges():
        rows("ts.node(edge.parent)", "nodes", [ts.node(e.parent)])
    P.value("ts.metadata", "top", lambda: ts.metadata)
    P.value("ts.reference_sequence.metadata", "refseq", lambda: ts.reference_sequence.metadata)
    sch = ts.table_metadata_schemas
    raw_tc = ts.dump_tables()
    for kind in KINDS:
        t_ = getattr(raw_tc, kind)
        for i in range(len(t_)):
            P.entries.setdefault("ts.table_metadata_schemas.%s.decode_row(raw)" % ACC[kind], []).append(
                [kind, i, P.md(lambda: getattr(sch, ACC[kind]).decode_row(raw_row(t_, i))), None])
    P.value("ts.metadata_schema.decode_row(raw)", "top", lambda: ts.metadata_schema.decode_row(raw_tc.metadata_bytes))


def walk_table_paths(tskit, tc, ts, P):
    """every row-yielding entry point of TableCollection / the table classes, for every way of
    getting hold of the tables"""
    import pickle
    sources = [("tables", lambda: tc), ("ts.tables", lambda: ts.tables), ("ts.dump_tables()", lambda: ts.dump_tables()),
               ("tables.copy()", lambda: tc.copy()),
               ("TableCollection.fromdict(tables.asdict())", lambda: tskit.TableCollection.fromdict(tc.asdict())),
               ("pickle(tables)", lambda: pickle.loads(pickle.dumps(tc))),
               ("pickle(ts).tables", lambda: pickle.loads(pickle.dumps(ts)).tables)]
    for sname, get in sources:
        T = get()
        P.value(sname + ".metadata", "top", lambda: T.metadata)
        P.value(sname + ".reference_sequence.metadata", "refseq", lambda: T.reference_sequence.metadata)
        for kind in KINDS + ["provenances"]:
            t = getattr(T, kind)
            n = len(t)
            ref0 = getattr(tc, kind)

            def ref(i):
                return ref0[i]

            def rows(path, pairs):
                for i, r in pairs:
                    P.put("%s.%s%s" % (sname, kind, path), kind, i, r, ref)
            rows("[i]", [(i, t[i]) for i in range(n)])
            rows("[i-n]", [(i, t[i - n]) for i in range(n)])
            rows(" (iteration)", list(enumerate(t)))
            rows("[:][i]", list(enumerate(t[:])))
            rows("[1:][i]", [(i + 1, r) for i, r in enumerate(t[1:])])
            rows("[::-1][i]", [(n - 1 - i, r) for i, r in enumerate(t[::-1])])
            rows("[[ids]][i]", [(n - 1 - i, r) for i, r in enumerate(t[list(range(n - 1, -1, -1))])])
            rows("[mask][i]", [(2 * i, r) for i, r in enumerate(t[[j % 2 == 0 for j in range(n)]])])
            rows(".copy()[i]", list(enumerate(t.copy())))
            rows(" via table_name_map", list(enumerate(T.table_name_map[kind])))
            t2 = type(t)()
            t2.set_columns(**t.asdict())
            rows(" via set_columns(**asdict())", list(enumerate(t2)))
            t3 = type(t)()
            if kind != "provenances":
                t3.metadata_schema = t.metadata_schema
            t3.append_columns(**{k: v for k, v in t.asdict().items() if k != "metadata_schema"})
            rows(" via append_columns", list(enumerate(t3)))
            if n > 1:
                t4 = t.copy()
                t4.keep_rows([True] * n)             # (dropping rows would renumber parent references)
                rows(".keep_rows(all)", list(enumerate(t4)))
                t5 = t.copy()
                t5.truncate(n - 1)
                rows(".truncate(n-1)", list(enumerate(t5)))
            if kind != "provenances":
                for i in range(n):
                    P.entries.setdefault("%s.%s.metadata_schema.decode_row(raw)" % (sname, kind), []).append(
                        [kind, i, P.md(lambda: t.metadata_schema.decode_row(raw_row(t, i))), None])


def path_class(path):
    return re.sub(r"^(tables\.copy\(\)|TableCollection\.fromdict\(tables\.asdict\(\)\)|pickle\(tables\)|pickle\(ts\)\.tables|ts\.tables|ts\.dump_tables\(\)|tables)\.", "T.", path)


class AccessPaths(Family):
    """tree sequences in which every table (and the collection, and the reference sequence) has its
    OWN struct or JSON schema and non-trivial metadata on every row: every public access path that
    hands out a row object or metadata — ts.<row>(i), the ts.<rows>() sequences, site.mutations,
    edge_diffs (both directions, with and without the terminal diff), Tree.sites()/mutations() for
    trees obtained in every way, Variant.site, table indexing / iteration / slices / copies /
    asdict / pickle — must show the object decoded with the schema of the row's own table, and the
    row must equal the one ts.<row>(id) / tables.<table>[id] gives."""
    name = "access_paths"
    workers = 4
    timeout = 120.0
    shard = 40
    prelude = "From TskVerif Require Import Base.Common C12.Model C12.RowView.\nOpen Scope Z_scope."

    def generate(self, rng, tier):
        n = 60 if tier == "quick" else 600
        for i in range(n):
            shape = gen_ts_shape(rng)
            counts = {"individuals": len(shape["individuals"]), "nodes": len(shape["nodes"]), "edges": len(shape["edges"]),
                      "sites": len(shape["sites"]), "mutations": len(shape["mutations"]), "migrations": len(shape["migrations"]),
                      "populations": shape["npop"], "top": 1, "refseq": 1}
            schemas, values, modes = {}, {}, {}
            for j, slot in enumerate(SLOTS):
                mode = ("struct", "json")[(i + j) % 2]
                if rng.random() < 0.08:
                    mode = "none"
                s, vals = gen_slot(rng, mode, counts[slot])
                schemas[slot], values[slot], modes[slot] = s, [tag(v) for v in vals], mode
            yield {"shape": shape, "schemas": schemas, "values": values, "modes": modes}

    def observe(self, case):
        import tskit
        tc, cons, rejected = build_access_tables(case)
        obs = {"construct": cons}
        if tc is None:
            return obs
        if rejected:
            obs["rejected"] = rejected
            return obs
        try:
            tc.build_index()
            tc.compute_mutation_parents()
            ts = tc.tree_sequence()
        except Exception as e:
            obs["ts"] = "%s: %s" % (exc_name(e), str(e)[:200])
            return obs
        obs["raw"] = {k: [list(raw_row(getattr(tc, k), i)) for i in range(len(getattr(tc, k)))] for k in KINDS}
        obs["raw"]["top"] = [list(tc.metadata_bytes)]
        obs["raw"]["refseq"] = [list(tc.reference_sequence.metadata_bytes)]
        obs["num_trees"] = int(ts.num_trees)
        P = _Paths()
        for name, walk in (("ts", lambda: walk_ts_paths(tskit, ts, P)), ("tables", lambda: walk_table_paths(tskit, tc, ts, P))):
            try:
                walk()
            except Exception as e:
                import traceback
                obs.setdefault("walk_failed", []).append("%s: %s: %s | %s" % (name, exc_name(e), str(e)[:200], traceback.format_exc()[-400:]))
        obs["pool"] = P.pool
        obs["paths"] = P.entries
        return obs

    def expected(self, case):
        return {slot: [tag(expected_object(case["schemas"][slot], tv)) for tv in case["values"][slot]] for slot in SLOTS}

    def expected_ids(self, case):
        """the ids the iterator-like paths must yield (sorted), from the case alone"""
        sh = case["shape"]
        ne = len(sh["edges"])
        L = sh["L"]
        out = {}
        counts = {"individuals": len(sh["individuals"]), "nodes": len(sh["nodes"]), "edges": ne, "sites": len(sh["sites"]),
                  "mutations": len(sh["mutations"]), "migrations": len(sh["migrations"]), "populations": sh["npop"],
                  "provenances": len(sh["provenances"])}
        for kind, n in counts.items():
            for p in ("ts.%s()", "reversed(ts.%s())", "ts.%s()[i]", "list(ts.%s())"):
                if not (kind == "mutations" and p != "ts.%s()"):
                    out[p % kind] = (kind, list(range(n)))
        out["ts.nodes(order=timeasc)"] = ("nodes", list(range(counts["nodes"])))
        out["for site in ts.sites()"] = ("sites", list(range(counts["sites"])))
        out["for site in ts.sites().mutations"] = ("mutations", list(range(counts["mutations"])))
        out["ts.site(position=)"] = ("sites", list(range(counts["sites"])))
        out["ts.site(position=).mutations"] = ("mutations", list(range(counts["mutations"])))
        for d in ("FORWARD", "REVERSE"):
            for term in (False, True):
                base = "ts.edge_diffs(include_terminal=%s,direction=%s)" % (term, d)
                leaving = [i for i, e in enumerate(sh["edges"]) if term or (e[1] < L if d == "FORWARD" else e[0] > 0)]
                for a, b in ((".edges_out", "[1]"), (".edges_in", "[2]")):
                    ids = leaving if a == ".edges_out" else list(range(ne))
                    out[base + a] = ("edges", ids)
                    out[base + b] = ("edges", ids)
        out["list(ts.edge_diffs(include_terminal=True)).edges_out"] = ("edges", list(range(ne)))
        for p in ("ts.trees()", "reversed(ts.trees())", "ts.aslist()", "ts.trees().copy()", "ts.trees(sample_lists=True,tracked_samples=)",
                  "Tree(ts).next()", "Tree(ts).prev()", "Tree(ts).seek_index(j)", "ts.at_index(j)", "ts.at_index(j-num_trees)"):
            out[p + ".sites()"] = ("sites", list(range(counts["sites"])))
            out[p + ".mutations()"] = ("mutations", list(range(counts["mutations"])))
            out[p + ".sites().mutations"] = ("mutations", list(range(counts["mutations"])))
        for p in ("ts.variants().site", "ts.variants(copy=False).site", "ts.variants(samples=).site", "Variant(ts).decode(j).site",
                  "Variant(ts).decode(j).copy().site"):
            out[p] = ("sites", list(range(counts["sites"])))
            out[p + ".mutations"] = ("mutations", list(range(counts["mutations"])))
        return out

    def oracle(self, case, obs):
        out = []
        for slot in SLOTS:
            c = obs["construct"].get(slot, "ok")
            if c != "ok":
                s = case["schemas"][slot]
                r = oracle_construct_valid(s, c) if s.get("codec") == "struct" else [("valid-schema-rejected", "MetadataSchema() raised %s" % c)]
                out += [] if r is REPAIRED else r
        if out or any(c != "ok" for c in obs["construct"].values()):
            return dedup(out)
        if "rejected" in obs:
            return [("valid-object-rejected", "a conforming in-domain value was refused on insertion: %r" % (obs["rejected"],))]
        if "ts" in obs:
            return [("adapter-tree-sequence", "tables.tree_sequence() failed: %s" % obs["ts"])]
        for w in obs.get("walk_failed", []):
            out.append(("access-path-raised", "walking the access paths raised: %s" % w))
        exp = self.expected(case)
        # what is stored is the encoding of the object under the slot's own schema
        for slot in SLOTS:
            s = case["schemas"][slot]
            for i, tv in enumerate(case["values"][slot]):
                v = untag(tv)
                want = v if s is None else (canonical(v) if s["codec"] == "json" else ref_encode(s, v))
                got = obs["raw"][slot][i] if i < len(obs["raw"][slot]) else None
                if got != list(want):
                    out.append(("access-paths-stored-bytes:" + slot, "row %d of %s stores %r, its schema encodes the object as %r"
                                % (i, slot, got, list(want))))
        pool = obs["pool"]
        for path, entries in obs["paths"].items():
            bad_md, bad_eq = [], []
            for kind, id_, m, eq in entries:
                if kind != "provenances":
                    want = exp[kind][id_] if 0 <= id_ < len(exp[kind]) else {"$no-such-row": id_}
                    if not deep_eq(pool[m], want):
                        bad_md.append("%s %d shows %r, the %s schema decodes its bytes to %r" % (ROW_ACCESSOR.get(kind, kind), id_, pool[m], kind, want))
                if eq is not None and eq is not True:
                    bad_eq.append("%s %d: row == reference row gave %r" % (ROW_ACCESSOR.get(kind, kind), id_, eq))
            if bad_md:
                out.append(("access-path-metadata:" + path_class(path), "%s: %s" % (path, "; ".join(bad_md[:3]))))
            if bad_eq:
                out.append(("access-path-row-differs:" + path_class(path), "%s: %s" % (path, "; ".join(bad_eq[:3]))))
        if "walk_failed" not in obs:
            for path, (kind, ids) in self.expected_ids(case).items():
                got = sorted(e[1] for e in obs["paths"].get(path, []) if e[0] == kind)
                if got != sorted(ids):
                    out.append(("access-path-coverage:" + path, "%s yielded %s ids %r, expected %r" % (path, kind, got, sorted(ids))))
        return dedup(out)

    def coq_check(self, case, obs):
        """Model.row_view: what any path shows for a row of a struct-schema table is decode_top of
        the row's stored bytes under THAT table's (modified) schema.  One term per distinct
        (table, row, shown object); a path that shows undecoded bytes is a disagreement."""
        if "paths" not in obs:
            return None
        tops, index = [], {}
        for slot in SLOTS:
            s = case["schemas"][slot]
            if s is not None and s.get("codec") == "struct":
                try:
                    tops.append(coq_top(s))
                    index[slot] = len(tops) - 1
                except Untranslatable:
                    pass
        if not tops:
            return None
        seen = set()
        for entries in obs["paths"].values():
            for kind, id_, m, eq in entries:
                if kind in index and 0 <= id_ < len(obs["raw"][kind]):
                    seen.add((kind, id_, m))
        terms = []
        for kind, id_, m in sorted(seen):
            shown = obs["pool"][m]
            if isinstance(shown, dict) and set(shown) in ({"$b"}, {"$exc"}, {"$repr"}):
                if set(shown) == {"$b"}:
                    terms.append("false")        # undecoded bytes: no value of the model equals them
                continue
            try:
                od = coq_odec(case["schemas"][kind], shown)
            except (Untranslatable, TypeError, AttributeError, KeyError):
                continue
            terms.append("check_row_view c12_tops %d%%nat %s %s" % (index[kind], coq_bytes(obs["raw"][kind][id_]), od))
        if not terms:
            return None
        return "(let c12_tops := [%s] in %s)" % ("; ".join(tops), " && ".join(terms))

    def nontrivial(self, case, obs):
        return "paths" in obs and len(obs["paths"]) > 100 and \
            len(obs["paths"].get("ts.edge_diffs(include_terminal=True,direction=REVERSE).edges_out", [])) > 0

    def describe(self, case, obs):
        m = case["modes"]
        return {"edges": m["edges"], "mutations": m["mutations"], "trees": obs.get("num_trees"),
                "construct": "ok" if all(c == "ok" for c in obs.get("construct", {}).values()) else "refused"}

    def shrink(self, case):
        # one slot at a time: the smallest schema of its codec, one-field rows
        tiny = {"struct": ({"codec": "struct", "type": "object", "properties": {"a": {"type": "integer", "binaryFormat": "B"}}},
                           lambda i: {"a": i + 1}),
                "json": ({"codec": "json", "type": "object", "properties": {"a": {"type": "integer"}}}, lambda i: {"a": i + 1})}
        for slot in SLOTS:
            mode = case["modes"][slot]
            if mode in tiny and case["schemas"][slot] != tiny[mode][0]:
                c = json.loads(json.dumps(case))
                c["schemas"][slot] = tiny[mode][0]
                c["values"][slot] = [tiny[mode][1](i) for i in range(len(case["values"][slot]))]
                yield c


# (AccessPaths last: ./check copies the first nine samples into evidence/C12.json and its observations are ~140 KB each)
FAMILIES = [SchemaAliasing, RowTransfer, StructDecodeBytes, StructRoundTrip, StructInvalidValue, StructExhaust, StructInvalidSchema, TablePaths, NumpyView, JsonCodec, AccessPaths]

NOT_COVERED = [
    "stringEncoding other than utf-8/ascii/latin-1 in the Coq model (utf-16/utf-32 variants are generated and checked by the oracle only: strings are byte lists after str.encode in the model)",
    "numpy view: the dtype spec, itemsize and leaf offsets are modelled and proved equal to the struct layout; the values seen through the view (numpy's own decoding of <i4, S, V ...) are differential",
    "schema string round trip: proved for the model (modify . canon . modify = modify); json.dumps/json.loads text and the lru_cache are differential",
    "round32_impl/widen32_impl satisfy round32 (widen32 w) = Some w only on samples (Example) - the theorems take it as a hypothesis",
    "MetadataSchema.__str__, drop_metadata; packset_metadata / metadata_vector / row.metadata caching / reference_sequence.metadata are oracle-only",
    "access_paths walks TreeSequence / Tree / Variant / TableCollection / table entry points of ONE tree sequence; rows of derived tree sequences (simplify, subset, union, load/dump, text formats) and the new Mutation objects of Tree.map_mutations (metadata = schema.empty_value) are not walked; JSON- and schema-less tables are oracle-only there (the model's row_view speaks about struct schemas)",
    "jsonschema keywords beyond type/properties/required/additionalProperties/items; meta-schema violations outside the 22 generated rules",
    "integers beyond 2^53 stored in 'f'/'d' fields (int -> float conversion is modelled exactly only up to 2^53; outside in_domain)",
]
