"""C04 -- simplify preserves the sample genealogy and the sample genotypes exactly.

Families
  simplify   random valid tree sequences (harness/gen_ts.py) x sample lists x option
             combinations.  The oracle evaluates the *property text* per position on the
             OUTPUT vs the INPUT through the returned node map (independent naive Python,
             per-position definitions, no segment merging).  The Coq specification
             (coq/theories/C04/Model.v : simplify_spec) is evaluated by vm_compute on the
             small cases and compared with the C output (node map, node rows, edge list,
             site / mutation / individual / population rows).
  small      exhaustive sample lists of size <= 3 (every order) on small tree sequences
             (<= 8 nodes, <= 3 trees) x random option combinations: the correspondence
             family proper (same oracle).
  refusal    inputs outside the simplify-able domain are refused with the documented
             error class (edge metadata, migrations, duplicate / out-of-range samples,
             keep_unary together with keep_unary_in_individuals).

All coordinates are handled in "h-units": twice the integer lattice coordinate of the
generator, so edge end points are even integers and site positions are integers.  The float
value stored in the tables is (h / 2) * scale, looked up exactly.
"""
import itertools
import random

from harness.runner import Family
from harness import gen_ts
from harness.gen_ts import hx
from harness.common import cz, cn, clist, cbool

NULL = -1

OPTS = ["keep_unary", "keep_unary_in_individuals", "keep_input_roots",
        "reduce_to_site_topology", "filter_nodes", "filter_sites", "filter_individuals",
        "filter_populations", "update_sample_flags"]
DEFAULTS = {"keep_unary": False, "keep_unary_in_individuals": False, "keep_input_roots": False,
            "reduce_to_site_topology": False, "filter_nodes": True, "filter_sites": True,
            "filter_individuals": True, "filter_populations": True, "update_sample_flags": True}


def opt_key(opts):
    """Input class of an option combination: the topology options that are ON, in a fixed
    order; filter_nodes / filter_sites are part of the class only together with
    reduce_to_site_topology (the only place where they interact with the topology)."""
    on = [o for o in OPTS[:4] if opts[o]]
    if opts["reduce_to_site_topology"]:
        on += [o for o in ("filter_nodes", "filter_sites") if opts[o]]
    return "+".join(on) or "default"


# ----------------------------------------------------------------------------------
# implementation side
# ----------------------------------------------------------------------------------

def _hmap(desc):
    s = desc.get("scale", 1)
    return {(h / 2) * s: h for h in range(0, 2 * desc["L"] + 1)}


def dump_tables(tc, hm):
    """Tables as JSON-able rows; coordinates in h-units (None when not on the lattice)."""
    import tskit
    nodes = [[int(r.flags), int(r.time) if float(r.time).is_integer() else repr(float(r.time)),
              int(r.population), int(r.individual), bytes(r.metadata).hex()] for r in tc.nodes]
    edges = [[hm.get(float(r.left)), hm.get(float(r.right)), int(r.parent), int(r.child)]
             for r in tc.edges]
    sites = [[hm.get(float(r.position)), r.ancestral_state, bytes(r.metadata).hex()]
             for r in tc.sites]
    muts = []
    for r in tc.mutations:
        t = None if tskit.is_unknown_time(r.time) else (int(r.time) if float(r.time).is_integer() else repr(float(r.time)))
        muts.append([int(r.site), int(r.node), r.derived_state, int(r.parent), t,
                     bytes(r.metadata).hex()])
    inds = [[int(r.flags), [float(x) for x in r.location], [int(x) for x in r.parents],
             bytes(r.metadata).hex()] for r in tc.individuals]
    pops = [[bytes(r.metadata).hex()] for r in tc.populations]
    return {"nodes": nodes, "edges": edges, "sites": sites, "mutations": muts,
            "individuals": inds, "populations": pops, "L": hm.get(float(tc.sequence_length)),
            "edge_md": int(len(tc.edges.metadata)), "migrations": int(tc.migrations.num_rows)}


def table_bytes(tc):
    """Every column of every table (provenance excluded), as bytes, for byte-identity."""
    d = tc.asdict()
    out = {}
    for name in ("individuals", "nodes", "edges", "migrations", "sites", "mutations", "populations"):
        for col, arr in sorted(d[name].items()):
            if hasattr(arr, "tobytes"):
                out[name + "/" + col] = (str(arr.dtype), arr.tobytes())
            else:
                out[name + "/" + col] = ("obj", repr(arr).encode())
    out["sequence_length"] = ("f8", repr(float(d["sequence_length"])).encode())
    return out


def decode_alleles(tc, nodes):
    """tskit's own decoding of the alleles of `nodes` at every site (strings)."""
    try:
        ts = tc.tree_sequence()
        out = []
        if not nodes:
            return [[float(s.position), []] for s in ts.sites()]
        for v in ts.variants(samples=list(nodes), isolated_as_missing=False):
            out.append([float(v.site.position), [v.alleles[g] for g in v.genotypes]])
        return out
    except Exception as e:  # recorded; the oracle's own decoding is the reference
        return {"error": "%s: %s" % (type(e).__name__, e)}


SAMPLE_FORMS = ["i32", "list", "tuple", "i64", "strided", "reversed", "column", "strided_i64"]


def samples_arg(samples, form):
    """The same sample list in different array layouts (expected: identical result)."""
    import numpy as np
    k = len(samples)
    if form == "list":
        return list(samples)
    if form == "tuple":
        return tuple(samples)
    if form == "i64":
        return np.array(samples, dtype=np.int64)
    if form == "strided":            # every second element of a larger int32 buffer
        base = np.full(2 * k + 1, -7, dtype=np.int32)
        base[0:2 * k:2] = samples
        return base[0:2 * k:2]
    if form == "strided_i64":
        base = np.full(3 * k + 2, -7, dtype=np.int64)
        base[1:3 * k + 1:3] = samples
        return base[1:3 * k + 1:3]
    if form == "reversed":           # negative stride
        base = np.array(list(samples)[::-1], dtype=np.int32)
        return base[::-1]
    if form == "column":             # a column of a C-ordered 2-D array
        m = np.full((k, 3), -7, dtype=np.int32)
        m[:, 1] = samples
        return m[:, 1]
    return np.array(samples, dtype=np.int32)


def permute_individuals(tc, perm):
    """Rewrite the individual table so that new row k is old row perm[k]; node references
    and parents follow.  TableCollection.simplify accepts individuals in ANY row order
    (it never requests TSK_CHECK_INDIVIDUAL_ORDERING); tc.sort() would put parents first."""
    import numpy as np
    rows = list(tc.individuals)
    n = len(rows)
    assert sorted(perm) == list(range(n))
    new_of_old = [0] * n
    for k, old in enumerate(perm):
        new_of_old[old] = k
    tc.individuals.clear()
    for k in range(n):
        r = rows[perm[k]]
        tc.individuals.add_row(flags=r.flags, location=r.location,
                               parents=[new_of_old[q] if q != NULL else NULL for q in r.parents],
                               metadata=r.metadata)
    ind = tc.nodes.individual.copy()
    tc.nodes.individual = np.array([new_of_old[i] if i != NULL else NULL for i in ind], dtype=np.int32)


def run_simplify(case):
    import numpy as np
    desc, samples, opts = case["desc"], case["samples"], case["opts"]
    hm = _hmap(desc)
    tc = gen_ts.build_tables(desc, sort=True, index=False)
    shuffled = bool(case.get("ind_perm")) and len(case["ind_perm"]) == tc.individuals.num_rows
    if shuffled:
        permute_individuals(tc, case["ind_perm"])
    obs = {"in": dump_tables(tc, hm)}
    obs["in_alleles"] = decode_alleles(tc.copy(), samples) if not case.get("no_decode") else None
    kw = dict(opts)
    try:
        nm = tc.simplify(samples_arg(samples, case.get("samples_form", "i32")), record_provenance=False, **kw)
    except Exception as e:
        obs["error"] = [type(e).__name__, str(e)]
        return obs
    nm = [int(x) for x in nm]
    obs["node_map"] = nm
    obs["out"] = dump_tables(tc, hm)
    try:
        tcv = tc.copy()
        if shuffled:
            # a tree sequence needs parents-first individuals; the input did not have them,
            # so validity of the result is judged after sorting (sort only reorders)
            tcv.sort()
        ts = tcv.tree_sequence()
        obs["valid"] = True
        obs["num_trees"] = int(ts.num_trees)
    except Exception as e:
        obs["valid"] = "%s: %s" % (type(e).__name__, e)
    out_samples = [nm[s] for s in samples]
    obs["out_alleles"] = decode_alleles(tc.copy(), out_samples) if obs["valid"] is True and not shuffled else None
    # idempotence: simplify the result again w.r.t. the same (mapped) samples and options
    tc2 = tc.copy()
    try:
        nm2 = tc2.simplify(np.array(out_samples, dtype=np.int32), record_provenance=False, **kw)
        b1, b2 = table_bytes(tc), table_bytes(tc2)
        diff = sorted(k for k in b1 if b1[k] != b2.get(k))
        obs["idem_diff"] = diff
        obs["idem_node_map_identity"] = [int(x) for x in nm2] == list(range(len(nm2)))
        if diff:
            obs["out2"] = dump_tables(tc2, hm)
    except Exception as e:
        obs["idem_diff"] = ["error %s: %s" % (type(e).__name__, e)]
        obs["idem_node_map_identity"] = None
    return obs


# ----------------------------------------------------------------------------------
# oracle: the property text, evaluated naively per position
# ----------------------------------------------------------------------------------

def parent_map(edges, n, k):
    """parent of every node on the unit interval [k, k+1) (h-units)."""
    P = [NULL] * n
    for l, r, p, c in edges:
        if l <= k < r:
            P[c] = p
    return P


def path_up(P, u):
    out = [u]
    while P[u] != NULL and len(out) <= len(P):
        u = P[u]
        out.append(u)
    return out


def mrca(P, a, b):
    pb = set(path_up(P, b))
    for x in path_up(P, a):
        if x in pb:
            return x
    return NULL


def expected_reduce(P, S, opts, node_ind):
    """Per position: which input nodes remain, and their parent, from the property text."""
    n = len(P)
    Sset = set(S)
    below = [0] * n               # number of chosen samples at-or-below u
    for s in S:
        for a in path_up(P, s):
            below[a] += 1
    lineages = [0] * n            # child lineages carrying a chosen sample
    for c in range(n):
        if P[c] != NULL and below[c] > 0:
            lineages[P[c]] += 1
    kept = []
    for u in range(n):
        unary_ok = opts["keep_unary"] or (opts["keep_unary_in_individuals"] and node_ind[u] != NULL)
        k = (u in Sset) or lineages[u] >= 2 or (unary_ok and lineages[u] >= 1) \
            or (opts["keep_input_roots"] and P[u] == NULL and below[u] > 0)
        kept.append(bool(k))
    newpar = [NULL] * n
    for u in range(n):
        if kept[u]:
            for a in path_up(P, u)[1:]:
                if kept[a]:
                    newpar[u] = a
                    break
    return kept, newpar, below


def allele_of(P, site_muts, anc, s):
    """Allele of node s: the last mutation in table order on the path from s to its root."""
    on_path = set(path_up(P, s))
    a = anc
    for node, der in site_muts:
        if node in on_path:
            a = der
    return a


def oracle_simplify(case, obs):
    F = []
    opts, S = case["opts"], case["samples"]
    ok = opt_key(opts)

    def fail(check, msg):
        F.append(("%s:%s" % (check, ok), msg))

    tin = obs["in"]
    n = len(tin["nodes"])
    if "error" in obs:
        fail("refused", "simplify raised %s on a simplify-able input" % (obs["error"],))
        return F
    out, nm = obs["out"], obs["node_map"]
    m = len(out["nodes"])
    if obs["valid"] is not True:
        fail("invalid-output", "result does not load as a tree sequence: %s" % obs["valid"])
    if any(e[0] is None or e[1] is None for e in out["edges"]) or any(s[0] is None for s in out["sites"]):
        fail("coordinate-off-lattice", "an output coordinate is not an input breakpoint / site position / 0 / L")
        return F
    if out["L"] != tin["L"]:
        fail("sequence-length", "sequence length changed")
    # ---- node map: injective onto the output nodes, rows preserved ----------------
    inv = [NULL] * m
    for u, v in enumerate(nm):
        if v == NULL:
            continue
        if not (0 <= v < m) or inv[v] != NULL:
            fail("node-map", "node map is not an injection into the output nodes: %r" % (nm,))
            return F
        inv[v] = u
    if NULL in inv:
        fail("node-map", "output node %d is not the image of an input node" % inv.index(NULL))
        return F
    if any(nm[s] == NULL for s in S):
        fail("node-map", "a chosen sample is not mapped")
        return F
    Sset = set(S)
    if opts["filter_nodes"]:
        for k, s in enumerate(S):
            if nm[s] != k:
                fail("sample-order", "samples[%d]=%d became node %d" % (k, s, nm[s]))
    else:
        if nm != list(range(n)) or m != n:
            fail("filter-nodes-off", "node table / ids changed although filter_nodes=False")
    # population / individual id maps implied by the filters
    def ref_map(num_in, referenced, on):
        if not on:
            return list(range(num_in))
        mp, k = [], 0
        for j in range(num_in):
            if j in referenced:
                mp.append(k)
                k += 1
            else:
                mp.append(NULL)
        return mp
    pop_ref = {tin["nodes"][inv[v]][2] for v in range(m)} - {NULL}
    ind_ref = {tin["nodes"][inv[v]][3] for v in range(m)} - {NULL}
    pmap = ref_map(len(tin["populations"]), pop_ref, opts["filter_populations"])
    imap = ref_map(len(tin["individuals"]), ind_ref, opts["filter_individuals"])
    for v in range(m):
        fi, ti, pi, ii, mi = tin["nodes"][inv[v]]
        fo, to, po, io, mo = out["nodes"][v]
        if to != ti or mo != mi:
            fail("node-row", "node %d->%d time/metadata changed" % (inv[v], v))
        want = ((fi & ~1) | (1 if inv[v] in Sset else 0)) if opts["update_sample_flags"] else fi
        if fo != want:
            fail("node-flags", "node %d->%d flags %d, expected %d" % (inv[v], v, fo, want))
        if po != (pmap[pi] if pi != NULL else NULL):
            fail("node-population", "node %d->%d population %d->%d" % (inv[v], v, pi, po))
        if io != (imap[ii] if ii != NULL else NULL):
            fail("node-individual", "node %d->%d individual %d->%d" % (inv[v], v, ii, io))
    # ---- populations / individuals filtered exactly -------------------------------
    exp_pops = [tin["populations"][j] for j in range(len(pmap)) if pmap[j] != NULL]
    if out["populations"] != exp_pops:
        fail("filter-populations", "population table %r, expected %r" % (out["populations"], exp_pops))
    exp_inds = []
    for j in range(len(imap)):
        if imap[j] != NULL:
            fl, loc, par, md = tin["individuals"][j]
            exp_inds.append([fl, loc, [imap[p] if p != NULL else NULL for p in par], md])
    if out["individuals"] != exp_inds:
        fail("filter-individuals", "individual table %r, expected %r" % (out["individuals"], exp_inds))
    # ---- ancestry per position -------------------------------------------------------
    L = tin["L"]
    node_ind = [r[3] for r in tin["nodes"]]
    in_edges, out_edges = tin["edges"], out["edges"]
    site_pos = [s[0] for s in tin["sites"]]
    referenced_nodes = set()
    for l, r, p, c in out_edges:
        referenced_nodes.add(p)
        referenced_nodes.add(c)
    rts = opts["reduce_to_site_topology"]
    anc_reported = False
    for k in range(L):
        if rts:
            # the output tree over [k,k+1) is the tree *at the site* governing k: the last
            # site position <= k, or the first site when k lies before it; no sites: empty
            le = [p for p in site_pos if p <= k]
            kin = (max(le) if le else min(site_pos)) if site_pos else None
        else:
            kin = k
        Q = parent_map(out_edges, m, k)
        if kin is None:
            if any(q != NULL for q in Q) and not anc_reported:
                fail("ancestry", "no sites but an edge is present at h=%d" % k)
                anc_reported = True
            continue
        P = parent_map(in_edges, n, kin)
        kept, newpar, below = expected_reduce(P, S, opts, node_ind)
        # (1) literal: MRCA of every pair of chosen samples
        for a, b in itertools.combinations(S, 2):
            mi = mrca(P, a, b)
            mo = mrca(Q, nm[a], nm[b])
            if (mo == NULL) != (mi == NULL) or (mi != NULL and nm[mi] != mo):
                if not anc_reported:
                    fail("mrca", "h=%d samples %d,%d: mrca %d -> out %d (inv %s)" % (k, a, b, mi, mo, inv[mo] if mo != NULL else None))
                    anc_reported = True
        # (2) retained nodes and their ancestry are the restriction of the original
        for v in range(m):
            u = inv[v]
            if kept[u]:
                want = nm[newpar[u]] if newpar[u] != NULL else NULL
                if newpar[u] != NULL and want == NULL:
                    want = "unmapped"
                if Q[v] != want and not anc_reported:
                    fail("ancestry", "h=%d input node %d (out %d): parent %s expected %s (input %d)" % (k, u, v, Q[v], want, newpar[u]))
                    anc_reported = True
            else:
                if (Q[v] != NULL or v in [q for q in Q]) and not anc_reported:
                    fail("ancestry", "h=%d input node %d (out %d) should not take part in the tree here" % (k, u, v))
                    anc_reported = True
        for u in range(n):
            if kept[u] and nm[u] == NULL and not anc_reported:
                fail("ancestry", "h=%d input node %d must be retained but is unmapped" % (k, u))
                anc_reported = True
        # (3) literal ancestor relation among retained nodes
        if not anc_reported:
            for va in range(m):
                for vb in range(m):
                    if va != vb and kept[inv[va]] and kept[inv[vb]]:
                        a_in = inv[va] in path_up(P, inv[vb])
                        a_out = va in path_up(Q, vb)
                        if a_in != a_out and not anc_reported:
                            fail("ancestry-relation", "h=%d: %d anc of %d: in=%s out=%s" % (k, inv[va], inv[vb], a_in, a_out))
                            anc_reported = True
    # ---- unreferenced nodes removed when filter_nodes -------------------------------
    if opts["filter_nodes"]:
        for v in range(m):
            if inv[v] not in Sset and v not in referenced_nodes:
                fail("unreferenced-node", "output node %d (input %d) is neither a sample nor referenced by an edge" % (v, inv[v]))
                break
    # ---- sites and mutations --------------------------------------------------------
    # What the property text demands: output sites are input sites (row preserved, order
    # preserved); a site is removed iff filter_sites is on and no output mutation refers to
    # it; output mutations are input mutations (row preserved, order preserved) sitting on
    # a retained node at or below their original node, parents mapped.  WHICH node exactly
    # is fixed by the Coq specification (correspondence), the genotype check below decides
    # whether the chosen samples still see the same alleles.
    in_pos = {st[0]: k for k, st in enumerate(tin["sites"])}
    site_of_out = [in_pos.get(st[0], NULL) for st in out["sites"]]
    if NULL in site_of_out or site_of_out != sorted(set(site_of_out)) or \
            any(out["sites"][k] != tin["sites"][site_of_out[k]] for k in range(len(site_of_out))):
        fail("site-rows", "output sites are not an order-preserving subset of the input site rows: %r" % (out["sites"],))
    else:
        referenced = {mu[0] for mu in out["mutations"]}
        for k in range(len(out["sites"])):
            if opts["filter_sites"] and k not in referenced:
                fail("filter-sites", "site %d (input %d) kept although no mutation refers to it" % (k, site_of_out[k]))
                break
        if not opts["filter_sites"] and site_of_out != list(range(len(tin["sites"]))):
            fail("filter-sites", "site table changed although filter_sites=False")
        smap_o = {si: k for k, si in enumerate(site_of_out)}
        md_in = {mu[5][:2]: k for k, mu in enumerate(tin["mutations"])}
        prev, mut_of_out, bad = -1, [], None
        for k, (site, node, der, par, t, md) in enumerate(out["mutations"]):
            jm = md_in.get(md[:2], NULL) if len(md_in) == len(tin["mutations"]) else NULL
            if jm == NULL or jm <= prev:
                bad = "output mutation %d is not an input mutation / order changed" % k
                break
            prev = jm
            mut_of_out.append(jm)
            isite, inode, ider, ipar, it, imd = tin["mutations"][jm]
            if (der, t, md) != (ider, it, imd) or smap_o.get(isite) != site:
                bad = "output mutation %d (input %d): row changed (site/derived/time/metadata)" % (k, jm)
                break
            pos = tin["sites"][isite][0]
            P = parent_map(in_edges, n, pos)
            kept, newpar, below = expected_reduce(P, S, opts, node_ind)
            u2 = inv[node] if 0 <= node < m else NULL
            if u2 == NULL or not kept[u2] or inode not in path_up(P, u2):
                bad = "output mutation %d (input %d above node %d) sits on output node %d (input %s): not a retained node at or below" % (k, jm, inode, node, u2)
                break
            # parent: the nearest retained ancestor mutation in the input parent chain
            q = ipar
            while q != NULL and q not in mut_of_out:
                q = tin["mutations"][q][3]
            want = mut_of_out.index(q) if q != NULL else NULL
            if par != want:
                bad = "output mutation %d (input %d): parent %d, expected %d" % (k, jm, par, want)
                break
        if bad:
            fail("mutations", bad)
    # genotypes: every chosen sample has the same allele at every retained site
    out_site_by_pos = {s[0]: j for j, s in enumerate(out["sites"])}
    geno_bad = False
    for j, (pos, anc, md) in enumerate(tin["sites"]):
        P = parent_map(in_edges, n, pos)
        in_muts = [(mu[1], mu[2]) for mu in tin["mutations"] if mu[0] == j]
        a_in = [allele_of(P, in_muts, anc, s) for s in S]
        if pos in out_site_by_pos:
            jo = out_site_by_pos[pos]
            Q = parent_map(out_edges, m, pos)
            o_muts = [(mu[1], mu[2]) for mu in out["mutations"] if mu[0] == jo]
            a_out = [allele_of(Q, o_muts, out["sites"][jo][1], nm[s]) for s in S]
            if a_in != a_out and not geno_bad:
                fail("genotypes", "site h=%d: alleles of the chosen samples %r -> %r" % (pos, a_in, a_out))
                geno_bad = True
        else:
            # a removed site: every chosen sample must carry the ancestral state
            if any(a != anc for a in a_in) and not geno_bad:
                fail("genotypes", "site h=%d removed although a chosen sample carries a derived allele" % pos)
                geno_bad = True
    # tskit's own decoding of both sides (alleles compared as strings)
    ia, oa = obs.get("in_alleles"), obs.get("out_alleles")
    if isinstance(ia, list) and isinstance(oa, list):
        din = {p: a for p, a in ia}
        for p, a in oa:
            if din.get(p) != a:
                fail("genotypes-decoded", "position %r: decoded alleles %r -> %r" % (p, din.get(p), a))
                break
    elif isinstance(oa, dict):
        fail("genotypes-decoded", "output variants failed: %s" % oa["error"])
    # ---- idempotence ------------------------------------------------------------------
    if obs["idem_diff"]:
        # input class of a non-idempotent case: what the first pass did that the second
        # pass can see (a dropped site under reduce_to_site_topology; an isolated input
        # root left in the node table).  Anything else is unexplained.
        why = ""
        if rts and opts["filter_sites"] and len(out["sites"]) < len(tin["sites"]):
            why += "-sites-dropped"
        if rts and opts["keep_input_roots"] and opts["filter_nodes"] and \
                any(inv[v] not in Sset and v not in referenced_nodes for v in range(m)):
            why += "-isolated-root"
        fail("idempotence" + why, "simplify(simplify(ts)) differs in %s" % (obs["idem_diff"][:6],))
    elif obs["idem_node_map_identity"] is False:
        fail("idempotence-node-map", "second simplify renumbers nodes")
    # keep reports short: the first two failing checks, plus the checks that have recorded
    # findings (so that an unrelated failure is never hidden behind a known one)
    tail = [f for f in F if f[0].startswith(("unreferenced-node", "idempotence"))]
    head = [f for f in F if f not in tail]
    return head[:2] + tail


# ----------------------------------------------------------------------------------
# generators
# ----------------------------------------------------------------------------------

def clean_desc(d):
    """Inside the simplify-able domain: no edge metadata, no migrations.  Mutation metadata
    gets a unique first byte so that output mutations can be identified with input rows."""
    d = dict(d)
    d["edges"] = [[l, r, p, c, ""] for l, r, p, c, _m in d["edges"]]
    d["migrations"] = []
    d["mutations"] = [[s, u, der, par, t, "%02x" % k + md[2:]] for k, (s, u, der, par, t, md) in enumerate(d["mutations"])]
    return d


# ----------------------------------------------------------------------------------
# Coq side: the specification evaluated on the same case
# ----------------------------------------------------------------------------------

PRELUDE = "From TskVerif Require Import Base.Common C04.Model C04.SimplifyAlg.\nOpen Scope Z_scope."


def coq_tables(tin):
    nodes = "[" + "; ".join("(%s, %s, %s, %s)" % (cz(f), cz(t), cz(p), cz(i)) for f, t, p, i, _m in tin["nodes"]) + "]"
    edges = "[" + "; ".join("(%s, %s, %s, %s)" % (cz(l), cz(r), cn(p), cn(c)) for l, r, p, c in tin["edges"]) + "]"
    sites = clist([s[0] for s in tin["sites"]])
    muts = "[" + "; ".join("(%s, %s, %s)" % (cn(m[0]), cn(m[1]), cz(m[3])) for m in tin["mutations"]) + "]"
    inds = "[" + "; ".join(clist(i[2]) for i in tin["individuals"]) + "]"
    return "(mkTables %s %s %s %s %s %s %s)" % (cz(tin["L"]), nodes, edges, sites, muts, inds, cn(len(tin["populations"])))


def coq_opts(o):
    return "(mkOpts %s)" % " ".join(cbool(o[k]) for k in OPTS)


def jz(xs):
    return "(jz_list %s)" % clist(xs)


def canonical_J(case, obs, table_order=False):
    """The C output in the shape of Model.result_J (edges sorted by parent, child, left; or in
    table order for the algorithm model), or None when an output row cannot be identified
    with an input row (reported by the oracle)."""
    tin, out, nm = obs["in"], obs["out"], obs["node_map"]
    m = len(out["nodes"])
    inv = [NULL] * m
    for u, v in enumerate(nm):
        if v != NULL:
            if not (0 <= v < m) or inv[v] != NULL:
                return None
            inv[v] = u
    if NULL in inv:
        return None
    nodes = [[inv[v], out["nodes"][v][0], out["nodes"][v][2], out["nodes"][v][3]] for v in range(m)]
    edges = [[l, r, p, c] for l, r, p, c in out["edges"]]
    if not table_order:
        edges.sort(key=lambda e: (e[2], e[3], e[0]))
    if any(x is None for e in edges for x in e):
        return None
    pos_in = {s[0]: j for j, s in enumerate(tin["sites"])}
    sites = [pos_in.get(s[0], -1) for s in out["sites"]]
    md_in = {mu[5][:2]: j for j, mu in enumerate(tin["mutations"])}
    if len(md_in) != len(tin["mutations"]):
        return None
    muts = [[md_in.get(mu[5][:2], -1), mu[0], mu[1], mu[3]] for mu in out["mutations"]]
    # input ids of the output individuals / populations as observable through the nodes
    def back(col, num_in, num_out, on):
        if not on:
            return list(range(num_out))
        b = [NULL] * num_out
        for v in range(m):
            io, ii = out["nodes"][v][col], tin["nodes"][inv[v]][col]
            if io != NULL and 0 <= io < num_out:
                b[io] = ii
        return b
    ib = back(3, len(tin["individuals"]), len(out["individuals"]), case["opts"]["filter_individuals"])
    pb = back(2, len(tin["populations"]), len(out["populations"]), case["opts"]["filter_populations"])
    inds = "(JL [" + "; ".join("JL [JZ %s; %s]" % (cz(ib[k]), jz(out["individuals"][k][2])) for k in range(len(ib))) + "])"
    return ("(JL [%s; JL [%s]; JL [%s]; %s; JL [%s]; %s; %s])" % (
        jz(nm), "; ".join(jz(r) for r in nodes), "; ".join(jz(e) for e in edges), jz(sites),
        "; ".join(jz(r) for r in muts), inds, jz(pb)))


def coq_term(case, obs, max_nodes=10):
    if "out" not in obs or len(obs["in"]["nodes"]) > max_nodes or obs["in"]["L"] is None:
        return None
    j = canonical_J(case, obs)
    if j is None:
        return None
    t, S, o = coq_tables(obs["in"]), clist(case["samples"], cn), coq_opts(case["opts"])
    term = "J_eqb (result_J (simplify_spec %s %s %s)) %s" % (t, S, o, j)
    # the model of the C algorithm reproduces the tables row for row (edges in table order)
    term += " && J_eqb (result_J (simplify_alg %s %s %s)) %s" % (t, S, o, canonical_J(case, obs, table_order=True))
    # the specification is a fixed point of itself exactly when the C code is
    if isinstance(obs.get("idem_diff"), list) and not any(d.startswith("error") for d in obs["idem_diff"]):
        term += " && Bool.eqb (spec_idempotent_on %s %s %s) %s" % (t, S, o, cbool(not obs["idem_diff"]))
    return term


def random_opts(rng, p_flip=0.35):
    o = dict(DEFAULTS)
    if rng.random() < 0.15:
        return o
    for k in OPTS:
        if rng.random() < p_flip:
            o[k] = not o[k]
    if o["keep_unary"] and o["keep_unary_in_individuals"]:
        o[rng.choice(["keep_unary", "keep_unary_in_individuals"])] = False
    return o


EXTRA_BITS = [1 << 16, 1 << 19, 2, 1 << 31, (1 << 16) | (1 << 19), 0xFFFFFFFE]


def with_variants(rng, case, p_flags=0.3, p_form=0.5):
    """Application-defined node flag bits (simplify may only touch the sample bit) and the
    layout of the samples argument."""
    if rng.random() < p_flags:
        d = dict(case["desc"])
        d["nodes"] = [[f | (rng.choice(EXTRA_BITS) if rng.random() < 0.5 else 0), t, p, i, m]
                      for f, t, p, i, m in d["nodes"]]
        case = dict(case, desc=d)
    if rng.random() < p_form:
        case = dict(case, samples_form=rng.choice(SAMPLE_FORMS))
    return with_node_perm(rng, case)


def with_node_perm(rng, case, p=0.5, keys=("samples",)):
    """Node ids independent of time order (tskit only orders parents and children by TIME):
    ancestors-first or random numbering, samples not first, roots in mixed id order.  The
    sample lists are mapped through the permutation; everything else in a case is either
    inside desc (remapped by gen_ts.permute_node_ids) or not node-indexed."""
    if case.get("node_perm") is not None:
        return case
    d2, pi = gen_ts.permute_node_ids(rng, case["desc"], p)
    if pi is None:
        return case
    n = len(pi)
    case = dict(case, desc=d2, node_perm=pi)
    for k in keys:
        case[k] = [pi[u] if 0 <= u < n else u for u in case[k]]
    return case


def with_ind_perm(rng, case, p=0.4):
    """With probability p: individuals in an arbitrary (non parents-first) row order."""
    n = len(case["desc"]["individuals"])
    if n >= 2 and rng.random() < p:
        perm = list(range(n))
        rng.shuffle(perm)
        case = dict(case, ind_perm=perm)
    return with_variants(rng, case)


def random_samples(rng, desc, maxk=4):
    n = len(desc["nodes"])
    if n == 0:
        return []
    k = rng.randrange(0, min(maxk, n) + 1)
    flagged = [u for u in range(n) if desc["nodes"][u][0] & 1]
    r = rng.random()
    if r < 0.35 and len(flagged) >= k:
        s = rng.sample(flagged, k)
    else:
        s = rng.sample(range(n), k)
    if rng.random() < 0.3:
        s.sort()
    return s


def shrink_case(case):
    d, S, o = case["desc"], case["samples"], case["opts"]
    for k in OPTS:
        if o[k] != DEFAULTS[k] and k not in ("reduce_to_site_topology", "filter_sites"):
            o2 = dict(o)
            o2[k] = DEFAULTS[k]
            yield dict(case, opts=o2)
    if case.get("ind_perm"):
        yield {k: v for k, v in case.items() if k != "ind_perm"}
    if case.get("samples_form"):
        yield {k: v for k, v in case.items() if k != "samples_form"}
    if any(nd[0] > 1 for nd in d["nodes"]):
        yield dict(case, desc=dict(d, nodes=[[f & 1, t, p, i, m] for f, t, p, i, m in d["nodes"]]))
    for i in range(len(S)):
        yield dict(case, samples=S[:i] + S[i + 1:])
    for i in range(len(d["mutations"]) - 1, -1, -1):
        if not any(m[3] == i for m in d["mutations"]):
            ms = [list(m) for m in d["mutations"][:i] + d["mutations"][i + 1:]]
            for m in ms:
                if m[3] > i:
                    m[3] -= 1
            yield dict(case, desc=dict(d, mutations=ms))
    for i in range(len(d["sites"]) - 1, -1, -1):
        if not any(m[0] == i for m in d["mutations"]):
            ms = [list(m) for m in d["mutations"]]
            for m in ms:
                if m[0] > i:
                    m[0] -= 1
            yield dict(case, desc=dict(d, sites=d["sites"][:i] + d["sites"][i + 1:], mutations=ms))
    for i in range(len(d["edges"])):
        yield dict(case, desc=dict(d, edges=d["edges"][:i] + d["edges"][i + 1:]))
    if d["individuals"]:
        yield dict(case, desc=dict(d, individuals=[], nodes=[[f, t, p, NULL, m] for f, t, p, i, m in d["nodes"]]))
    if d["populations"]:
        yield dict(case, desc=dict(d, populations=[], nodes=[[f, t, NULL, i, m] for f, t, p, i, m in d["nodes"]]))
    if any(nd[4] for nd in d["nodes"]):
        yield dict(case, desc=dict(d, nodes=[[f, t, p, i, ""] for f, t, p, i, m in d["nodes"]]))


def wide_case(rng, c):
    """c leaves under one parent on [0,1), a random part of them under a second parent on
    [1,2); both parents under a root; sites with mutations; (almost) all leaves chosen."""
    P1, P2, R = c, c + 1, c + 2
    nodes = [[1, 0, NULL, NULL, ""] for _ in range(c)] + [[0, 1, NULL, NULL, "a1"], [0, 1, NULL, NULL, ""], [0, 2, NULL, NULL, ""]]
    moved = set(rng.sample(range(c), rng.choice([0, 1, c // 2, c - 1])))
    edges = []
    for u in range(c):
        if u in moved:
            edges += [[0, 1, P1, u, ""], [1, 2, P2, u, ""]]
        else:
            edges.append([0, 2, P1, u, ""])
    edges += [[0, 2, R, P1, ""]] + ([[1, 2, R, P2, ""]] if moved else [])
    rng.shuffle(edges)
    sites = [[0.5, "A", ""], [1.5, "C", ""]]
    muts = [[0, P1, "G", NULL, None, ""], [0, rng.randrange(c), "T", 0, None, ""], [1, R, "T", NULL, None, ""]]
    if moved:
        muts.append([1, P2, "G", 2, None, ""])
    d = clean_desc({"L": 2, "scale": rng.choice([1, 0.5, 1 / 3]), "nodes": nodes, "edges": edges, "sites": sites,
                    "mutations": muts, "individuals": [], "populations": [], "migrations": []})
    how = rng.choice(["all", "all_shuffled", "all_but_one", "pow2"])
    S = list(range(c))
    if how == "all_shuffled":
        rng.shuffle(S)
    elif how == "all_but_one":
        S.remove(rng.randrange(c))
    elif how == "pow2":
        S = rng.sample(range(c), min(c, rng.choice([64, 128, 256])))
    o = random_opts(rng)
    return with_variants(rng, {"desc": d, "samples": S, "opts": o, "stream": "wide"}, p_flags=0.3, p_form=0.7)


class Simplify(Family):
    name = "simplify"
    workers = 8
    timeout = 30.0
    prelude = PRELUDE

    def counts(self, tier):
        return 1500 if tier == "quick" else 15000

    def generate(self, rng, tier):
        for _ in range(self.counts(tier)):
            big = rng.random() < 0.25
            d = clean_desc(gen_ts.random_desc(rng, max_nodes=12 if big else 8, max_L=8 if big else 6,
                                              max_sites=5 if big else 3))
            yield with_ind_perm(rng, {"desc": d, "samples": random_samples(rng, d), "opts": random_opts(rng)}, 0.25)
        q = tier == "quick"
        # (extension round) blind spots of the stream above
        # 1. larger tree sequences (13..30 nodes, up to 12 breakpoints, up to 8 chosen
        #    samples): oracle only, the Coq terms are limited to 10 nodes
        for _ in range(150 if q else 3000):
            d = clean_desc(gen_ts.random_desc(rng, max_nodes=30, max_L=12, max_sites=8, max_muts=6))
            yield with_variants(rng, {"desc": d, "samples": random_samples(rng, d, maxk=8), "opts": random_opts(rng), "stream": "large"})
        # 2. keep_unary_in_individuals with individuals actually attached to unary nodes
        #    (deep chains: small root probability), individuals with parents
        for _ in range(200 if q else 4000):
            while True:
                d = clean_desc(gen_ts.random_desc(rng, max_nodes=9, max_L=4, p_root=0.05, p_gap=0.05))
                if d["individuals"] and sum(1 for nd in d["nodes"] if nd[3] != NULL) >= 2:
                    break
            o = random_opts(rng)
            o["keep_unary"], o["keep_unary_in_individuals"] = False, True
            yield with_ind_perm(rng, {"desc": d, "samples": random_samples(rng, d, maxk=3), "opts": o, "stream": "kui"}, 0.4)
        # 3. population / individual filters: every node references a population and an
        #    individual, few chosen samples (most references disappear), filters on and off,
        #    individual parents pointing at individuals that get removed
        for _ in range(150 if q else 3000):
            while True:
                d = clean_desc(gen_ts.random_desc(rng, max_nodes=8, max_L=3))
                if d["individuals"] and d["populations"] and d["nodes"]:
                    break
            ni, npop = len(d["individuals"]), len(d["populations"])
            d["nodes"] = [[f, t, rng.randrange(npop) if rng.random() < 0.9 else NULL,
                           rng.randrange(ni) if rng.random() < 0.9 else NULL, m] for f, t, p, i, m in d["nodes"]]
            d["individuals"] = [[fl, loc, [rng.choice([NULL] + list(range(k)) * 3) for _ in range(rng.randrange(0, 3))], m]
                                for k, (fl, loc, par, m) in enumerate(d["individuals"])]
            o = random_opts(rng)
            o["filter_populations"], o["filter_individuals"] = rng.random() < 0.5, rng.random() < 0.5
            yield with_ind_perm(rng, {"desc": d, "samples": random_samples(rng, d, maxk=2), "opts": o, "stream": "refs"}, 0.5)
        # 4. pedigrees: 3..6 individuals, most with one or two parents, every node attached to
        #    an individual, several chosen samples (several individuals and their parents are
        #    retained), rows of the individual table in an arbitrary order -- simplify does
        #    not require parents-first -- filter_individuals on and off
        for _ in range(250 if q else 5000):
            while True:
                d = clean_desc(gen_ts.random_desc(rng, max_nodes=9, max_L=3, max_sites=2))
                if len(d["nodes"]) >= 3:
                    break
            ni = rng.randrange(3, 7)
            d["individuals"] = [[rng.randrange(0, 4), [], [rng.choice([NULL] + list(range(k)) * 4)
                                                          for _ in range(rng.choice([0, 1, 2, 2]))] if k else [], hx(rng)]
                                for k in range(ni)]
            d["nodes"] = [[f, t, p, rng.randrange(ni) if rng.random() < 0.95 else NULL, m] for f, t, p, i, m in d["nodes"]]
            o = random_opts(rng)
            o["filter_individuals"] = rng.random() < 0.7
            case = {"desc": d, "samples": random_samples(rng, d, maxk=5), "opts": o, "stream": "pedigree"}
            yield with_ind_perm(rng, case, 1.0)

        # 5. sizes at powers of two: one parent with 63..257 children (segment queue of 64
        #    doubling, overlapper buffer of 8 growing, buffered_children), 256+ chosen samples;
        #    two trees: some children move to a second parent.  Oracle only.
        widths = [64, 65, 129, 256, 257] if q else [63, 64, 65, 127, 128, 129, 255, 256, 257, 300] * 2
        for c in widths:
            yield wide_case(rng, c)

    def observe(self, case):
        return run_simplify(case)

    def oracle(self, case, obs):
        return oracle_simplify(case, obs)

    def coq_check(self, case, obs):
        return coq_term(case, obs)

    def nontrivial(self, case, obs):
        return len(case["samples"]) >= 2 and len(case["desc"]["edges"]) >= 2 and "out" in obs

    def describe(self, case, obs):
        return {"stream": case.get("stream", "main"), "individual_rows_shuffled": bool(case.get("ind_perm")),
                "node_ids_permuted": case.get("node_perm") is not None,
                "samples_form": case.get("samples_form", "i32"),
                "extra_flag_bits": any(nd[0] > 1 for nd in case["desc"]["nodes"]), "num_nodes_bucket": min(len(case["desc"]["nodes"]) // 5, 6),
                "num_samples": len(case["samples"]),
                "options": "+".join(o for o in OPTS if case["opts"][o]) or "none",
                "nonsample_chosen": any(not (case["desc"]["nodes"][s][0] & 1) for s in case["samples"]),
                "out_edges": min(len(obs.get("out", {}).get("edges", [])), 12),
                "trees": obs.get("num_trees")}

    def shrink(self, case):
        return shrink_case(case)


class Small(Simplify):
    """Correspondence family proper: small tree sequences (<= 8 nodes, <= 3 trees), EVERY
    sample list of size <= 3 in every order (non-sample and internal nodes included),
    a random option combination for each."""
    name = "small"

    def generate(self, rng, tier):
        plan = [(5, 24), (6, 6), (8, 2)] if tier == "quick" else [(4, 60), (5, 80), (6, 50), (8, 25)]
        for max_nodes, count in plan:
            for _ in range(count):
                d = clean_desc(gen_ts.random_desc(rng, max_nodes=max_nodes, max_L=3, max_sites=3, max_muts=3))
                n = len(d["nodes"])
                for k in range(0, 4):
                    for S in itertools.permutations(range(n), k):
                        yield with_ind_perm(rng, {"desc": d, "samples": list(S), "opts": random_opts(rng, p_flip=0.3)}, 0.3)


class Layout(Family):
    """The `samples` argument in every array layout (list, tuple, int32 / int64, strided,
    negative-stride and 2-D-column views), at TableCollection and TreeSequence level: tables
    and node map must equal those for a fresh contiguous int32 copy."""
    name = "layout"
    workers = 4

    def generate(self, rng, tier):
        for _ in range(40 if tier == "quick" else 800):
            d = clean_desc(gen_ts.random_desc(rng, max_nodes=10, max_L=4))
            case = with_variants(rng, {"desc": d, "samples": random_samples(rng, d, maxk=6), "opts": random_opts(rng)},
                                 p_flags=0.3, p_form=0.0)
            yield case

    def observe(self, case):
        import numpy as np
        S, kw = case["samples"], case["opts"]
        ref = gen_ts.build_tables(case["desc"], sort=True, index=False)
        try:
            nm_ref = [int(x) for x in ref.simplify(np.array(S, dtype=np.int32), record_provenance=False, **kw)]
        except Exception as e:
            return {"ref_error": "%s: %s" % (type(e).__name__, e)}
        b_ref = table_bytes(ref)
        out = {}
        for form in SAMPLE_FORMS:
            for level in ("tc", "ts"):
                try:
                    tc = gen_ts.build_tables(case["desc"], sort=True, index=False)
                    arg = samples_arg(S, form)
                    if level == "tc":
                        nm = tc.simplify(arg, record_provenance=False, **kw)
                        res = tc
                    else:
                        ts2, nm = tc.tree_sequence().simplify(arg, map_nodes=True, record_provenance=False, **kw)
                        res = ts2.dump_tables()
                    b = table_bytes(res)
                    diff = sorted(k for k in b_ref if b_ref[k] != b.get(k))
                    if [int(x) for x in nm] != nm_ref:
                        diff.append("node_map")
                    # the caller's buffer must not be written to
                    if isinstance(arg, np.ndarray) and [int(x) for x in arg] != list(S):
                        diff.append("argument-modified")
                    out[form + "@" + level] = diff
                except Exception as e:
                    out[form + "@" + level] = ["%s: %s" % (type(e).__name__, e)]
        return {"variants": out}

    def oracle(self, case, obs):
        if "ref_error" in obs:
            return [("refused:" + opt_key(case["opts"]), obs["ref_error"])]
        return [("samples-layout:" + k, "result differs from the contiguous int32 call in %s" % (v[:5],))
                for k, v in sorted(obs["variants"].items()) if v]

    def nontrivial(self, case, obs):
        return len(case["samples"]) >= 2

    def describe(self, case, obs):
        return {"num_samples": len(case["samples"])}


class Refusal(Family):
    """Outside the simplify-able domain: refused with a library error, tables unchanged;
    and error-then-reuse: after the refusal the cause is removed and a valid simplify on
    the SAME TableCollection must give what a fresh object gives."""
    name = "refusal"
    workers = 4

    def generate(self, rng, tier):
        for _ in range(80 if tier == "quick" else 800):
            d = gen_ts.random_desc(rng, migrations=True)
            kind = rng.choice(["edge_metadata", "migrations", "duplicate", "oob", "both_unary"])
            d2 = clean_desc(d)
            n = len(d2["nodes"])
            S = random_samples(rng, d2)
            o = random_opts(rng) if rng.random() < 0.5 else dict(DEFAULTS)
            bad_S, bad_o = list(S), dict(o)
            if kind == "edge_metadata":
                if not d2["edges"]:
                    continue
                d2["edges"][rng.randrange(len(d2["edges"]))][4] = "00"
            elif kind == "migrations":
                if not d["migrations"]:
                    continue
                d2["migrations"] = d["migrations"]
            elif kind == "duplicate":
                if not S:
                    continue
                bad_S = S + [rng.choice(S)]
            elif kind == "oob":
                bad_S = S + [rng.choice([-1, n, n + 3, 2 ** 31 - 1, -2 ** 31])]
            else:
                bad_o["keep_unary"] = bad_o["keep_unary_in_individuals"] = True
            yield with_node_perm(rng, {"desc": d2, "samples": bad_S, "opts": bad_o, "kind": kind, "good_samples": S,
                                       "good_opts": o, "samples_form": rng.choice(SAMPLE_FORMS)},
                                 keys=("samples", "good_samples"))

    def observe(self, case):
        import numpy as np
        tc = gen_ts.build_tables(case["desc"], sort=True, index=False)
        before = table_bytes(tc)
        try:
            tc.simplify(samples_arg(case["samples"], case.get("samples_form", "i32")), record_provenance=False, **case["opts"])
            return {"error": None}
        except Exception as e:
            obs = {"error": [type(e).__name__, str(e)], "unchanged": table_bytes(tc) == before}
        # remove the cause on the same object and on a fresh one, then simplify both
        fresh = gen_ts.build_tables(case["desc"], sort=True, index=False)
        for t in (tc, fresh):
            if case["kind"] == "migrations":
                t.migrations.clear()
            if case["kind"] == "edge_metadata":
                t.edges.drop_metadata()
        S = np.array(case["good_samples"], dtype=np.int32)
        try:
            nm_f = [int(x) for x in fresh.simplify(S, record_provenance=False, **case["good_opts"])]
        except Exception as e:
            obs["reuse"] = "fresh object failed: %s" % e
            return obs
        try:
            nm = [int(x) for x in tc.simplify(S, record_provenance=False, **case["good_opts"])]
            b, bf = table_bytes(tc), table_bytes(fresh)
            diff = sorted(k for k in bf if bf[k] != b.get(k)) + ([] if nm == nm_f else ["node_map"])
            obs["reuse"] = diff
        except Exception as e:
            obs["reuse"] = "%s: %s" % (type(e).__name__, e)
        return obs

    EXPECT = {"edge_metadata": "TSK_ERR_CANT_PROCESS_EDGES_WITH_METADATA",
              "migrations": "TSK_ERR_SIMPLIFY_MIGRATIONS_NOT_SUPPORTED",
              "duplicate": "TSK_ERR_DUPLICATE_SAMPLE", "oob": "TSK_ERR_NODE_OUT_OF_BOUNDS",
              "both_unary": "TSK_ERR_KEEP_UNARY_MUTUALLY_EXCLUSIVE"}

    def oracle(self, case, obs):
        k = case["kind"]
        if obs["error"] is None:
            return [("accepted:" + k, "simplify accepted an input outside its domain")]
        cls, msg = obs["error"]
        out = []
        if cls != "LibraryError" or self.EXPECT[k] not in msg:
            out.append(("error-class:" + k, "raised %s: %s" % (cls, msg)))
        # a refusal must leave the (in-place) table collection as it was ...
        if not obs["unchanged"]:
            out.append(("tables-modified-on-error:" + k, "tables changed although simplify raised"))
        # ... so that a later valid call behaves as on a fresh object
        if obs.get("reuse"):
            out.append(("reuse-after-error:" + k, "valid simplify after the refusal: %s" % (obs["reuse"][:6] if isinstance(obs["reuse"], list) else obs["reuse"],)))
        return out

    def describe(self, case, obs):
        return {"kind": case["kind"]}


FAMILIES = [Simplify, Small, Layout, Refusal]
NOT_COVERED = []
