"""C03 — decoded genotypes follow nearest-mutation inheritance and the missing-data rules.

Families
  decode   one Variant object, decode(site) called in a random order (repeats allowed), with
           sample subsets (incl. non-sample nodes, malformed lists), isolated_as_missing, user
           allele lists (incl. duplicates / absent alleles).  Oracle = walk up the edge-defined
           parent map to the nearest mutation.  Coq check = C03.Model.decode on the arrays of a
           fresh tskit.Tree at the site + the TreeRep hypotheses of the theorems evaluated on
           those arrays against the edge-defined parent map.
  views    variants(left,right,copy) / genotype_matrix / haplotypes / alignments against the same
           rule (and against each other).  Coq check = the list-level specs of C03.Model
           (PyViews) on the per-site decode results.
"""
import os
import re

from harness.runner import Family
from harness import common, gen_ts
from harness.common import cz, cn, clist, copt, cbool

NULL = -1
ALLELE_POOLS = [("A", "C", "G", "T"), ("A", "C"), ("0", "1"), ("A", "C", "", "AC"),
                ("A", "", "ACG", "T", "G"), ("A", "C", "G", "T", "N", "-")]


# --------------------------------------------------------------------------------------
# independent definition of the property (uses only the case description + table order)
# --------------------------------------------------------------------------------------

def site_mutations(desc, s):
    """(node, derived) of the mutations of site s, in table order (gen_ts emits them grouped by
    site, parents before children; the adapter asserts the built tables kept that order)."""
    return [[m[1], m[2]] for m in desc["mutations"] if m[0] == s]


def expected_state(par, muts, anc, u):
    """derived state of the nearest mutation on the path from u towards its root (latest in
    table order among those on the same node); ancestral state if there is none."""
    v, steps = u, 0
    while v != NULL:
        on = [d for (n, d) in muts if n == v]
        if on:
            return on[-1]
        v = par[v]
        steps += 1
        assert steps <= len(par)
    return anc


def is_isolated(par, u):
    return par[u] == NULL and all(p != u for p in par)


def expected_row(desc, s, nodes, iam):
    """list of allele strings, None = missing"""
    pos, anc = desc["sites"][s][0], desc["sites"][s][1]
    par = gen_ts.parent_at(desc, pos)
    muts = site_mutations(desc, s)
    row = []
    for u in nodes:
        if iam and is_isolated(par, u) and not any(n == u for n, _ in muts):
            row.append(None)
        else:
            row.append(expected_state(par, muts, anc, u))
    return row


def site_states(desc, s):
    """ancestral first, then derived states in table order, first occurrences"""
    out = [desc["sites"][s][1]]
    for _n, d in site_mutations(desc, s):
        if d not in out:
            out.append(d)
    return out


def ts_samples(desc):
    return [u for u, nd in enumerate(desc["nodes"]) if nd[0] & 1]


def any_isolated_sample_tree(desc):
    bps = gen_ts.breakpoints(desc)
    for a in bps[:-1]:
        par = gen_ts.parent_at(desc, a)
        if any(is_isolated(par, u) for u in ts_samples(desc)):
            return True
    return False


# --------------------------------------------------------------------------------------
# helpers
# --------------------------------------------------------------------------------------

_ERR = {}


def err_codes():
    if not _ERR:
        src = open(os.path.join(common.REPO, "c/tskit/core.h")).read()
        for m in re.finditer(r"^#define\s+(TSK_ERR_\w+)\s+\(?(-\d+)\)?\s*$", src, re.M):
            _ERR[m.group(1)] = int(m.group(2))
    return _ERR


def exc_obs(e):
    name = type(e).__name__
    m = re.search(r"\((TSK_ERR_\w+)\)", str(e))
    return {"exc": name, "code": err_codes().get(m.group(1)) if m else None}


def build_ts(desc):
    tc = gen_ts.build_tables(desc)
    if desc.get("refseq") is not None:
        tc.reference_sequence.data = desc["refseq"]
    ts = tc.tree_sequence()
    # the oracle's notion of "table order" is the description's order: insist sort kept it
    got = [[int(m.site), int(m.node), m.derived_state] for m in ts.mutations()]
    want = [[m[0], m[1], m[2]] for m in desc["mutations"]]
    if got != want:
        raise AssertionError("tc.sort() reordered the mutations: %r vs %r" % (got, want))
    return ts


def cbytes_of(s):
    return clist(list(s.encode("utf8")), cz)


def calleles(al):
    return "[" + "; ".join(cbytes_of(a) for a in al) + "]"


def drop_sites(desc, keep):
    """copy of desc keeping only the sites with keep(index, site) (mutation parents remapped)"""
    d = dict(desc)
    smap, sites = {}, []
    for i, s in enumerate(desc["sites"]):
        if keep(i, s):
            smap[i] = len(sites)
            sites.append(s)
    mmap, muts = {}, []
    for j, m in enumerate(desc["mutations"]):
        if m[0] in smap:
            mmap[j] = len(muts)
            muts.append([smap[m[0]], m[1], m[2], m[3], m[4], m[5]])
    for m in muts:
        m[3] = mmap.get(m[3], NULL) if m[3] != NULL else NULL
    d["sites"], d["mutations"] = sites, muts
    return d


def gen_desc(rng, tier, pool=None, integer=False):
    pool = pool or rng.choice(ALLELE_POOLS)
    big = tier != "quick" and rng.random() < 0.3
    for attempt in range(6):
        d = gen_ts.random_desc(
            rng, max_nodes=12 if big else rng.choice([4, 6, 8]), max_L=rng.choice([1, 3, 5, 6]),
            max_sites=rng.choice([2, 3, 5]), max_muts=rng.choice([2, 4, 7]),
            metadata=False, individuals=False, populations=False,
            p_internal_sample=rng.choice([0.0, 0.15, 0.5]), p_gap=rng.choice([0.0, 0.15, 0.4]),
            p_root=rng.choice([0.1, 0.2, 0.5]), alleles=pool,
            scale=1 if integer else None)
        if integer:
            d = drop_sites(d, lambda i, s: float(s[0]).is_integer())
            for s in d["sites"]:
                s[0] = int(s[0])
        if d["sites"] or rng.random() < 0.1:
            break
    if rng.random() < 0.2:
        d = add_tail(rng, d, integer)
    # node ids not in time order (samples not first, not in id order relative to time)
    d, _pi = gen_ts.permute_node_ids(rng, d)
    if rng.random() < 0.3:
        # application-defined flag bits: only bit 0 decides whether a node is a sample
        for nd in d["nodes"]:
            if rng.random() < 0.5:
                nd[0] |= rng.choice(EXTRA_FLAGS)
    if rng.random() < 0.3:
        # dead branches: leaves (and sometimes whole sample-free subtrees) that are not samples
        for nd in d["nodes"]:
            if nd[0] & 1 and rng.random() < 0.4:
                nd[0] = 0
    return d


def add_tail(rng, d, integer):
    """a long edge-less end region (every node isolated there), usually with a site in it"""
    d = dict(d)
    oldL = d["L"]
    d["L"] = oldL + rng.choice([1, 3, 7])
    n = len(d["nodes"])
    if n and rng.random() < 0.8:
        pos = oldL + rng.randrange(0, d["L"] - oldL) + (0 if integer else rng.choice([0, 0.5]))
        pool = sorted({m[2] for m in d["mutations"]} | {x[1] for x in d["sites"]} | {"A", "C"})
        sites = list(d["sites"]) + [[pos, rng.choice(pool), ""]]
        known = any(m[4] is not None for m in d["mutations"])
        us = sorted((rng.randrange(n) for _ in range(rng.randrange(0, 4))), key=lambda u: -d["nodes"][u][1])
        muts = list(d["mutations"])
        last = {}
        for u in us:
            muts.append([len(sites) - 1, u, rng.choice(pool), last.get(u, NULL),
                         d["nodes"][u][1] if known else None, ""])
            last[u] = len(muts) - 1
        d["sites"], d["mutations"] = sites, muts
    return d


def gen_capacity(rng, m, alen=None):
    """a site with exactly m distinct alleles (allele array capacities 4, 8, 16, ... are crossed at
    m = 2^k - 1, 2^k, 2^k + 1); allele strings of length alen (power-of-two boundaries)"""
    d = gen_ts.random_desc(rng, max_nodes=rng.choice([6, 9]), max_L=2, max_sites=1, max_muts=0,
                           metadata=False, individuals=False, populations=False,
                           p_internal_sample=0.2, p_gap=0.0, p_root=0.2, alleles=("A",), scale=1)
    n = len(d["nodes"])
    if not d["sites"]:
        d["sites"] = [[0, "A", ""]]
    if n == 0:
        return d

    def name(i):
        base = "c%d" % i
        return base if alen is None else (base + "x" * alen)[:max(alen, len(base))] if alen >= len(base) else base
    d["sites"][0][1] = name(0)
    par = gen_ts.parent_at(d, d["sites"][0][0])
    us = sorted((rng.randrange(n) for _ in range(m - 1)), key=lambda u: -d["nodes"][u][1])
    muts, last_on = [], {}
    for j, u in enumerate(us):
        v, mp = u, NULL
        while v != NULL:
            if v in last_on:
                mp = last_on[v]
                break
            v = par[v]
        muts.append([0, u, name(j + 1), mp, None, ""])
        last_on[u] = j
    d["mutations"] = muts
    d, _pi = gen_ts.permute_node_ids(rng, d)
    return d


CAPACITY = [3, 4, 5, 7, 8, 9, 15, 16, 17, 31, 32, 33, 63, 64, 65, 127, 128, 129]
ALLELE_LEN = [1, 2, 3, 4, 7, 8, 9, 15, 16, 17, 31, 32, 33, 63, 64, 65, 255, 256, 257]

MANY = tuple("a%d" % i for i in range(160)) + ("",)


def mk_samples(samples, form):
    """the same node list in different array layouts (result must not depend on the layout)"""
    import numpy as np
    if samples is None or not form:
        return samples
    a = np.array(samples, dtype=np.int32)
    if form == 1:
        return a                                      # contiguous, already int32
    if form == 2:
        b = np.full(2 * len(a) + 1, -7, dtype=np.int32)
        b[::2][:len(a)] = a
        return b[::2][:len(a)]                        # strided view
    if form == 3:
        return np.array(list(samples)[::-1], dtype=np.int32)[::-1]    # reversed view
    if form == 4:
        m = np.full((len(a), 3), -7, dtype=np.int32)
        m[:, 1] = a
        return m[:, 1]                                # column of a 2-D array
    if form == 5:
        return np.array(samples, dtype=np.int64)
    if form == 6:
        return tuple(samples)
    return np.array(samples, dtype=np.uint32) if all(x >= 0 for x in samples) else a


def mk_alleles(alleles, form):
    if alleles is None:
        return None
    return list(alleles) if form == "list" else tuple(alleles)


EXTRA_FLAGS = [1 << 16, 1 << 19, 2, (1 << 31), 6]


def gen_wide(rng, kind):
    """integer-width cases: >= 256 children of one node, >= 256 mutations / alleles at a site"""
    pool = tuple("b%d" % i for i in range(700))
    if kind == "star":
        k = rng.choice([65, 129, 257, 300])
        nodes = [[1 if rng.random() < 0.9 else 0, 0, NULL, NULL, ""] for _ in range(k)] + [[0, 1, NULL, NULL, ""]]
        edges = [[0, 1, k, c, ""] for c in range(k) if rng.random() < 0.98]
        muts, last = [], {}
        ms = [k] * rng.randrange(0, 3) + sorted(rng.sample(range(k), 8))
        for j, u in enumerate(ms):
            mp = last.get(u, last.get(k, NULL) if (u != k and any(e[3] == u for e in edges)) else NULL)
            muts.append([0, u, pool[j], mp, None, ""])
            last[u] = j
        return {"L": 1, "scale": 1, "nodes": nodes, "edges": edges, "sites": [[0, "A", ""]],
                "mutations": muts, "individuals": [], "populations": [], "migrations": []}
    while True:
        d = gen_ts.random_desc(rng, max_nodes=60, max_L=1, max_sites=1, max_muts=700,
                               metadata=False, individuals=False, populations=False,
                               p_internal_sample=0.1, p_gap=0.0, p_root=0.1, alleles=pool, scale=1)
        if len(d["mutations"]) >= 300:
            break
    for j, m in enumerate(d["mutations"]):
        m[2] = pool[j % len(pool)]
    return d


def gen_many_alleles(rng):
    """one site with far more than 64 distinct alleles (allele list growth 4 -> 8 -> ... -> 128)"""
    d = gen_ts.random_desc(rng, max_nodes=rng.choice([70, 90]), max_L=2, max_sites=1, max_muts=140,
                           metadata=False, individuals=False, populations=False,
                           p_internal_sample=0.1, p_gap=0.0, p_root=0.1, alleles=MANY, scale=1)
    # distinct derived states as far as possible
    for j, m in enumerate(d["mutations"]):
        m[2] = MANY[j % len(MANY)]
    return d


def gen_samples(rng, desc, malformed_ok=True):
    """None, or a node list: subset/permutation of the samples, any nodes, or malformed."""
    n = len(desc["nodes"])
    ss = ts_samples(desc)
    r = rng.random()
    if r < 0.3 or n == 0:
        return None
    if r < 0.4:
        return rng.sample(ss, len(ss))                       # a permutation of ALL samples
    if r < 0.6:
        k = rng.randrange(0, len(ss) + 1)
        return rng.sample(ss, k)
    if r < 0.92 or not malformed_ok:
        k = rng.randrange(0, n + 1)
        return rng.sample(range(n), k)
    out = rng.sample(range(n), rng.randrange(1, n + 1))
    what = rng.randrange(3)
    if what == 0:
        out.insert(rng.randrange(len(out) + 1), rng.choice(out))          # duplicate
    elif what == 1:
        out.insert(rng.randrange(len(out) + 1), rng.choice([-1, n, n + 3, -5]))
    else:
        out.insert(rng.randrange(len(out) + 1), rng.choice(out))
        out.insert(rng.randrange(len(out) + 1), rng.choice([-1, n]))
    return out


def gen_alleles(rng, desc):
    """None or a user allele list (complete / with duplicates and extras / incomplete)."""
    if rng.random() < 0.55:
        return None
    need = []
    for s in range(len(desc["sites"])):
        for a in site_states(desc, s):
            if a not in need:
                need.append(a)
    al = list(need)
    r = rng.random()
    if r < 0.35:
        al += [x for x in ("A", "C", "G", "T", "", "x") if x not in al][:rng.randrange(0, 3)]
    elif r < 0.6 and al:
        al.insert(rng.randrange(len(al) + 1), rng.choice(al))               # duplicate
    elif r < 0.8 and al:
        al.remove(rng.choice(al))                                          # some state absent
        if not al:
            al = ["zz"]
    rng.shuffle(al)
    if not al:
        al = ["A"]
    return al


def init_expect(desc, samples, iam):
    """None if Variant(...) must succeed, else the error code of the first offending entry
    (the order of the three checks per entry follows the documentation of the errors; the
    exact code is also what the Coq model variant_init computes)."""
    if samples is None:
        return None
    n = len(desc["nodes"])
    seen = set()
    for u in samples:
        if u < 0 or u >= n:
            return "TSK_ERR_NODE_OUT_OF_BOUNDS"
        if u in seen:
            return "TSK_ERR_DUPLICATE_SAMPLE"
        if iam and not (desc["nodes"][u][0] & 1):
            return "TSK_ERR_MUST_IMPUTE_NON_SAMPLES"
        seen.add(u)
    return None


def tree_arrays(ts, x):
    """arrays of a *fresh* tree at position x (what genotypes.c reads)"""
    import tskit
    t = tskit.Tree(ts, sample_lists=True)
    t.seek(x)
    n = ts.num_nodes
    return {
        "lc": [int(v) for v in t.left_child_array],
        "rs": [int(v) for v in t.right_sib_array],
        "ls": [int(t.left_sample(u)) for u in range(n)],
        "rsam": [int(t.right_sample(u)) for u in range(n)],
        "ns": [int(t.next_sample(k)) for k in range(ts.num_samples)],
        "vr": int(t.virtual_root),
    }


def ctree(a):
    return "(mkTree %s %s %s %s %s %s)" % (clist(a["lc"]), clist(a["rs"]), clist(a["ls"]),
                                            clist(a["rsam"]), clist(a["ns"]), cz(a["vr"]))


def csite(desc, s):
    return "(mkSite %s [%s])" % (cbytes_of(desc["sites"][s][1]),
                                 "; ".join("(%s, %s)" % (cz(n), cbytes_of(d))
                                           for n, d in site_mutations(desc, s)))


def cvariant_init(desc, samples, alleles, iam):
    flags = [nd[0] for nd in desc["nodes"]]
    ss = ts_samples(desc)
    imap = [NULL] * len(flags)
    for k, u in enumerate(ss):
        imap[u] = k
    return "(variant_init %s %s %s %s %s %s)" % (
        clist(flags), clist(ss), clist(imap),
        "None" if samples is None else "(Some %s)" % clist(samples),
        "None" if alleles is None else "(Some %s)" % calleles(alleles),
        cbool(not iam))


def cresult(obs_dec):
    """observed decode outcome as a Coq [res decode_result]"""
    if "err" in obs_dec:
        code = obs_dec["err"]["code"]
        return "(Err %s)" % cz(code if code is not None else 0)
    al = [a for a in obs_dec["alleles"] if a is not None]
    return "(Ok (%s, %s, %s))" % (clist(obs_dec["genotypes"]), calleles(al), cbool(obs_dec["hmd"]))


# --------------------------------------------------------------------------------------
# family: decode
# --------------------------------------------------------------------------------------

class Decode(Family):
    name = "decode"
    prelude = ("From TskVerif Require Import Base.Common C03.Model C03.Spec C03.PyViews C03.MutParents\n"
               "  C03.SampleListProofs.\nRequire Import Coq.QArith.QArith.\nOpen Scope Z_scope.")
    workers = 8
    shard = 150

    def generate(self, rng, tier):
        n = 2000 if tier == "quick" else 20000
        many = 4 if tier == "quick" else 40
        wide = ["star", "muts"] if tier == "quick" else ["star", "muts"] * 4
        caps = ([(m, None) for m in CAPACITY] + [(rng.choice([2, 5]), a) for a in ALLELE_LEN]) * (1 if tier == "quick" else 3)
        for i in range(n):
            if i < len(wide):
                desc = gen_wide(rng, wide[i])
                if rng.random() < 0.7:
                    desc, _pi = gen_ts.permute_node_ids(rng, desc, p=1.0)
            elif i < len(wide) + len(caps):
                desc = gen_capacity(rng, *caps[i - len(wide)])
            else:
                desc = gen_many_alleles(rng) if i < many + len(wide) + len(caps) else gen_desc(rng, tier)
            ns = len(desc["sites"])
            samples = gen_samples(rng, desc)
            iam = rng.choice([True, True, False, None])
            alleles = gen_alleles(rng, desc)
            if ns == 0:
                order = []
            else:
                r = rng.random()
                if r < 0.2:
                    order = list(range(ns))
                elif r < 0.35:
                    order = list(range(ns))[::-1]
                else:
                    order = [rng.randrange(ns) for _ in range(rng.randrange(1, 2 * ns + 2))]
            if order and rng.random() < 0.15:
                # error then reuse: a decode of a site that does not exist, then valid decodes
                order.insert(rng.randrange(len(order)), rng.choice([-1, ns, ns + 7, -3]))
            mds = rng.choice([None, None, "N", "?", "A", "--", ""])
            yield {"desc": desc, "samples": samples, "iam": iam, "alleles": alleles,
                   "order": order, "mds": mds, "sform": rng.randrange(8) if rng.random() < 0.6 else 0,
                   "aform": "list" if rng.random() < 0.06 else "tuple"}

    def observe(self, case):
        import logging
        import tskit
        import numpy as np
        logging.disable(logging.CRITICAL)
        desc = case["desc"]
        ts = build_ts(desc)
        obs = {"ts_samples": [int(u) for u in ts.samples()], "trees": {}, "decodes": []}
        for s in range(ts.num_sites):
            obs["trees"][str(s)] = tree_arrays(ts, ts.sites_position[s])
        # mutation.parent as stored and as tsk_table_collection_compute_mutation_parents computes it
        obs["mut_parent_stored"] = [int(x) for x in ts.mutations_parent]
        tc2 = ts.dump_tables()
        try:
            tc2.compute_mutation_parents()
            obs["mut_parent_computed"] = [int(x) for x in tc2.mutations.parent]
        except Exception as e:
            obs["mut_parent_computed"] = exc_obs(e)
        try:
            m = ts.genotype_matrix(samples=mk_samples(case["samples"], case.get("sform", 0)),
                                   isolated_as_missing=case["iam"],
                                   alleles=None if case["alleles"] is None else tuple(case["alleles"]))
            obs["matrix"] = {"ok": [[int(g) for g in r] for r in m]}
        except Exception as e:
            obs["matrix"] = exc_obs(e)
        try:
            v = tskit.Variant(ts, samples=mk_samples(case["samples"], case.get("sform", 0)),
                              isolated_as_missing=case["iam"],
                              alleles=mk_alleles(case["alleles"], case.get("aform", "tuple")))
        except Exception as e:
            obs["init"] = exc_obs(e)
            if case.get("aform") == "list" and case["alleles"] is not None and obs["init"]["exc"] == "TypeError":
                # documented: alleles must be a tuple; fall back to the tuple and go on
                obs["alleles_list"] = "TypeError"
                try:
                    v = tskit.Variant(ts, samples=mk_samples(case["samples"], case.get("sform", 0)),
                                      isolated_as_missing=case["iam"], alleles=tuple(case["alleles"]))
                except Exception as e2:
                    obs["init"] = exc_obs(e2)
                    return obs
            else:
                return obs
        obs["init"] = None
        obs["samples"] = [int(u) for u in v.samples]
        obs["iam_prop"] = bool(v.isolated_as_missing)
        try:
            v.genotypes
            obs["undecoded"] = "no error"
        except ValueError:
            obs["undecoded"] = "ValueError"
        copies = []
        for s in case["order"]:
            d = {"site": s}
            try:
                v.decode(s)
            except Exception as e:
                d["err"] = exc_obs(e)
                obs["decodes"].append(d)
                continue
            d["site_id"] = int(v.site.id)
            d["genotypes"] = [int(g) for g in v.genotypes]
            d["alleles"] = list(v.alleles)
            d["hmd"] = bool(v.has_missing_data)
            d["num_alleles"] = int(v.num_alleles)
            d["num_missing"] = int(v.num_missing)
            d["vsamples"] = [int(u) for u in v.samples]
            try:
                st = v.states() if case["mds"] is None else v.states(case["mds"])
                d["states"] = [str(x) for x in st]
            except Exception as e:
                d["states"] = {"exc": type(e).__name__}
            try:
                d["counts"] = [[k, int(c)] for k, c in v.counts().items()]
                tot = len(v.samples)
                fr = v.frequencies()
                d["freq_ok"] = all((tot > 0 and fr[k] == c / tot) or (tot == 0 and fr[k] != fr[k])
                                   for k, c in v.counts().items()) and len(fr) == len(v.counts())
                fr2 = v.frequencies(remove_missing=True)
                tot2 = tot - d["num_missing"]
                d["freq_rm_ok"] = (None not in fr2) and all(
                    (tot2 > 0 and fr2[k] == c / tot2) or (tot2 == 0 and fr2[k] != fr2[k])
                    for k, c in v.counts().items() if k is not None)
                # the floats as exact small fractions (None = nan), for the model over Q

                def frac(f, den):
                    from fractions import Fraction
                    if f != f:
                        return None
                    q = Fraction(float(f)).limit_denominator(max(den, 1))
                    return [q.numerator, q.denominator] if float(q) == float(f) else "inexact"
                d["freqs"] = [[k, frac(f, tot)] for k, f in fr.items()]
                d["freqs_rm"] = [[k, frac(f, tot)] for k, f in fr2.items()]
            except Exception as e:
                d["counts"] = {"exc": type(e).__name__, "msg": str(e)[:80]}
            # aliasing: mutate whatever the accessors returned, then re-probe the variant
            alias = []
            for name in ("genotypes", "samples"):
                arr = getattr(v, name)
                try:
                    arr[...] = 77
                    alias.append(name + ":written")
                except ValueError:
                    alias.append(name + ":read-only")
            al_t = v.alleles
            d["alias"] = alias
            d["alias_ok"] = ([int(g) for g in v.genotypes] == d["genotypes"] and
                             [int(u) for u in v.samples] == d["vsamples"] and
                             isinstance(al_t, tuple) and list(v.alleles) == d["alleles"])
            obs["decodes"].append(d)
            copies.append((v.copy(), d))
        # copies must be unaffected by later decodes and refuse to decode
        ok = True
        for c, d in copies:
            ok = ok and [int(g) for g in c.genotypes] == d["genotypes"] and list(c.alleles) == d["alleles"] \
                and bool(c.has_missing_data) == d["hmd"] and int(c.site.id) == d["site_id"] \
                and [int(u) for u in c.samples] == d["vsamples"]
        obs["copies_ok"] = ok
        if copies:
            try:
                copies[0][0].decode(0)
                obs["copy_decode"] = "no error"
            except Exception as e:
                obs["copy_decode"] = type(e).__name__
                obs["copy_decode_code"] = exc_obs(e)["code"]
        return obs

    # ---- oracle ---------------------------------------------------------------------
    def oracle(self, case, obs):
        out = []
        desc = case["desc"]
        iam = True if case["iam"] is None else case["iam"]
        want_init = init_expect(desc, case["samples"], iam)
        if obs["init"] is not None:
            if want_init is None:
                out.append(("init-unexpected-error", "Variant(...) raised %r" % (obs["init"],)))
            elif obs["init"]["exc"] != "LibraryError":
                out.append(("init-error-class", "%r, expected LibraryError %s" % (obs["init"], want_init)))
            return out
        if want_init is not None:
            key = {"TSK_ERR_NODE_OUT_OF_BOUNDS": "init-accepts-out-of-bounds-node",
                   "TSK_ERR_DUPLICATE_SAMPLE": "init-accepts-duplicate-sample",
                   "TSK_ERR_MUST_IMPUTE_NON_SAMPLES": "init-accepts-non-sample-with-missing"}[want_init]
            out.append((key, "Variant(samples=%r, isolated_as_missing=%r) accepted" % (case["samples"], iam)))
            return out
        nodes = ts_samples(desc) if case["samples"] is None else list(case["samples"])
        if obs["ts_samples"] != ts_samples(desc):
            out.append(("ts-samples", "ts.samples() = %r" % obs["ts_samples"]))
        if obs["samples"] != nodes:
            out.append(("variant-samples", "Variant.samples %r != requested %r" % (obs["samples"], nodes)))
        if obs["iam_prop"] != iam:
            out.append(("iam-property", "isolated_as_missing property %r" % obs["iam_prop"]))
        if obs["undecoded"] != "ValueError":
            out.append(("undecoded-genotypes", "genotypes of an undecoded variant: %s" % obs["undecoded"]))
        if not obs["copies_ok"]:
            out.append(("copy-changed", "a Variant.copy() changed after later decodes"))
        if obs.get("copy_decode", "LibraryError") != "LibraryError":
            out.append(("copy-decodes", "decode on a copy: %s" % obs["copy_decode"]))
        ual = case["alleles"]
        want_par = [m[3] for m in desc["mutations"]]
        if obs["mut_parent_stored"] != want_par:
            out.append(("mutation-parent-stored", "%r vs description %r" % (obs["mut_parent_stored"], want_par)))
        if obs["mut_parent_computed"] != want_par:
            out.append(("compute-mutation-parents", "computed %r, nearest mutation above is %r" % (obs["mut_parent_computed"], want_par)))
        for d in obs["decodes"]:
            if "ok" in obs["matrix"] and "genotypes" in d and obs["matrix"]["ok"][d["site"]] != d["genotypes"]:
                out.append(("matrix-vs-decode", "site %d: genotype_matrix row %r, decode %r" % (d["site"], obs["matrix"]["ok"][d["site"]], d["genotypes"])))
        for d in obs["decodes"]:
            s = d["site"]
            if not 0 <= s < len(desc["sites"]):
                if "err" not in d:
                    out.append(("bad-site-accepted", "decode(%d) with %d sites" % (s, len(desc["sites"]))))
                elif d["err"]["exc"] not in ("LibraryError", "ValueError"):
                    out.append(("bad-site-error-class", "decode(%d): %r" % (s, d["err"])))
                continue
            tag = "user-alleles" if ual is not None else "auto-alleles"
            states = site_states(desc, s)
            row = expected_row(desc, s, nodes, iam)
            absent = ual is not None and any(a not in ual for a in states)
            if "err" in d:
                if not absent:
                    out.append(("decode-unexpected-error/" + tag, "site %d: %r" % (s, d["err"])))
                elif d["err"]["exc"] != "LibraryError":
                    out.append(("decode-error-class", "site %d: %r" % (s, d["err"])))
                continue
            if absent:
                out.append(("absent-allele-accepted", "site %d states %r, alleles=%r" % (s, states, ual)))
                continue
            al = d["alleles"]
            g = d["genotypes"]
            if not d.get("alias_ok", True):
                out.append(("aliasing", "site %d: writing into the returned arrays (%r) changed the variant" % (s, d.get("alias"))))
            if d["site_id"] != s:
                out.append(("site-id", "decode(%d) reports site %d" % (s, d["site_id"])))
            if d["vsamples"] != nodes or len(g) != len(nodes):
                out.append(("samples-after-decode", "site %d" % s))
                continue
            # the rule
            got = []
            bad_index = False
            for x in g:
                if x == -1:
                    got.append(None)
                elif 0 <= x < len(al) and al[x] is not None:
                    got.append(al[x])
                else:
                    bad_index = True
                    got.append("<index %d>" % x)
            if bad_index:
                out.append(("genotype-index-out-of-range/" + tag, "site %d genotypes %r alleles %r" % (s, g, al)))
            elif got != row:
                missing_diff = [a is None for a in got] != [a is None for a in row]
                key = ("missing-rule/" if missing_diff else "nearest-mutation/") + tag
                out.append((key, "site %d nodes %r: decoded %r, rule says %r" % (s, nodes, got, row)))
            # alleles
            hm = any(a is None for a in row)
            if d["hmd"] != hm:
                out.append(("has-missing-data", "site %d: has_missing_data=%r but rule row %r" % (s, d["hmd"], row)))
            body = al[:-1] if (al and al[-1] is None) else al
            if (len(al) > 0 and al[-1] is None) != d["hmd"] or any(a is None for a in body):
                out.append(("alleles-none-marker", "site %d alleles %r hmd %r" % (s, al, d["hmd"])))
            if ual is None:
                if not body or body[0] != desc["sites"][s][1]:
                    out.append(("alleles0-not-ancestral", "site %d alleles %r" % (s, al)))
                if len(set(body)) != len(body):
                    out.append(("alleles-duplicates", "site %d alleles %r" % (s, al)))
                if sorted(body) != sorted(states):
                    out.append(("alleles-set", "site %d alleles %r, states of the site %r" % (s, al, states)))
            else:
                if body != list(ual):
                    out.append(("user-alleles-changed", "site %d alleles %r, given %r" % (s, al, ual)))
                # first occurrence
                for x in g:
                    if x >= 0 and x < len(body) and body.index(body[x]) != x:
                        out.append(("user-alleles-not-first-occurrence", "site %d genotypes %r alleles %r" % (s, g, al)))
                        break
            if d["num_alleles"] != len(body):
                out.append(("num-alleles", "site %d" % s))
            if d["num_missing"] != sum(a is None for a in row):
                out.append(("num-missing", "site %d" % s))
            # states / counts / frequencies
            mds = "N" if case["mds"] is None else case["mds"]
            if isinstance(d["states"], dict):
                if not (hm and mds in body and d["states"]["exc"] == "ValueError"):
                    out.append(("states-error", "site %d states(%r) raised %s" % (s, case["mds"], d["states"]["exc"])))
            else:
                if hm and mds in body:
                    out.append(("states-clash-accepted", "site %d states(%r) with alleles %r" % (s, mds, al)))
                elif d["states"] != [mds if a is None else a for a in row]:
                    out.append(("states", "site %d states %r, rule row %r" % (s, d["states"], row)))
            if isinstance(d["counts"], dict):
                out.append(("counts-error", "site %d counts() raised %r" % (s, d["counts"])))
            else:
                cnt = {k: c for k, c in d["counts"]}
                dup = len(set(body)) != len(body)
                want = {a: sum(1 for r in row if r == a) for a in body}
                if hm:
                    want[None] = sum(1 for r in row if r is None)
                if cnt != want:
                    key = "counts/duplicate-user-alleles" if dup else "counts"
                    out.append((key, "site %d counts %r, rule %r (alleles %r)" % (s, cnt, want, al)))
                if not d.get("freq_ok", False) or not d.get("freq_rm_ok", False):
                    out.append(("frequencies", "site %d frequencies != counts/total" % s))
        return out

    # ---- Coq -----------------------------------------------------------------------
    def coq_check(self, case, obs):
        desc = case["desc"]
        iam = True if case["iam"] is None else case["iam"]
        vinit = cvariant_init(desc, case["samples"], case["alleles"], iam)
        if obs["init"] is not None:
            code = obs["init"]["code"]
            return "match %s with Err c => c =? %s | _ => false end" % (vinit, cz(code if code is not None else 0))
        terms = []
        seen = {}
        for d in obs["decodes"]:
            key = (d["site"], common.canon(d.get("err", [d.get("genotypes"), d.get("alleles"), d.get("hmd")])))
            if key in seen:
                continue
            seen[key] = True
            s = d["site"]
            if not 0 <= s < len(desc["sites"]):
                continue
            par = gen_ts.parent_at(desc, desc["sites"][s][0])
            tr = ctree(obs["trees"][str(s)])
            terms.append("check_decode %s %s %s %s %s" % (
                clist(par), tr, "v", csite(desc, s), cresult(d)))
            # mutation.parent column: model of compute_mutation_parents = what the library computes,
            # and every parent precedes its child (hypothesis of parents_imply_order_ok)
            first = next((j for j, m in enumerate(desc["mutations"]) if m[0] == s), 0)
            if isinstance(obs["mut_parent_computed"], list):
                col = [(-1 if x == -1 else x - first) for j, x in enumerate(obs["mut_parent_computed"])
                       if desc["mutations"][j][0] == s]
                terms.append("check_parents %s %s %s %s" % (clist(par), tr, csite(desc, s), clist(col)))
            if "err" not in d:
                r = cresult(d)[4:-1]
                mds = "N" if case["mds"] is None else case["mds"]
                if isinstance(d["states"], list):
                    terms.append("res_eqb alleles_list_eqb (states_model %s %s) (Ok %s)" % (cbytes_of(mds), r, calleles(d["states"])))
                elif d["states"]["exc"] == "ValueError":
                    terms.append("res_eqb alleles_list_eqb (states_model %s %s) (Err PY_VALUE_ERROR)" % (cbytes_of(mds), r))
                else:
                    terms.append("false (* states() raised %s *)" % d["states"]["exc"])
                terms.append("(num_alleles_model %s =? %s) && (num_missing_model %s =? %s)" % (r, cz(d["num_alleles"]), r, cz(d["num_missing"])))
            if "err" not in d and isinstance(d.get("freqs"), list):
                def cfreqs(items):
                    out = []
                    for k, q in items:
                        key = "None" if k is None else "Some %s" % cbytes_of(k)
                        if q is None:
                            val = "None"
                        elif q == "inexact":
                            return None
                        else:
                            val = "(Some (%s # %d)%%Q)" % (cz(q[0]), q[1])
                        out.append("(%s, %s)" % (key, val))
                    return "[" + "; ".join(out) + "]"
                for rm, key in ((False, "freqs"), (True, "freqs_rm")):
                    cf = cfreqs(d[key])
                    r0 = cresult(d)[4:-1]
                    terms.append("false (* frequencies() is not count/total *)" if cf is None else
                                 "freqs_eqb (frequencies_model %s %s) %s" % (cbool(rm), r0, cf))
            if case["samples"] is None:
                # the local sample-list invariant (premise of sample_lists_from_local) on the real arrays
                imap = [NULL] * len(desc["nodes"])
                for k, u in enumerate(ts_samples(desc)):
                    imap[u] = k
                terms.append("sample_lists_local_b (default_fuel %s) %s %s %s" % (tr, tr, cz(len(desc["nodes"])), clist(imap)))
            if "err" not in d and isinstance(d.get("counts"), list):
                # Variant.counts() against its model (reproduces the duplicate-allele finding too)
                obs_counts = "[" + "; ".join("(%s, %s)" % ("None" if k is None else "Some %s" % cbytes_of(k), cz(c))
                                              for k, c in d["counts"]) + "]"
                terms.append("counts_eqb (counts_model %s) %s" % (cresult(d)[4:-1], obs_counts))
        # genotype_matrix = decode of every site in order with one Variant
        nsites = len(desc["sites"])
        if nsites <= 6 and len(desc["nodes"]) <= 20:
            pairs = "[" + "; ".join("(%s, %s)" % (ctree(obs["trees"][str(s)]), csite(desc, s)) for s in range(nsites)) + "]"
            mm = "genotype_matrix_model %s v %s" % (cn(len(desc["nodes"]) + 3), pairs)
            if "ok" in obs["matrix"]:
                terms.append("res_eqb zll_eqb (%s) (Ok [%s])" % (mm, "; ".join(clist(r) for r in obs["matrix"]["ok"])))
            elif obs["matrix"].get("code") is not None:
                terms.append("res_eqb zll_eqb (%s) (Err %s)" % (mm, cz(obs["matrix"]["code"])))
            else:
                terms.append("false (* genotype_matrix raised %s *)" % obs["matrix"]["exc"])
        if "copy_decode_code" in obs:
            terms.append("res_eqb result_eqb (decode_copy (mkCopy [] [] [] false) (mkSite [] [])) (Err %s)"
                         % cz(obs["copy_decode_code"] if obs["copy_decode_code"] is not None else 0))
        body = " && ".join("(%s)" % t for t in terms) if terms else "true"
        return "match %s with Ok v => %s | _ => false end" % (vinit, body)

    def nontrivial(self, case, obs):
        return obs.get("init", 1) is None and any("genotypes" in d and len(set(d["genotypes"])) > 1
                                                    for d in obs["decodes"])

    def describe(self, case, obs):
        desc = case["desc"]
        lab = {
            "samples": "default" if case["samples"] is None else
                       ("malformed" if init_expect(desc, case["samples"], False) else
                        ("non-sample nodes" if any(not desc["nodes"][u][0] & 1 for u in case["samples"]) else "sample subset")),
            "iam": str(case["iam"]),
            "alleles": "auto" if case["alleles"] is None else
                       ("dup" if len(set(case["alleles"])) != len(case["alleles"]) else "user"),
            "init": "ok" if obs.get("init", 1) is None else "error",
            "n_decodes": min(len(case["order"]), 8),
            "max_muts_per_site": min(max([sum(1 for m in desc["mutations"] if m[0] == s)
                                          for s in range(len(desc["sites"]))] or [0]), 7),
        }
        if obs.get("init", 1) is None:
            lab["missing"] = any(d.get("hmd") for d in obs["decodes"])
            lab["decode_error"] = any("err" in d for d in obs["decodes"])
        return lab

    def shrink(self, case):
        desc = case["desc"]
        # fewer decode calls
        for i in range(len(case["order"])):
            c = dict(case)
            c["order"] = case["order"][:i] + case["order"][i + 1:]
            if c["order"]:
                yield c
        # drop a site not decoded / drop a mutation without children
        used = set(case["order"])
        if any(not 0 <= x < len(desc["sites"]) for x in used):
            used = set(range(len(desc["sites"])))
        for s in range(len(desc["sites"])):
            if s not in used:
                remap = {}
                k = 0
                for i in range(len(desc["sites"])):
                    if i != s:
                        remap[i] = k
                        k += 1
                c = dict(case)
                c["desc"] = drop_sites(desc, lambda i, _s, s=s: i != s)
                c["order"] = [remap.get(x, x) for x in case["order"]]
                yield c
        parents = {m[3] for m in desc["mutations"]}
        for j in range(len(desc["mutations"])):
            if j not in parents:
                d = dict(desc)
                ms = [list(m) for k, m in enumerate(desc["mutations"]) if k != j]
                for m in ms:
                    if m[3] > j:
                        m[3] -= 1
                d["mutations"] = ms
                c = dict(case)
                c["desc"] = d
                yield c
        if case["samples"] is not None and len(case["samples"]) > 1:
            for i in range(len(case["samples"])):
                c = dict(case)
                c["samples"] = case["samples"][:i] + case["samples"][i + 1:]
                yield c
        if case["mds"] is not None:
            c = dict(case)
            c["mds"] = None
            yield c


# --------------------------------------------------------------------------------------
# family: views (variants / genotype_matrix / haplotypes / alignments)
# --------------------------------------------------------------------------------------

def call(f):
    try:
        return {"ok": f()}
    except Exception as e:
        return exc_obs(e)


class Views(Family):
    name = "views"
    prelude = ("From TskVerif Require Import Base.Common C03.Model C03.PyViews.\n"
               "Open Scope Z_scope.")
    workers = 8
    shard = 200

    def generate(self, rng, tier):
        n = 1500 if tier == "quick" else 12000
        for i in range(n):
            single = rng.random() < 0.75
            integer = rng.random() < 0.7
            pool = rng.choice([("A", "C", "G", "T"), ("A", "C"), ("0", "1", "2")]) if single else None
            desc = gen_desc(rng, tier, pool=pool, integer=integer)
            if integer and rng.random() < 0.75:
                # alignments refuse isolated samples anywhere: make most such cases connected
                desc = connect(rng, desc)
            L = desc["L"]
            samples = gen_samples(rng, desc, malformed_ok=False)
            iam = rng.choice([True, False, None])
            alleles = gen_alleles(rng, desc) if rng.random() < 0.4 else None
            r = rng.random()
            if r < 0.4:
                left = right = None
            elif r < 0.55 and len(desc["sites"]) >= 1:
                # boundaries exactly at site positions (left inclusive, right exclusive)
                ps = [x[0] for x in desc["sites"]]
                left = rng.choice(ps + [None])
                right = rng.choice(ps + [None, L])
            elif r < 0.75:
                step = 1 if (integer and rng.random() < 0.8) else 0.5
                pts = [x * step for x in range(0, int(L / step) + 1)]
                a, b = sorted(rng.sample(pts, 2))
                left = rng.choice([None, a, a])
                right = rng.choice([None, b, b])
            else:
                pts = [0, L] + [x / 2 for x in range(0, 2 * L + 1)]
                left = rng.choice([None] + pts)
                right = rng.choice([None] + pts)
                if integer and rng.random() < 0.7:
                    left = None if left is None else int(left)
                    right = None if right is None else int(right)
            mdc = rng.choice([None, None, "N", "-", "A", "0"])
            ref = None
            if rng.random() < 0.5:
                span = L
                if integer and left is not None and right is not None and rng.random() < 0.7:
                    span = max(int(right) - int(left), 0)
                elif integer and rng.random() < 0.7:
                    lo = 0 if left is None else int(left)
                    hi = L if right is None else int(right)
                    span = max(hi - lo, 0)
                if rng.random() < 0.12:
                    span += rng.choice([-1, 1])
                ref = "".join(rng.choice("acgtn") for _ in range(max(span, 0)))
            if rng.random() < 0.25:
                desc = dict(desc)
                desc["refseq"] = "".join(rng.choice("acgt") for _ in range(L + rng.choice([0, 0, 0, -1, 2])))
            yield {"desc": desc, "samples": samples, "iam": iam, "alleles": alleles,
                   "left": left, "right": right, "mdc": mdc, "ref": ref,
                   "copy": rng.choice([None, True, False]),
                   "sform": rng.randrange(8) if rng.random() < 0.6 else 0}

    def observe(self, case):
        import numpy as np
        desc = case["desc"]
        ts = build_ts(desc)
        sc = desc.get("scale", 1)
        left = None if case["left"] is None else case["left"] * sc
        right = None if case["right"] is None else case["right"] * sc
        al = None if case["alleles"] is None else tuple(case["alleles"])
        smp = mk_samples(case["samples"], case.get("sform", 0))
        obs = {"discrete": bool(ts.discrete_genome), "L": float(ts.sequence_length)}

        def variants():
            out = []
            for v in ts.variants(samples=smp, isolated_as_missing=case["iam"], alleles=al,
                                 left=left, right=right, copy=case["copy"]):
                out.append([int(v.site.id), [int(g) for g in v.genotypes], list(v.alleles),
                            bool(v.has_missing_data)])
            return out

        def variants_held():
            # copy=True objects must stay valid after the iteration has moved on
            vs = list(ts.variants(samples=smp, isolated_as_missing=case["iam"], alleles=al,
                                  left=left, right=right, copy=True))
            return [[int(v.site.id), [int(g) for g in v.genotypes], list(v.alleles),
                     bool(v.has_missing_data)] for v in vs]

        def variants_auto():
            return [[int(v.site.id), [int(g) for g in v.genotypes], list(v.alleles), bool(v.has_missing_data)]
                    for v in ts.variants(samples=smp, isolated_as_missing=case["iam"],
                                         left=left, right=right)]

        obs["variants"] = call(variants)
        obs["variants_held"] = call(variants_held)
        obs["variants_auto"] = call(variants_auto) if al is not None else obs["variants"]
        obs["matrix"] = call(lambda: [[int(g) for g in r] for r in
                                      ts.genotype_matrix(samples=smp, isolated_as_missing=case["iam"], alleles=al)])
        obs["haplotypes"] = call(lambda: list(ts.haplotypes(
            samples=smp, isolated_as_missing=case["iam"], missing_data_character=case["mdc"],
            left=left, right=right)))
        obs["alignments"] = call(lambda: list(ts.alignments(
            samples=smp, reference_sequence=case["ref"], missing_data_character=case["mdc"],
            left=left, right=right)))
        return obs

    # ---- oracle ---------------------------------------------------------------------
    def interval(self, case):
        """(left, right) in description coordinates or an error marker"""
        L = case["desc"]["L"]
        left = 0 if case["left"] is None else case["left"]
        right = L if case["right"] is None else case["right"]
        if left < 0 or left >= L or right <= 0 or right > L or left >= right:
            return None
        return left, right

    def oracle(self, case, obs):
        out = []
        desc = case["desc"]
        iam = True if case["iam"] is None else case["iam"]
        nodes = ts_samples(desc) if case["samples"] is None else list(case["samples"])
        nonsample = any(not desc["nodes"][u][0] & 1 for u in nodes)
        ual = case["alleles"]
        nsites = len(desc["sites"])
        iv = self.interval(case)
        sites_in = [] if iv is None else [s for s in range(nsites) if iv[0] <= desc["sites"][s][0] < iv[1]]

        def absent(s):
            return ual is not None and any(a not in ual for a in site_states(desc, s))

        def check_rows(name, rows, sites):
            """rows = [site id, genotypes, alleles, hmd]"""
            if [r[0] for r in rows] != sites:
                out.append((name + "-site-selection", "sites %r, interval %r selects %r" % ([r[0] for r in rows], iv, sites)))
                return
            for sid, g, alleles, hmd in rows:
                row = expected_row(desc, sid, nodes, iam)
                got = [None if x == -1 else (alleles[x] if 0 <= x < len(alleles) else "<bad>") for x in g]
                if got != row:
                    out.append((name + "-rule", "site %d decoded %r, rule %r" % (sid, got, row)))
                if hmd != any(a is None for a in row):
                    out.append((name + "-has-missing", "site %d" % sid))
                if ual is None and alleles[0] != desc["sites"][sid][1]:
                    out.append((name + "-alleles0", "site %d" % sid))

        # variants()
        for name in ("variants", "variants_held"):
            o = obs[name]
            if iv is None:
                if "ok" in o or o["exc"] != "ValueError":
                    out.append((name + "-bad-interval-accepted", "left=%r right=%r -> %r" % (case["left"], case["right"], str(o)[:80])))
            elif iam and nonsample:
                if "ok" in o or o["exc"] != "LibraryError":
                    out.append((name + "-non-sample-missing", str(o)[:100]))
            elif "ok" not in o:
                first_absent = next((s for s in sites_in if absent(s)), None)
                if first_absent is None or o["exc"] != "LibraryError":
                    out.append((name + "-unexpected-error", str(o)[:120]))
            else:
                if any(absent(s) for s in sites_in):
                    out.append((name + "-absent-allele-accepted", ""))
                else:
                    check_rows(name, o["ok"], sites_in)
        if "ok" in obs["variants"] and "ok" in obs["variants_held"] and obs["variants"]["ok"] != obs["variants_held"]["ok"]:
            out.append(("variants-copy-differs", "copy=%r iteration differs from held copy=True objects" % case["copy"]))

        # genotype_matrix = per-site decode of all sites
        o = obs["matrix"]
        if iam and nonsample:
            if "ok" in o or o["exc"] != "LibraryError":
                out.append(("matrix-non-sample-missing", str(o)[:100]))
        elif any(absent(s) for s in range(nsites)):
            if "ok" in o or o["exc"] != "LibraryError":
                out.append(("matrix-absent-allele-accepted", str(o)[:100]))
        elif "ok" not in o:
            out.append(("matrix-unexpected-error", str(o)[:120]))
        else:
            m = o["ok"]
            if len(m) != nsites or any(len(r) != len(nodes) for r in m):
                out.append(("matrix-shape", "%d rows" % len(m)))
            else:
                for s in range(nsites):
                    row = expected_row(desc, s, nodes, iam)
                    al = list(ual) if ual is not None else site_states(desc, s)
                    got = [None if x == -1 else (al[x] if 0 <= x < len(al) else "<bad>") for x in m[s]]
                    # auto alleles: the index order is "ancestral first, then as encountered"
                    if got != row:
                        out.append(("matrix-rule", "site %d row %r decodes to %r, rule %r" % (s, m[s], got, row)))
                    if ual is not None and any(x >= 0 and al.index(al[x]) != x for x in m[s] if x < len(al)):
                        out.append(("matrix-not-first-occurrence", "site %d" % s))
                # agreement with variants() on the overlapping sites
                if "ok" in obs["variants"]:
                    for sid, g, _al, _h in obs["variants"]["ok"]:
                        if m[sid] != g:
                            out.append(("matrix-vs-variants", "site %d: %r vs %r" % (sid, m[sid], g)))

        # haplotypes
        mdc = "N" if case["mdc"] is None else case["mdc"]
        o = obs["haplotypes"]

        def hap_error():
            """first error _haplotypes_array must raise, scanning sites and alleles in order"""
            for s in sites_in:
                row = expected_row(desc, s, nodes, iam)
                for a in site_states(desc, s):
                    if len(a) != 1:
                        return "TypeError"
                    if a == mdc:
                        return "ValueError"
            return None

        def hap_expected():
            return ["".join(mdc if expected_row(desc, s, [u], iam)[0] is None else expected_row(desc, s, [u], iam)[0]
                            for s in sites_in) for u in nodes]

        if iv is None:
            if "ok" in o or o["exc"] != "ValueError":
                out.append(("haplotypes-bad-interval-accepted", str(o)[:100]))
        elif iam and nonsample:
            if "ok" in o or o["exc"] != "LibraryError":
                out.append(("haplotypes-non-sample-missing", str(o)[:100]))
        else:
            he = hap_error()
            if he is not None:
                if "ok" in o:
                    out.append(("haplotypes-bad-allele-accepted", "expected %s: %r" % (he, o["ok"])))
                elif o["exc"] != he:
                    out.append(("haplotypes-error-class", "expected %s got %s" % (he, o["exc"])))
            elif "ok" not in o:
                out.append(("haplotypes-unexpected-error", str(o)[:120]))
            elif o["ok"] != hap_expected():
                out.append(("haplotypes-rule", "%r, rule %r (sites %r nodes %r)" % (o["ok"], hap_expected(), sites_in, nodes)))

        # alignments
        o = obs["alignments"]
        sc = desc.get("scale", 1)
        discrete = float(desc["L"] * sc).is_integer() and \
            all(float(e[0] * sc).is_integer() and float(e[1] * sc).is_integer() for e in desc["edges"]) and \
            all(float(s[0] * sc).is_integer() for s in desc["sites"])
        if obs["discrete"] != discrete:
            out.append(("discrete-genome", "ts.discrete_genome=%r" % obs["discrete"]))
        err = None
        exp = None
        if not discrete:
            err = "ValueError"
        elif iv is None:
            err = "ValueError"
        else:
            lo, hi = iv[0] * sc, iv[1] * sc
            if not (float(lo).is_integer() and float(hi).is_integer()):
                err = "ValueError"
            else:
                lo, hi = int(lo), int(hi)
                ref = case["ref"]
                if ref is None:
                    if desc.get("refseq") is not None and desc["refseq"] != "":
                        ref = desc["refseq"][lo:hi]
                    else:
                        ref = mdc * (hi - lo)
                if len(ref) != hi - lo:
                    err = "ValueError"
                elif any_isolated_sample_tree(desc):
                    err = "ValueError"
                elif nonsample:
                    err = "LibraryError"      # alignments always decodes with isolated_as_missing
                else:
                    he = None
                    for s in sites_in:
                        for a in site_states(desc, s):
                            if len(a) != 1:
                                he = he or "TypeError"
                            elif a == mdc:
                                he = he or "ValueError"
                    if he:
                        err = he
                    else:
                        exp = []
                        for u in nodes:
                            a = list(ref)
                            for s in sites_in:
                                st = expected_row(desc, s, [u], True)[0]
                                a[int(desc["sites"][s][0] * sc) - lo] = mdc if st is None else st
                            exp.append("".join(a))
        if err is not None:
            if "ok" in o:
                out.append(("alignments-accepted/" + err, "expected %s, got %r" % (err, o["ok"])))
            elif o["exc"] != err:
                out.append(("alignments-error-class", "expected %s got %s" % (err, o["exc"])))
        elif "ok" not in o:
            out.append(("alignments-unexpected-error", str(o)[:120]))
        elif o["ok"] != exp:
            out.append(("alignments-rule", "%r, rule %r" % (o["ok"], exp)))
        return out

    # ---- Coq: the list-level model of the Python assembly (C03/PyViews.v) --------------------
    def coq_check(self, case, obs):
        desc = case["desc"]
        L2 = 2 * desc["L"]
        pos2 = [int(round(2 * s[0])) for s in desc["sites"]]
        left2 = 0 if case["left"] is None else int(round(2 * case["left"]))
        right2 = L2 if case["right"] is None else int(round(2 * case["right"]))
        terms = []
        o = obs["variants"]
        rng_ok = self.interval(case) is not None
        # _check_genomic_range + site selection
        if "ok" in o:
            terms.append("match check_range %s %s %s with Ok _ => zlist_eqb (sites_in %s %s %s) %s | _ => false end"
                         % (cz(L2), cz(left2), cz(right2), clist(pos2), cz(left2), cz(right2),
                            clist([r[0] for r in o["ok"]])))
        elif o["exc"] == "ValueError":
            terms.append("match check_range %s %s %s with Err _ => true | _ => false end" % (cz(L2), cz(left2), cz(right2)))
        # haplotypes from the per-site decode results (automatic alleles)
        va, h = obs["variants_auto"], obs["haplotypes"]
        mdc = "N" if case["mdc"] is None else case["mdc"]
        nodes = ts_samples(desc) if case["samples"] is None else list(case["samples"])
        if "ok" in va and rng_ok:
            rs = "[" + "; ".join("(%s, %s, %s)" % (clist(g), calleles([a for a in al if a is not None]), cbool(hm))
                                  for _sid, g, al, hm in va["ok"]) + "]"
            model = "haplotypes_model %s %s %s" % (cz(ord(mdc)), cz(len(nodes)), rs)
            if "ok" in h:
                terms.append("res_eqb zll_eqb (%s) (Ok [%s])" % (model, "; ".join(cbytes_of(x) for x in h["ok"])))
            elif h["exc"] in ("ValueError", "TypeError"):
                terms.append("res_eqb zll_eqb (%s) (Err %s)" % (model, "PY_VALUE_ERROR" if h["exc"] == "ValueError" else "PY_TYPE_ERROR"))
            else:
                terms.append("false (* haplotypes raised %s, the model has no such outcome *)" % h["exc"])
        # alignments(): the complete model (discrete genome, interval, reference selection,
        # isolated samples, Variant init, haplotype errors, assembly)
        a = obs["alignments"]
        sc = desc.get("scale", 1)
        discrete = float(desc["L"] * sc).is_integer() and \
            all(float(e[0] * sc).is_integer() and float(e[1] * sc).is_integer() for e in desc["edges"]) and \
            all(float(x[0] * sc).is_integer() for x in desc["sites"])
        if (not discrete) or sc == 1:
            iv = self.interval(case)
            pos = []
            if iv is not None and float(iv[0]).is_integer() and float(iv[1]).is_integer():
                pos = [int(x[0]) for x in desc["sites"] if iv[0] <= x[0] < iv[1]]
            rs = "[]"
            if "ok" in va:
                rs = "[" + "; ".join("(%s, %s, %s)" % (clist(g), calleles([x for x in al if x is not None]), cbool(hm))
                                      for _sid, g, al, hm in va["ok"]) + "]"
            emb = desc.get("refseq")
            ain = "(mkAlignIn %s %s %s %s %s %s %s %s %s %s %s %s)" % (
                cbool(discrete), cz(L2), cz(left2), cz(right2),
                "None" if case["ref"] is None else "(Some %s)" % cbytes_of(case["ref"]),
                "(Some %s)" % cbytes_of(emb) if emb else "None",
                cz(ord(mdc)), cbool(any_isolated_sample_tree(desc)),
                cbool(init_expect(desc, case["samples"], True) is not None),
                cz(len(nodes)), clist(pos), rs)
            if "ok" in a:
                want = "(Ok [%s])" % "; ".join(cbytes_of(x) for x in a["ok"])
            else:
                want = "(Err %s)" % {"ValueError": "PY_VALUE_ERROR", "TypeError": "PY_TYPE_ERROR",
                                     "LibraryError": "PY_LIBRARY_ERROR"}.get(a["exc"], "99")
            terms.append("res_eqb zll_eqb (alignments_full %s) %s" % (ain, want))
        if not terms:
            return None
        return " && ".join("(%s)" % t for t in terms)

    def nontrivial(self, case, obs):
        return "ok" in obs["variants"] and len(obs["variants"]["ok"]) > 0

    def describe(self, case, obs):
        return {"variants": "ok" if "ok" in obs["variants"] else obs["variants"]["exc"],
                "matrix": "ok" if "ok" in obs["matrix"] else obs["matrix"]["exc"],
                "haplotypes": "ok" if "ok" in obs["haplotypes"] else obs["haplotypes"]["exc"],
                "alignments": "ok" if "ok" in obs["alignments"] else obs["alignments"]["exc"],
                "interval": "default" if case["left"] is None and case["right"] is None else "given"}

    def shrink(self, case):
        desc = case["desc"]
        for s in range(len(desc["sites"])):
            c = dict(case)
            c["desc"] = drop_sites(desc, lambda i, _s, s=s: i != s)
            yield c
        for k in ("left", "right", "mdc", "ref", "alleles", "copy"):
            if case[k] is not None:
                c = dict(case)
                c[k] = None
                yield c
        if case["samples"] is not None and len(case["samples"]) > 1:
            for i in range(len(case["samples"])):
                c = dict(case)
                c["samples"] = case["samples"][:i] + case["samples"][i + 1:]
                yield c


def connect(rng, desc):
    """give every parentless sample a parent over the whole sequence where possible (so that
    no tree has an isolated sample) by adding a new root above all nodes"""
    d = dict(desc)
    nodes = [list(n) for n in desc["nodes"]]
    if not nodes:
        return desc
    top = max(n[1] for n in nodes) + 1
    root = len(nodes)
    nodes.append([0, top, NULL, NULL, ""])
    edges = [list(e) for e in desc["edges"]]
    L = desc["L"]
    bps = gen_ts.breakpoints(desc)
    for u in range(root):
        # attach u to the new root wherever it has no parent
        k = 0
        while k < len(bps) - 1:
            a = bps[k]
            if gen_ts.parent_at(desc, a)[u] == NULL:
                j = k
                while j + 1 < len(bps) - 1 and gen_ts.parent_at(desc, bps[j + 1])[u] == NULL:
                    j += 1
                edges.append([a, bps[j + 1], root, u, ""])
                k = j + 1
            else:
                k += 1
    d["nodes"], d["edges"] = nodes, edges
    return d


# --------------------------------------------------------------------------------------
# family: exhaustive small scope (all admissible mutation lists on fixed small forests)
# --------------------------------------------------------------------------------------

def _base(nodes, edges, L, sites):
    return {"L": L, "scale": 1, "nodes": [[f, t, NULL, NULL, ""] for f, t in nodes],
            "edges": [[l, r, p, c, ""] for l, r, p, c in edges],
            "sites": [[x, a, ""] for x, a in sites], "mutations": [],
            "individuals": [], "populations": [], "migrations": []}


BASES = [
    # 0,1 under 3; 3,2 under 4; 5 an isolated sample
    _base([(1, 0), (1, 0), (1, 0), (0, 1), (0, 2), (1, 0)],
          [(0, 1, 3, 0), (0, 1, 3, 1), (0, 1, 4, 3), (0, 1, 4, 2)], 1, [(0, "A")]),
    # internal sample 2 on a unary chain 0 -> 2 -> 3, 1 under 3, 4 an isolated non-sample
    _base([(1, 0), (1, 0), (1, 1), (0, 2), (0, 0)],
          [(0, 1, 2, 0), (0, 1, 3, 2), (0, 1, 3, 1)], 1, [(0.5, "A")]),
    # two trees; the site lies in the second one where sample 0 is isolated and 1,2 hang under 3
    _base([(1, 0), (1, 0), (1, 0), (0, 1), (0, 2)],
          [(0, 1, 3, 0), (0, 2, 3, 1), (0, 1, 4, 3), (0, 1, 4, 2), (1, 2, 3, 2)], 2, [(1, "A")]),
    # unsimplified: a dead branch (non-sample leaf 2 under 3) and a sample-free subtree (5 -> 6)
    _base([(1, 0), (1, 0), (0, 0), (0, 1), (0, 3), (0, 1), (0, 0)],
          [(0, 1, 3, 1), (0, 1, 3, 2), (0, 1, 4, 0), (0, 1, 4, 3), (0, 1, 4, 5), (0, 1, 5, 6)], 1, [(0, "A")]),
]


def admissible_lists(par, n, states, maxlen):
    """all mutation lists (node, state) of length <= maxlen in which no mutation sits on a
    proper ancestor of the node of an earlier one"""
    def proper_anc(a, u):
        v = par[u]
        while v != NULL:
            if v == a:
                return True
            v = par[v]
        return False
    out = [[]]
    frontier = [[]]
    for _ in range(maxlen):
        nxt = []
        for ms in frontier:
            for u in range(n):
                if any(proper_anc(u, m[0]) for m in ms):
                    continue
                for st in states:
                    nxt.append(ms + [[u, st]])
        out += nxt
        frontier = nxt
    return out


def with_mutations(base, ms):
    d = dict(base)
    par = gen_ts.parent_at(base, base["sites"][0][0])
    rows, last_on = [], {}
    for j, (u, st) in enumerate(ms):
        v, mp = u, NULL
        while v != NULL:
            if v in last_on:
                mp = last_on[v]
                break
            v = par[v]
        rows.append([0, u, st, mp, None, ""])
        last_on[u] = j
    d["mutations"] = rows
    return d


class Exhaustive(Decode):
    name = "exhaustive"
    shard = 200

    def generate(self, rng, tier):
        maxlen = 2 if tier == "quick" else 3
        states = ("A", "C")
        bases = [(b, maxlen) for b in BASES]
        for b in BASES:
            # the same forests with node ids in reverse (ancestors first, samples last)
            nn = len(b["nodes"])
            pi = [nn - 1 - u for u in range(nn)]
            rb = dict(b)
            rb["nodes"] = [b["nodes"][nn - 1 - u] for u in range(nn)]
            rb["edges"] = [[l, r, pi[p_], pi[c], m] for l, r, p_, c, m in b["edges"]]
            bases.append((rb, 1 if tier == "quick" else 2))
        for base, maxlen in bases:
            n = len(base["nodes"])
            par = gen_ts.parent_at(base, base["sites"][0][0])
            ss = ts_samples(base)
            configs = [(None, True, None), (None, False, None), (list(range(n)), False, None),
                       (ss[::-1], True, ["C", "A", ""])]
            for ms in admissible_lists(par, n, states, maxlen):
                d = with_mutations(base, ms)
                for samples, iam, al in configs:
                    yield {"desc": d, "samples": samples, "iam": iam, "alleles": al, "order": [0, 0],
                           "mds": None}


FAMILIES = [Decode, Exhaustive, Views]

NOT_COVERED = [
    "tsk_tree_seek inside tsk_variant_decode (property C06) and the construction of the tree arrays (C01): "
    "hypotheses of the theorems, evaluated on the real arrays per case",
    "allocation failures, the INT32_MAX allele limit (tsk_variant_expand_alleles)",
    "non-ascii / non-UTF8 allele bytes; as_fasta / write_fasta / VCF (C16, C18)",
]
