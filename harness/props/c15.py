"""C15 — tree ranks / combinatorics.  Families compare tskit.combinatorics with the
Gallina model (coq/theories/C15) and evaluate independent oracles."""
import itertools
import math

from harness.runner import Family
from harness.common import cz, cn, clist, copt


def exc_class(e):
    return type(e).__name__


class Comb(Family):
    name = "comb"
    prelude = "From TskVerif Require Import C15.Combination.\nOpen Scope Z_scope."

    def generate(self, rng, tier):
        for n in range(-2, 14):
            for k in range(-2, 16):
                yield {"n": n, "k": k}
        for _ in range(300 if tier == "quick" else 3000):
            n = rng.randrange(0, 400)
            yield {"n": n, "k": rng.randrange(0, n + 1)}

    def observe(self, case):
        from tskit.combinatorics import Combination
        return Combination.comb(case["n"], case["k"])

    def oracle(self, case, obs):
        n, k = case["n"], case["k"]
        if 0 <= k <= n and obs != math.comb(n, k):
            return [("comb-value", "comb(%d,%d)=%d, binomial is %d" % (n, k, obs, math.comb(n, k)))]
        return []

    def coq_check(self, case, obs):
        return "comb %s %s =? %s" % (cz(case["n"]), cz(case["k"]), cz(obs))

    def nontrivial(self, case, obs):
        return 0 < case["k"] < case["n"]

    def describe(self, case, obs):
        return {"n_bucket": min(case["n"] // 50, 9) if case["n"] >= 0 else -1}


class CombRank(Family):
    """Combination.from_range_rank / unrank: lexicographic bijection."""
    name = "comb_rank"
    prelude = "From TskVerif Require Import Base.Common C15.Combination.\nOpen Scope Z_scope."

    def generate(self, rng, tier):
        top = 7 if tier == "quick" else 9
        for n in range(0, top + 1):
            for k in range(0, n + 1):
                for r, c in enumerate(itertools.combinations(range(n), k)):
                    yield {"n": n, "c": list(c), "r": r}
                yield {"n": n, "c": None, "k": k, "r": math.comb(n, k)}      # out of range
        for _ in range(200 if tier == "quick" else 2000):
            n = rng.randrange(8, 40)
            k = rng.randrange(0, n + 1)
            yield {"n": n, "c": sorted(rng.sample(range(n), k)), "r": None}

    def observe(self, case):
        from tskit.combinatorics import Combination
        n = case["n"]
        if case["c"] is None:
            try:
                return {"unrank": Combination.unrank(case["r"], list(range(n)), case["k"])}
            except Exception as e:
                return {"unrank": exc_class(e)}
        r = Combination.from_range_rank(list(case["c"]), n)
        return {"rank": r, "unrank": Combination.unrank(r, list(range(n)), len(case["c"]))}

    def oracle(self, case, obs):
        out = []
        if case["c"] is None:
            # k == 0 short-circuits before any range check; this helper is only reached
            # from Tree.unrank with k >= 1 groups (the public out-of-range check is the
            # RankTree family), so only k >= 1 is demanded here.
            if case["k"] > 0 and obs["unrank"] != "ValueError":
                out.append(("unrank-out-of-range-accepted", "unrank(%d, n=%d, k=%d) -> %r" % (case["r"], case["n"], case["k"], obs["unrank"])))
            return out
        if case["r"] is not None and obs["rank"] != case["r"]:
            out.append(("rank-not-lexicographic", "rank %r != %r" % (obs["rank"], case["r"])))
        if obs["unrank"] != case["c"]:
            out.append(("unrank-rank", "unrank(rank(c)) = %r != %r" % (obs["unrank"], case["c"])))
        return out

    def coq_check(self, case, obs):
        n = case["n"]
        els = clist(range(n))
        if case["c"] is None:
            exp = "None" if obs["unrank"] == "ValueError" else "(Some %s)" % clist(obs["unrank"])
            return "opt_eqb zlist_eqb (unrank %s %s %s) %s" % (cz(case["r"]), els, cn(case["k"]), exp)
        return ("opt_eqb Z.eqb (from_range_rank %s %s %s) (Some %s) && opt_eqb zlist_eqb (unrank %s %s %s) (Some %s)"
                % (cn(n + len(case["c"]) + 2), clist(case["c"]), cz(n), cz(obs["rank"]),
                   cz(obs["rank"]), els, cn(len(case["c"])), clist(obs["unrank"])))

    def nontrivial(self, case, obs):
        return case["c"] is not None and 0 < len(case["c"]) < case["n"]

    def describe(self, case, obs):
        return {"n": case["n"] if case["n"] < 10 else "10+"}


FAMILIES = [Comb, CombRank]
