"""C15 — tree ranks are a bijection; topology counts match brute force.

Families compare tskit.combinatorics / Tree.rank / Tree.unrank / all_trees /
count_topologies (the build staged from /repo) with
  (a) the Gallina model coq/theories/C15/{Combination,Partitions,RankTree}.v, evaluated by
      vm_compute on the same cases (coq_check), and
  (b) independent brute-force oracles written from the property text (oracle): all
      leaf-labelled unary-free topologies are enumerated as canonical nested tuples by
      recursive set partition, without using any tskit ranking code.

Canonical tree encoding used everywhere: a leaf is its integer label, an internal node is the
list of its children sorted by smallest leaf label.
"""
import itertools
import math
import random

from harness.runner import Family
from harness.common import cz, cn, clist, copt

PRELUDE = ("From Coq Require Import List ZArith Bool.\nImport ListNotations.\n"
           "From TskVerif Require Import Base.Common C15.Combination C15.Partitions C15.RankTree.\n"
           "Open Scope Z_scope.\n"
           "Definition pt_is (r : res pt) (t : pt) : bool := match r with Ok x => pt_eqb (pt_canon x) t | _ => false end.\n"
           "Definition pts_are (r : res (list pt)) (l : list pt) : bool := match r with Ok x => list_eqb pt_eqb (map pt_canon x) l | _ => false end.\n"
           "Definition rank_is (r : res (Z * Z)) (s l : Z) : bool := match r with Ok (a, b) => (a =? s) && (b =? l) | _ => false end.\n"
           "Definition z_is (r : res Z) (z : Z) : bool := match r with Ok a => a =? z | _ => false end.\n"
           "Definition err_is {A} (r : res A) (c : Z) : bool := match r with Err a => a =? c | _ => false end.\n"
           "Definition zll_is (r : res (list (list Z))) (l : list (list Z)) : bool := match r with Ok a => list_eqb zlist_eqb a l | _ => false end.\n"
           "Definition oob_is {A} (r : res A) : bool := match r with OOB => true | _ => false end.\n")


def exc_class(e):
    return type(e).__name__


# ----------------------------------------------------------------------------------------
# independent brute force (no tskit)
# ----------------------------------------------------------------------------------------

def set_partitions(items):
    """All partitions of the tuple `items` into non-empty blocks (blocks and partition sorted
    by first element)."""
    if not items:
        yield []
        return
    first, rest = items[0], items[1:]
    for r in range(len(rest) + 1):
        for others in itertools.combinations(rest, r):
            block = (first,) + others
            remaining = tuple(x for x in rest if x not in others)
            for p in set_partitions(remaining):
                yield [block] + p


_TOPO_CACHE = {}


def all_topologies(labels):
    """Every leaf-labelled tree without unary nodes on the label tuple, canonical form."""
    labels = tuple(labels)
    if labels in _TOPO_CACHE:
        return _TOPO_CACHE[labels]
    if len(labels) == 1:
        out = [labels[0]]
    else:
        out = []
        for p in set_partitions(labels):
            if len(p) < 2:
                continue
            for kids in itertools.product(*[all_topologies(b) for b in p]):
                out.append(list(kids))        # blocks sorted by first = smallest label
    _TOPO_CACHE[labels] = out
    return out


def freeze(t):
    return t if isinstance(t, int) else tuple(freeze(c) for c in t)


def canon(t):
    """Canonical form (children sorted by smallest leaf) of a nested list; returns (tree, min)."""
    if isinstance(t, int):
        return t, t
    kids = sorted((canon(c) for c in t), key=lambda p: p[1])
    return [k for k, _ in kids], kids[0][1]


def leaves_of(t):
    return [t] if isinstance(t, int) else [x for c in t for x in leaves_of(c)]


def shape_of(t):
    """Unlabelled canonical shape: sorted tuple of child shapes."""
    if isinstance(t, int):
        return ()
    return tuple(sorted(shape_of(c) for c in t))


def aut_order(shape):
    a = 1
    for c in shape:
        a *= aut_order(c)
    for _s, grp in itertools.groupby(shape):
        a *= math.factorial(len(list(grp)))
    return a


def has_unary(t):
    if isinstance(t, int):
        return False
    return len(t) == 1 or any(has_unary(c) for c in t)


def n_labellings_of(t):
    return math.factorial(len(leaves_of(t))) // aut_order(shape_of(t))


def bf_num_shapes_fast(n):
    """A000669 by the Euler transform: S(m) = number of multisets of >= 2 smaller trees with m
    leaves in total; independent of the partition-based recursion in tskit."""
    S = [0, 1]
    for m in range(2, n + 1):
        poly = [1] + [0] * m
        for k in range(1, m):
            # multiply by (1 - x^k)^(-S[k]) using binomial series
            new = [0] * (m + 1)
            for j in range(0, m // k + 1):
                c = math.comb(S[k] + j - 1, j)
                for i in range(0, m + 1 - j * k):
                    new[i + j * k] += poly[i] * c
            poly = new
        S.append(poly[m])
    return S[n] if n >= 0 else 0


def bf_partitions(n, m=1):
    """Ascending compositions of n with parts >= m, lexicographic."""
    out = []
    for x in range(m, n // 2 + 1):
        out += [[x] + p for p in bf_partitions(n - x, x)]
    if n >= m:
        out.append([n])
    return out


# ----------------------------------------------------------------------------------------
# tskit <-> nested
# ----------------------------------------------------------------------------------------

def nested_of_tree(tree, keep_order=False):
    """Nested encoding of a single-rooted tskit.Tree (leaf = node id)."""
    def rec(u):
        ch = list(tree.children(u))
        if not ch:
            return int(u)
        return [rec(c) for c in ch]
    t = rec(tree.root)
    return t if keep_order else canon(t)[0]


def build_tree(nested, ids=None, rng=None, jitter=False):
    """A real tskit.Tree for a nested tree whose leaf labels are node ids.  `ids`: optional map
    for internal nodes (by preorder index) -> node id; default: after the leaves.  Times: a
    parent is older than its children by a random positive amount when jitter is set."""
    import tskit
    leaves = leaves_of(nested)
    internal = []

    def collect(t):
        if isinstance(t, int):
            return
        internal.append(t)
        for c in t:
            collect(c)
    collect(nested)
    m = len(leaves) + len(internal)
    free = [i for i in range(m) if i not in set(leaves)]
    assert len(free) == len(internal), "leaf ids must lie in [0, total nodes)"
    if ids is None:
        ids = list(free)
    int_id = {id(t): ids[i] for i, t in enumerate(internal)}
    time = {}
    edges = []

    def rec(t):
        if isinstance(t, int):
            time[t] = (rng.choice([0, 0, 0.5, 1.25]) if (jitter and rng) else 0)
            return t
        kid_ids = [rec(c) for c in t]
        u = int_id[id(t)]
        inc = (rng.choice([0.25, 1, 1, 3.5, 1e-3, 1e6]) if (jitter and rng) else 1)
        time[u] = max(time[k] for k in kid_ids) + inc
        for k in kid_ids:
            edges.append((u, k))
        return u
    rec(nested)
    tables = tskit.TableCollection(1.0 if not (jitter and rng) else rng.choice([1.0, 0.5, 7.25]))
    L = tables.sequence_length
    lf = set(leaves)
    for i in range(m):
        tables.nodes.add_row(flags=1 if i in lf else 0, time=time[i])
    if rng:
        rng.shuffle(edges)
    for p, c in edges:
        tables.edges.add_row(0, L, p, c)
    tables.sort()
    return tables.tree_sequence().first()


def cpt(t):
    if isinstance(t, int):
        return "PL %s" % cz(t)
    return "PN [" + "; ".join(cpt(c) for c in t) + "]"


def crank(r):
    return "(%s, %s)" % (cz(r[0]), cz(r[1]))


def random_topology(rng, labels, p_poly=0.35):
    """Random unary-free topology on the labels (polytomies with probability p_poly)."""
    labels = list(labels)
    if len(labels) == 1:
        return labels[0]
    rng.shuffle(labels)
    k = 2
    while k < len(labels) and rng.random() < p_poly:
        k += 1
    cuts = sorted(rng.sample(range(1, len(labels)), k - 1))
    blocks = [labels[a:b] for a, b in zip([0] + cuts, cuts + [len(labels)])]
    return canon([random_topology(rng, b, p_poly) for b in blocks])[0]


# ----------------------------------------------------------------------------------------
# Combination
# ----------------------------------------------------------------------------------------

class Comb(Family):
    name = "comb"
    prelude = "From TskVerif Require Import C15.Combination.\nOpen Scope Z_scope."
    workers = 4

    def generate(self, rng, tier):
        for n in range(-2, 14):
            for k in range(-2, 16):
                yield {"n": n, "k": k}
        for _ in range(300 if tier == "quick" else 1500):
            n = rng.randrange(0, 400)
            yield {"n": n, "k": rng.randrange(0, n + 1)}

    def observe(self, case):
        from tskit.combinatorics import Combination
        return Combination.comb(case["n"], case["k"])

    def oracle(self, case, obs):
        n, k = case["n"], case["k"]
        if 0 <= k <= n and obs != math.comb(n, k):
            return [("comb-value", "comb(%d,%d)=%d, binomial is %d" % (n, k, obs, math.comb(n, k)))]
        return []

    def coq_check(self, case, obs):
        return "comb %s %s =? %s" % (cz(case["n"]), cz(case["k"]), cz(obs))

    def nontrivial(self, case, obs):
        return 0 < case["k"] < case["n"]

    def describe(self, case, obs):
        return {"n_bucket": min(case["n"] // 50, 9) if case["n"] >= 0 else -1}


class CombRank(Family):
    """Combination.from_range_rank / rank / unrank: lexicographic bijection."""
    name = "comb_rank"
    prelude = "From TskVerif Require Import Base.Common C15.Combination.\nOpen Scope Z_scope."
    workers = 4

    def generate(self, rng, tier):
        top = 7 if tier == "quick" else 9
        for n in range(0, top + 1):
            for k in range(0, n + 1):
                for r, c in enumerate(itertools.combinations(range(n), k)):
                    yield {"n": n, "c": list(c), "r": r}
                yield {"n": n, "c": None, "k": k, "r": math.comb(n, k)}      # out of range
                yield {"n": n, "c": None, "k": k, "r": math.comb(n, k) + 3}
                yield {"n": n, "c": None, "k": k, "r": -1}                    # negative: accepted by the helper
        for _ in range(200 if tier == "quick" else 1000):
            n = rng.randrange(8, 40)
            k = rng.randrange(0, n + 1)
            yield {"n": n, "c": sorted(rng.sample(range(n), k)), "r": None}
        # Combination.rank over arbitrary (sorted, distinct) element lists
        for _ in range(150 if tier == "quick" else 700):
            n = rng.randrange(1, 12)
            els = sorted(rng.sample(range(-5, 40), n))
            k = rng.randrange(0, n + 1)
            sub = sorted(rng.sample(els, k))
            if rng.random() < 0.1:
                sub = sub + [99]       # absent element -> ValueError
            yield {"els": els, "sub": sub}

    def observe(self, case):
        from tskit.combinatorics import Combination
        if "els" in case:
            try:
                r = Combination.rank(list(case["sub"]), list(case["els"]))
                return {"rank": r, "unrank": Combination.unrank(r, list(case["els"]), len(case["sub"]))}
            except Exception as e:
                return {"rank": exc_class(e)}
        n = case["n"]
        if case["c"] is None:
            try:
                return {"unrank": Combination.unrank(case["r"], list(range(n)), case["k"])}
            except Exception as e:
                return {"unrank": exc_class(e)}
        r = Combination.from_range_rank(list(case["c"]), n)
        return {"rank": r, "unrank": Combination.unrank(r, list(range(n)), len(case["c"]))}

    def oracle(self, case, obs):
        out = []
        if "els" in case:
            els, sub = case["els"], case["sub"]
            if 99 in sub:
                if obs["rank"] != "ValueError":
                    out.append(("rank-absent-element-accepted", repr(obs)))
                return out
            want = list(itertools.combinations(els, len(sub))).index(tuple(sub))
            if obs.get("rank") != want:
                out.append(("rank-not-lexicographic", "rank %r != %r" % (obs.get("rank"), want)))
            elif obs["unrank"] != sub:
                out.append(("unrank-rank", "unrank(rank(c)) = %r != %r" % (obs["unrank"], sub)))
            return out
        if case["c"] is None:
            # k == 0 short-circuits before any range check and a negative rank is taken for
            # rank 0 by this helper; the public range check (negative ranks, k >= 1 groups) is
            # in RankTree.unrank and is exercised by the tree_oor family.
            if case["k"] > 0 and case["r"] >= 0 and obs["unrank"] != "ValueError":
                out.append(("unrank-out-of-range-accepted", "unrank(%d, n=%d, k=%d) -> %r" % (case["r"], case["n"], case["k"], obs["unrank"])))
            return out
        if case["r"] is not None and obs["rank"] != case["r"]:
            out.append(("rank-not-lexicographic", "rank %r != %r" % (obs["rank"], case["r"])))
        if obs["unrank"] != case["c"]:
            out.append(("unrank-rank", "unrank(rank(c)) = %r != %r" % (obs["unrank"], case["c"])))
        return out

    def coq_check(self, case, obs):
        if "els" in case:
            els, sub = clist(case["els"]), clist(case["sub"])
            if not isinstance(obs["rank"], int):
                return "opt_eqb Z.eqb (comb_rank %s %s) None" % (sub, els)
            return ("opt_eqb Z.eqb (comb_rank %s %s) (Some %s) && opt_eqb zlist_eqb (unrank %s %s %s) (Some %s)"
                    % (sub, els, cz(obs["rank"]), cz(obs["rank"]), els, cn(len(case["sub"])), clist(obs["unrank"])))
        n = case["n"]
        els = clist(range(n))
        if case["c"] is None:
            exp = "None" if obs["unrank"] == "ValueError" else "(Some %s)" % clist(obs["unrank"])
            return "opt_eqb zlist_eqb (unrank %s %s %s) %s" % (cz(case["r"]), els, cn(case["k"]), exp)
        return ("opt_eqb Z.eqb (from_range_rank %s %s %s) (Some %s) && opt_eqb zlist_eqb (unrank %s %s %s) (Some %s)"
                % (cn(n + 1), clist(case["c"]), cz(n), cz(obs["rank"]),
                   cz(obs["rank"]), els, cn(len(case["c"])), clist(obs["unrank"])))

    def nontrivial(self, case, obs):
        if "els" in case:
            return 0 < len(case["sub"]) < len(case["els"])
        return case["c"] is not None and 0 < len(case["c"]) < case["n"]

    def describe(self, case, obs):
        if "els" in case:
            return {"kind": "rank-elements"}
        return {"n": case["n"] if case["n"] < 10 else "10+"}


class CombWR(Family):
    """Combination.with_replacement_rank / with_replacement_unrank."""
    name = "comb_wr"
    prelude = "From TskVerif Require Import Base.Common C15.Combination.\nOpen Scope Z_scope."
    workers = 4

    def generate(self, rng, tier):
        top_n, top_k = (6, 4) if tier == "quick" else (8, 5)
        for n in range(0, top_n + 1):
            for k in range(0, top_k + 1):
                total = 0
                for r, c in enumerate(itertools.combinations_with_replacement(range(n), k)):
                    yield {"n": n, "k": k, "c": list(c), "r": r}
                    total += 1
                # beyond the range: the helper does not reject (documented in the model)
                for extra in (0, 1, 5):
                    yield {"n": n, "k": k, "c": None, "r": total + extra}
        for _ in range(200 if tier == "quick" else 1500):
            n = rng.randrange(1, 60)
            k = rng.randrange(1, 9)
            c = sorted(rng.randrange(n) for _ in range(k))
            yield {"n": n, "k": k, "c": c, "r": None}
        for _ in range(60 if tier == "quick" else 300):       # big-integer n (num_shapes is huge)
            n = rng.randrange(1, 10 ** rng.randrange(3, 30))
            k = rng.randrange(1, 5)
            # with_replacement_rank loops c[0] times, with_replacement_unrank as well
            c0 = rng.randrange(min(n, 400))
            c = [c0] + sorted(rng.randrange(c0, min(n, c0 + 400)) for _ in range(k - 1))
            yield {"n": n, "k": k, "c": c, "r": None, "big": True}

    def observe(self, case):
        from tskit.combinatorics import Combination
        n, k = case["n"], case["k"]
        if case["c"] is None:
            if case["r"] > 400:
                return {"unrank": None}
            return {"unrank": Combination.with_replacement_unrank(case["r"], n, k)}
        r = Combination.with_replacement_rank(list(case["c"]), n)
        if case.get("big"):
            # the while loop of with_replacement_unrank takes c[0] turns: skip when astronomically long
            return {"rank": r, "unrank": (Combination.with_replacement_unrank(r, n, k) if case["c"][0] < 2000 else None)}
        return {"rank": r, "unrank": Combination.with_replacement_unrank(r, n, k)}

    def oracle(self, case, obs):
        out = []
        if case["c"] is None:
            return out
        if case["r"] is not None and obs["rank"] != case["r"]:
            out.append(("wr-rank-not-lexicographic", "rank %r != %r" % (obs["rank"], case["r"])))
        if case["r"] is None:
            # independent closed form: number of multisets lexicographically smaller
            n, k, c = case["n"], case["k"], case["c"]
            want, lo = 0, 0
            for pos, x in enumerate(c):
                rem = k - pos - 1
                for v in range(lo, x) if x - lo < 5000 else []:
                    want += math.comb((n - v) + rem - 1, rem)
                if x - lo >= 5000:
                    want = None
                    break
                lo = x
            if want is not None and obs["rank"] != want:
                out.append(("wr-rank-not-lexicographic", "rank %r != %r" % (obs["rank"], want)))
        if obs["unrank"] is not None and obs["unrank"] != case["c"]:
            out.append(("wr-unrank-rank", "unrank(rank(c)) = %r != %r" % (obs["unrank"], case["c"])))
        return out

    def coq_check(self, case, obs):
        n, k = case["n"], case["k"]
        if case["c"] is None:
            if obs["unrank"] is None:
                return None
            return "opt_eqb zlist_eqb (with_replacement_unrank %s %s %s) (Some %s)" % (
                cz(case["r"]), cz(n), cn(k), clist(obs["unrank"]))
        t = "opt_eqb Z.eqb (with_replacement_rank %s %s) (Some %s)" % (clist(case["c"]), cz(n), cz(obs["rank"]))
        if obs["unrank"] is not None and (not case["c"] or case["c"][0] < 300):
            t += " && opt_eqb zlist_eqb (with_replacement_unrank %s %s %s) (Some %s)" % (
                cz(obs["rank"]), cz(n), cn(k), clist(obs["unrank"]))
        return t

    def nontrivial(self, case, obs):
        return case["c"] is not None and case["k"] >= 2

    def describe(self, case, obs):
        return {"k": case["k"], "kind": "oor" if case["c"] is None else ("big" if case.get("big") else "in")}


class Parts(Family):
    """rule_asc / partitions / group_by / group_partition."""
    name = "partitions"
    prelude = PRELUDE
    workers = 4

    def generate(self, rng, tier):
        for n in range(-1, 15):
            yield {"kind": "full", "n": n}
        for n in range(15, 31 if tier == "quick" else 41):
            yield {"kind": "sample", "n": n, "idx": sorted(rng.randrange(0, 200000) for _ in range(6))}
        for _ in range(80 if tier == "quick" else 300):
            m = rng.randrange(0, 10)
            yield {"kind": "group", "vals": [rng.randrange(0, 4) for _ in range(m)]}

    def observe(self, case):
        from tskit import combinatorics as c
        if case["kind"] == "group":
            return {"group_partition": c.group_partition(list(case["vals"])),
                    "group_mod2": c.group_by(list(case["vals"]), lambda a, b: a % 2 == b % 2)}
        n = case["n"]
        try:
            asc = [list(a) for a in c.rule_asc(n)]
        except Exception as e:
            asc = exc_class(e)
        parts = [list(a) for a in c.partitions(n)]
        if case["kind"] == "full":
            return {"rule_asc": asc, "partitions": parts}
        idx = [i % len(asc) for i in case["idx"]]
        return {"len_asc": len(asc), "len_parts": len(parts), "idx": idx,
                "asc_at": [asc[i] for i in idx], "last": asc[-1], "sums_ok": all(sum(a) == n for a in asc),
                "sorted_unique": all(asc[i] < asc[i + 1] for i in range(len(asc) - 1)),
                "ascending": all(a[i] <= a[i + 1] for a in asc for i in range(len(a) - 1)),
                "positive": all(x >= 1 for a in asc for x in a)}

    def oracle(self, case, obs):
        out = []
        if case["kind"] == "group":
            vals = case["vals"]
            want = [list(g) for _k, g in itertools.groupby(vals)]
            if obs["group_partition"] != want:
                out.append(("group-partition", "%r != %r" % (obs["group_partition"], want)))
            return out
        n = case["n"]
        if case["kind"] == "full":
            if n >= 1:
                want = bf_partitions(n)
                if obs["rule_asc"] != want:
                    out.append(("rule-asc-incomplete", "n=%d" % n))
                if obs["partitions"] != want[:-1]:
                    out.append(("partitions-wrong", "n=%d" % n))
            elif obs["partitions"] != []:
                out.append(("partitions-wrong", "n=%d" % n))
            return out
        # n >= 15: every ascending composition exactly once <=> strictly increasing list of
        # ascending positive compositions of n whose length is p(n)
        pn = _num_partitions(n)
        if not (obs["len_asc"] == pn and obs["sums_ok"] and obs["sorted_unique"] and obs["ascending"]
                and obs["positive"] and obs["last"] == [n] and obs["len_parts"] == pn - 1):
            out.append(("rule-asc-incomplete", "n=%d: %r" % (n, {k: v for k, v in obs.items() if k != "asc_at"})))
        return out

    def coq_check(self, case, obs):
        cll = lambda ll: "[" + "; ".join(clist(l) for l in ll) + "]"
        if case["kind"] == "group":
            return ("list_eqb zlist_eqb (group_partition %s) %s && list_eqb zlist_eqb (group_by %s (fun a b => (a mod 2) =? (b mod 2))) %s"
                    % (clist(case["vals"]), cll(obs["group_partition"]), clist(case["vals"]), cll(obs["group_mod2"])))
        n = case["n"]
        if case["kind"] == "full":
            a = "oob_is (rule_asc %s)" % cz(n) if obs["rule_asc"] == "IndexError" else "zll_is (rule_asc %s) %s" % (cz(n), cll(obs["rule_asc"]))
            return a + " && zll_is (partitions %s) %s" % (cz(n), cll(obs["partitions"]))
        checks = " && ".join("opt_eqb zlist_eqb (nth_error l %s) (Some %s)" % (cn(i), clist(a))
                             for i, a in zip(obs["idx"], obs["asc_at"]))
        return ("match rule_asc %s, partitions %s with Ok l, Ok p => (Z.of_nat (length l) =? %s) && (Z.of_nat (length p) =? %s) && %s | _, _ => false end"
                % (cz(n), cz(n), cz(obs["len_asc"]), cz(obs["len_parts"]), checks))

    def nontrivial(self, case, obs):
        return case["kind"] == "group" or case["n"] >= 2

    def describe(self, case, obs):
        return {"kind": case["kind"]}


_PN = {}


def _num_partitions(n):
    """p(n) by Euler's pentagonal recurrence (independent of any enumeration)."""
    if n < 0:
        return 0
    if n == 0:
        return 1
    if n in _PN:
        return _PN[n]
    s, k = 0, 1
    while True:
        g1, g2 = k * (3 * k - 1) // 2, k * (3 * k + 1) // 2
        if g1 > n:
            break
        sign = 1 if k % 2 else -1
        s += sign * _num_partitions(n - g1)
        if g2 <= n:
            s += sign * _num_partitions(n - g2)
        k += 1
    _PN[n] = s
    return s


class NumShapes(Family):
    """num_shapes / num_tree_pairings / num_labellings."""
    name = "num_shapes"
    prelude = PRELUDE
    workers = 4
    timeout = 60.0

    def generate(self, rng, tier):
        for n in range(-2, 17 if tier == "quick" else 19):
            yield {"kind": "ns", "n": n}
        for _ in range(60 if tier == "quick" else 400):
            n = rng.randrange(2, 15)
            yield {"kind": "ntp", "part": rng.choice(bf_partitions(n))}

    def observe(self, case):
        from tskit import combinatorics as c
        if case["kind"] == "ns":
            return c.num_shapes(case["n"])
        return c.num_tree_pairings(list(case["part"]))

    def oracle(self, case, obs):
        if case["kind"] == "ns":
            n = case["n"]
            if n >= 1 and obs != bf_num_shapes_fast(n):
                return [("num-shapes", "num_shapes(%d)=%d, Euler transform gives %d" % (n, obs, bf_num_shapes_fast(n)))]
            return []
        want = 1
        for k, g in itertools.groupby(case["part"]):
            m = len(list(g))
            want *= math.comb(bf_num_shapes_fast(k) + m - 1, m)
        if obs != want:
            return [("num-tree-pairings", "%r: %d != %d" % (case["part"], obs, want))]
        return []

    def coq_check(self, case, obs):
        if case["kind"] == "ns":
            return "z_is (num_shapes %s) %s" % (cz(case["n"]), cz(obs))
        return "z_is (num_tree_pairings %s) %s" % (clist(case["part"]), cz(obs))

    def nontrivial(self, case, obs):
        return case["kind"] == "ntp" or case["n"] >= 3

    def describe(self, case, obs):
        return {"kind": case["kind"]}


# ----------------------------------------------------------------------------------------
# Trees
# ----------------------------------------------------------------------------------------

def _unrank_obs(n, s, l):
    import tskit
    try:
        t = tskit.Tree.unrank(n, (s, l))
    except Exception as e:
        return {"exc": exc_class(e)}
    try:
        r = t.rank()
        rk = [int(r[0]), int(r[1])]
    except Exception as e:
        rk = exc_class(e)
    return {"tree": nested_of_tree(t), "rank": rk, "num_roots": int(t.num_roots)}


class TreeBlock(Family):
    """For every shape rank s < S(n) (S from the independent Euler transform) walk the label
    ranks 0,1,2,... until Tree.unrank raises.  Oracle: the block is exactly one labelling
    class (n!/|Aut| distinct trees of one shape), rank(unrank(s,l)) = (s,l), and the walk
    ends with ValueError."""
    name = "tree_block"
    prelude = PRELUDE
    timeout = 120.0
    workers = 8

    def generate(self, rng, tier):
        top = 6 if tier == "quick" else 7
        for n in range(1, top + 1):
            for s in range(bf_num_shapes_fast(n) + 1):
                yield {"n": n, "s": s}

    def observe(self, case):
        n, s = case["n"], case["s"]
        trees, ranks = [], []
        cap = math.factorial(n) + 2
        stop = None
        for l in range(cap):
            o = _unrank_obs(n, s, l)
            if "exc" in o:
                stop = o["exc"]
                break
            trees.append(o["tree"])
            ranks.append(o["rank"])
        return {"trees": trees, "ranks": ranks, "stop": stop}

    def oracle(self, case, obs):
        out = []
        n, s = case["n"], case["s"]
        S = bf_num_shapes_fast(n)
        if s >= S:
            if obs["trees"]:
                key = "unrank-oor-n1-accepted" if n == 1 else "unrank-oor-shape-accepted"
                out.append((key, "Tree.unrank(%d,(%d,0)) accepted -> %r" % (n, s, obs["trees"][0])))
            elif obs["stop"] != "ValueError":
                out.append(("unrank-oor-wrong-exception", repr(obs["stop"])))
            return out
        if obs["stop"] != "ValueError":
            out.append(("unrank-oor-label-accepted", "n=%d s=%d: walk ended with %r after %d trees" % (n, s, obs["stop"], len(obs["trees"]))))
        if not obs["trees"]:
            out.append(("unrank-dense-range-rejected", "n=%d s=%d l=0 rejected" % (n, s)))
            return out
        fz = [freeze(t) for t in obs["trees"]]
        valid = set(freeze(t) for t in all_topologies(tuple(range(n))))
        if len(set(fz)) != len(fz):
            out.append(("unrank-not-injective", "n=%d s=%d duplicates" % (n, s)))
        if any(t not in valid for t in fz):
            out.append(("unrank-invalid-tree", "n=%d s=%d" % (n, s)))
        shapes = set(shape_of(t) for t in obs["trees"])
        if len(shapes) != 1:
            out.append(("shape-rank-mixes-shapes", "n=%d s=%d: %d shapes" % (n, s, len(shapes))))
        elif len(fz) != n_labellings_of(obs["trees"][0]):
            out.append(("label-range-not-dense", "n=%d s=%d: %d trees, n!/|Aut| = %d" % (n, s, len(fz), n_labellings_of(obs["trees"][0]))))
        for l, r in enumerate(obs["ranks"]):
            if r != [s, l]:
                out.append(("rank-unrank-mismatch", "Tree.unrank(%d,(%d,%d)).rank() = %r" % (n, s, l, r)))
                break
        return out

    def coq_check(self, case, obs):
        n, s = case["n"], case["s"]
        if not obs["trees"]:
            if obs["stop"] == "ValueError":
                return "err_is (tree_unrank %s %s 0) E_RANK" % (cz(n), cz(s))
            return None
        N = len(obs["trees"])
        # model: exactly N label ranks, and the first / last tree of the block
        return ("z_is (num_labellings %s %s) %s && pt_is (tree_unrank %s %s 0) (%s) && pt_is (tree_unrank %s %s %s) (%s) && err_is (tree_unrank %s %s %s) E_RANK"
                % (cz(n), cz(s), cz(N), cz(n), cz(s), cpt(obs["trees"][0]),
                   cz(n), cz(s), cz(N - 1), cpt(obs["trees"][-1]), cz(n), cz(s), cz(N)))

    def nontrivial(self, case, obs):
        return len(obs["trees"]) > 1

    def describe(self, case, obs):
        return {"n": case["n"]}


class TreeRankUnrank(Family):
    """One case per (n, shape rank, label rank): model and implementation agree on the tree
    produced by Tree.unrank and on the rank of that tree.  The ranges come from the
    implementation's own num_shapes/num_labellings (their density is checked independently by
    tree_block / all_trees)."""
    name = "tree_rank_unrank"
    prelude = PRELUDE
    workers = 8
    shard = 350

    def generate(self, rng, tier):
        from tskit import combinatorics as c
        top = 6 if tier == "quick" else 7
        for n in range(1, top + 1):
            for s in range(c.num_shapes(n)):
                N = c.num_labellings(n, s)
                # quick: every label rank for n <= 5, every third one (random phase, plus the
                # first, the last and the first rejected rank) for n = 6; thorough: all
                phase = rng.randrange(3)     # thorough, n = 7: every fourth
                for l in range(N + 1):       # l = N: out of range, must be rejected
                    if tier == "quick" and n == 6 and l % 3 != phase and l not in (0, N - 1, N):
                        continue
                    if tier != "quick" and n == 7 and l % 4 != phase and l not in (0, N - 1, N):
                        continue
                    yield {"n": n, "s": s, "l": l, "N": N}
        if tier == "quick":
            n = 7
            S = c.num_shapes(n)
            for _ in range(150):
                s = rng.randrange(S)
                N = c.num_labellings(n, s)
                yield {"n": n, "s": s, "l": rng.randrange(N + 1), "N": N}

    def observe(self, case):
        return _unrank_obs(case["n"], case["s"], case["l"])

    def oracle(self, case, obs):
        n, s, l = case["n"], case["s"], case["l"]
        out = []
        if l >= case["N"]:
            if "exc" not in obs:
                out.append(("unrank-oor-label-accepted", "Tree.unrank(%d,(%d,%d)) accepted" % (n, s, l)))
            elif obs["exc"] != "ValueError":
                out.append(("unrank-oor-wrong-exception", obs["exc"]))
            return out
        if "exc" in obs:
            return [("unrank-dense-range-rejected", "Tree.unrank(%d,(%d,%d)): %s" % (n, s, l, obs["exc"]))]
        if obs["rank"] != [s, l]:
            out.append(("rank-unrank-mismatch", "Tree.unrank(%d,(%d,%d)).rank() = %r" % (n, s, l, obs["rank"])))
        t = obs["tree"]
        if sorted(leaves_of(t)) != list(range(n)) or has_unary(t) or obs["num_roots"] != 1:
            out.append(("unrank-invalid-tree", repr(t)))
        return out

    def coq_check(self, case, obs):
        n, s, l = cz(case["n"]), cz(case["s"]), cz(case["l"])
        if "exc" in obs:
            return "err_is (tree_unrank %s %s %s) E_RANK" % (n, s, l) if obs["exc"] == "ValueError" else "false"
        t = cpt(obs["tree"])
        chk = "pt_is (tree_unrank %s %s %s) (%s)" % (n, s, l, t)
        if isinstance(obs["rank"], list):
            chk += " && rank_is (tree_rank (%s)) %s %s" % (t, cz(obs["rank"][0]), cz(obs["rank"][1]))
        return chk

    def nontrivial(self, case, obs):
        return case["n"] >= 3 and "exc" not in obs

    def describe(self, case, obs):
        return {"n": case["n"], "oor": "exc" in obs}

    def shrink(self, case):
        if case["l"] > 0:
            yield dict(case, l=case["l"] // 2)
            yield dict(case, l=case["l"] - 1)


class AllTrees(Family):
    """tskit.all_trees(n) / all_tree_shapes(n) against the brute-force set of topologies."""
    name = "all_trees"
    prelude = PRELUDE
    timeout = 600.0
    workers = 7
    coq_timeout = 1500

    tier = "quick"

    def generate(self, rng, tier):
        self.tier = tier
        for n in range(1, (7 if tier == "quick" else 8)):
            yield {"n": n}

    def observe(self, case):
        import tskit
        n = case["n"]
        trees, ranks = [], []
        for t in tskit.all_trees(n):
            trees.append(nested_of_tree(t))
            r = t.rank()
            ranks.append([int(r[0]), int(r[1])])
        shapes, sranks = [], []
        for t in tskit.all_tree_shapes(n):
            shapes.append(nested_of_tree(t))
            r = t.rank()
            sranks.append([int(r[0]), int(r[1])])
        # unrank of the rank gives the same tree back (sampled for the large n)
        step = 1 if n <= 6 else 37
        def _back(i):
            try:
                return nested_of_tree(tskit.Tree.unrank(n, tuple(ranks[i]))) == trees[i]
            except Exception:
                return False
        back = all(_back(i) for i in range(0, len(trees), step))
        if n >= 7:      # keep the pipe small: the oracle needs only digests
            return {"n_trees": len(trees), "distinct": len(set(freeze(t) for t in trees)),
                    "all_valid": set(freeze(t) for t in trees) == set(freeze(t) for t in all_topologies(tuple(range(n)))),
                    "ranks_dense": _dense(ranks), "shapes": shapes, "sranks": sranks, "back": back,
                    "shape_of_rank_ok": _shape_blocks_ok(trees, ranks), "digest": True}
        return {"trees": trees, "ranks": ranks, "shapes": shapes, "sranks": sranks, "back": back}

    def oracle(self, case, obs):
        n = case["n"]
        out = []
        want = all_topologies(tuple(range(n)))
        if obs.get("digest"):
            if obs["n_trees"] != len(want) or obs["distinct"] != obs["n_trees"] or not obs["all_valid"]:
                out.append(("all-trees-not-exactly-once", "n=%d: %d listed, %d distinct, %d topologies exist" % (n, obs["n_trees"], obs["distinct"], len(want))))
            if not obs["ranks_dense"] or not obs["shape_of_rank_ok"]:
                out.append(("all-trees-not-in-rank-order", "n=%d" % n))
        else:
            got = [freeze(t) for t in obs["trees"]]
            if len(set(got)) != len(got) or set(got) != set(freeze(t) for t in want):
                out.append(("all-trees-not-exactly-once", "n=%d: %d listed, %d distinct, %d topologies exist" % (n, len(got), len(set(got)), len(want))))
            if not _dense(obs["ranks"]) or not _shape_blocks_ok(obs["trees"], obs["ranks"]):
                out.append(("all-trees-not-in-rank-order", "n=%d: %r" % (n, obs["ranks"][:12])))
        if not obs["back"]:
            out.append(("rank-unrank-mismatch", "n=%d: unrank(rank(t)) != t for a tree of all_trees" % n))
        # all_tree_shapes: one tree per unlabelled shape, in shape-rank order, default labelling
        nshape = len(set(shape_of(t) for t in want))
        sh = [shape_of(t) for t in obs["shapes"]]
        if len(sh) != nshape or len(set(sh)) != nshape or nshape != bf_num_shapes_fast(n):
            out.append(("all-tree-shapes-not-exactly-once", "n=%d: %d listed, %d distinct, %d shapes exist" % (n, len(sh), len(set(sh)), nshape)))
        if obs["sranks"] != [[i, 0] for i in range(len(sh))]:
            out.append(("all-tree-shapes-not-in-rank-order", "n=%d: %r" % (n, obs["sranks"][:12])))
        return out

    def coq_check(self, case, obs):
        n = case["n"]
        shapes = "pts_are (all_tree_shapes %s) [%s]" % (cz(n), "; ".join(cpt(t) for t in obs["shapes"]))
        if n >= 7:
            return shapes
        if n == 6:
            if self.tier == "quick":
                return shapes
            return ("match all_trees %s with Ok l => Z.of_nat (length l) =? %s | _ => false end && %s"
                    % (cz(n), cz(len(obs["trees"])), shapes))
        return "pts_are (all_trees %s) [%s] && %s" % (cz(n), "; ".join(cpt(t) for t in obs["trees"]), shapes)

    def nontrivial(self, case, obs):
        return case["n"] >= 3

    def describe(self, case, obs):
        return {"n": case["n"]}


def _dense(ranks):
    """(0,0), then label+1 within a shape or (shape+1, 0)."""
    if not ranks or ranks[0] != [0, 0]:
        return False
    for a, b in zip(ranks, ranks[1:]):
        if not (b == [a[0], a[1] + 1] or b == [a[0] + 1, 0]):
            return False
    return True


def _shape_blocks_ok(trees, ranks):
    """Trees sharing a shape rank share one unlabelled shape, different shape ranks differ, and
    every block is a full labelling class."""
    by = {}
    for t, r in zip(trees, ranks):
        by.setdefault(r[0], []).append(t)
    seen = set()
    for s, ts in by.items():
        sh = set(shape_of(t) for t in ts)
        if len(sh) != 1 or (sh & seen):
            return False
        seen |= sh
        if len(ts) != n_labellings_of(ts[0]):
            return False
    return True


class AllLabellings(Family):
    """tskit.all_tree_labellings(tree): every labelling of the shape of `tree` exactly once,
    in label-rank order."""
    name = "all_labellings"
    prelude = PRELUDE
    workers = 6
    timeout = 60.0

    def generate(self, rng, tier):
        for n in range(1, 5):
            seen = set()
            for t in all_topologies(tuple(range(n))):
                if shape_of(t) not in seen:
                    seen.add(shape_of(t))
                    yield {"tree": t}
        for _ in range(25 if tier == "quick" else 150):
            n = rng.randrange(4, 6 if tier == "quick" else 7)
            yield {"tree": random_topology(rng, range(n))}
        # shapes whose children fall into >= 2 shape groups that EACH admit more than one
        # labelling (first possible at 7 leaves): the order of the two nested enumeration loops
        # of label_all_groups is only visible here.  Bounded slice of the enumeration.
        for t in ([[0, [1, 2]], [3, [4, [5, 6]]]], [[0, [1, 2]], [[3, 4], [5, 6]]],
                  [[0, [1, 2]], [3, 4, [5, 6]]], [[0, [1, 2]], [3, [4, 5, 6]]],
                  [[0, 1], [2, 3], [4, [5, 6]]],
                  [[0, [1, 2]], [3, [4, [5, [6, 7]]]]], [[0, 1], [2, 3], [4, [5, [6, 7]]]]):
            yield {"tree": canon(t)[0], "limit": 300 if tier == "quick" else 3000}

    def observe(self, case):
        import tskit
        t = build_tree(case["tree"])
        trees, ranks = [], []
        gen = tskit.all_tree_labellings(t)
        if case.get("limit"):
            gen = itertools.islice(gen, case["limit"])
        for x in gen:
            trees.append(nested_of_tree(x))
            r = x.rank()
            ranks.append([int(r[0]), int(r[1])])
        r0 = t.rank()
        return {"order": nested_of_tree(t, keep_order=True), "trees": trees, "ranks": ranks, "rank0": [int(r0[0]), int(r0[1])]}

    def oracle(self, case, obs):
        out = []
        t = case["tree"]
        fz = [freeze(x) for x in obs["trees"]]
        want_n = n_labellings_of(t) if not case.get("limit") else min(case["limit"], n_labellings_of(t))
        if (len(set(fz)) != len(fz) or len(fz) != want_n
                or any(shape_of(x) != shape_of(t) for x in obs["trees"])
                or any(sorted(leaves_of(x)) != sorted(leaves_of(t)) for x in obs["trees"])):
            out.append(("all-labellings-not-exactly-once", "%r: %d listed, %d distinct, n!/|Aut| = %d" % (t, len(fz), len(set(fz)), n_labellings_of(t))))
        if obs["ranks"] != [[obs["rank0"][0], i] for i in range(len(fz))]:
            out.append(("all-labellings-not-in-rank-order", "%r: %r" % (t, obs["ranks"][:10])))
        return out

    def coq_check(self, case, obs):
        if case.get("limit") and len(leaves_of(case["tree"])) > 7 and case["limit"] <= 300:
            return None          # quick: the 8-leaf shapes are checked by the oracle only
        if case.get("limit"):
            # the model enumerates in the same order: compare the first 48 trees
            k = min(48, len(obs["trees"]))
            return ("match all_tree_labellings (%s) with Ok l => list_eqb pt_eqb (map pt_canon (firstn %s l)) [%s] | _ => false end"
                    % (cpt(obs["order"]), cn(k), "; ".join(cpt(x) for x in obs["trees"][:k])))
        if len(obs["trees"]) > 130:
            return ("match all_tree_labellings (%s) with Ok l => (Z.of_nat (length l) =? %s) && opt_eqb pt_eqb (option_map pt_canon (nth_error l 77)) (Some (%s)) | _ => false end"
                    % (cpt(obs["order"]), cz(len(obs["trees"])), cpt(obs["trees"][77])))
        return "pts_are (all_tree_labellings (%s)) [%s]" % (cpt(obs["order"]), "; ".join(cpt(x) for x in obs["trees"]))

    def nontrivial(self, case, obs):
        return len(obs["trees"]) > 1

    def describe(self, case, obs):
        return {"n": len(leaves_of(case["tree"]))}


class TreeBig(Family):
    """Big-integer ranks for n up to 16: random shape rank below S(n) (Euler transform) and a
    label rank that is a random fraction of the implementation's num_labellings (checked
    against n!/|Aut| of the tree that comes out)."""
    name = "tree_big"
    prelude = PRELUDE
    workers = 8
    timeout = 120.0
    shard = 12
    coq_timeout = 1200

    def generate(self, rng, tier):
        for _ in range(72 if tier == "quick" else 400):
            n = rng.randrange(8, 17)
            S = bf_num_shapes_fast(n)
            s = rng.choice([0, S - 1, rng.randrange(S), rng.randrange(S), rng.randrange(S)])
            yield {"n": n, "s": s, "num": rng.randrange(1 << 64), "edge": rng.choice([None, None, None, "last", "first", "oor"])}

    def observe(self, case):
        from tskit import combinatorics as c
        n, s = case["n"], case["s"]
        N = c.num_labellings(n, s)
        l = (case["num"] * N) >> 64
        if case["edge"] == "last":
            l = N - 1
        elif case["edge"] == "first":
            l = 0
        elif case["edge"] == "oor":
            l = N
        o = _unrank_obs(n, s, l)
        o["N"] = N
        o["l"] = l
        return o

    def oracle(self, case, obs):
        n, s, l = case["n"], case["s"], obs["l"]
        out = []
        if case["edge"] == "oor":
            if "exc" not in obs:
                out.append(("unrank-oor-label-accepted", "Tree.unrank(%d,(%d,%d)) accepted" % (n, s, l)))
            elif obs["exc"] != "ValueError":
                out.append(("unrank-oor-wrong-exception", obs["exc"]))
            return out
        if "exc" in obs:
            return [("unrank-dense-range-rejected", "Tree.unrank(%d,(%d,%d)): %s" % (n, s, l, obs["exc"]))]
        if obs["rank"] != [s, l]:
            out.append(("rank-unrank-mismatch", "Tree.unrank(%d,(%d,%d)).rank() = %r" % (n, s, l, obs["rank"])))
        t = obs["tree"]
        if sorted(leaves_of(t)) != list(range(n)) or has_unary(t) or obs["num_roots"] != 1:
            out.append(("unrank-invalid-tree", repr(t)))
        elif obs["N"] != n_labellings_of(t):
            out.append(("label-range-not-dense", "num_labellings(%d,%d) = %d but n!/|Aut| = %d" % (n, s, obs["N"], n_labellings_of(t))))
        return out

    def coq_check(self, case, obs):
        n, s, l = cz(case["n"]), cz(case["s"]), cz(obs["l"])
        if "exc" in obs:
            return "err_is (tree_unrank %s %s %s) E_RANK" % (n, s, l) if obs["exc"] == "ValueError" else "false"
        t = cpt(obs["tree"])
        chk = "pt_is (tree_unrank %s %s %s) (%s) && z_is (num_labellings %s %s) %s" % (n, s, l, t, n, s, cz(obs["N"]))
        if isinstance(obs["rank"], list):
            chk += " && rank_is (tree_rank (%s)) %s %s" % (t, cz(obs["rank"][0]), cz(obs["rank"][1]))
        return chk

    def describe(self, case, obs):
        return {"n": case["n"], "edge": str(case["edge"])}


def _comb_tree(labels):
    t = labels[-1]
    for x in reversed(labels[:-1]):
        t = [x, t]
    return t


def _balanced_tree(labels):
    if len(labels) == 1:
        return labels[0]
    h = len(labels) // 2
    return [_balanced_tree(labels[:h]), _balanced_tree(labels[h:])]


class TreeWide(Family):
    """20..26 leaves, a root with >= 3 child groups of different shapes, label ranks far beyond
    2**63.  The Coq model computes in Z and cannot wrap; these cases guard the width of the
    integers Python/numpy use in the implementation: rank(unrank(s,l)) == (s,l) for huge l,
    l = num_labellings is rejected, and the model agrees on a sample."""
    name = "tree_wide"
    prelude = PRELUDE
    workers = 6
    timeout = 300.0
    shard = 2
    coq_timeout = 1500

    def generate(self, rng, tier):
        fixed = [(24, "leaf+comb+comb", 11), (26, "leaf+comb+comb", 12)]
        for i in range(8 if tier == "quick" else 40):
            n = rng.randrange(20, 27)
            kind = rng.choice(["leaf+comb+comb", "comb+comb+comb", "cherry+comb+bal", "leaf+comb+bal+comb"])
            if i < len(fixed):          # always present: the later groups' product exceeds 2**63
                n, kind, _a = fixed[i]
            labels = list(range(n))
            rng.shuffle(labels)
            if kind == "leaf+comb+comb":
                a = rng.randrange(8, (n - 1) // 2 + 1) if i >= len(fixed) else fixed[i][2]
                sizes, makers = [1, a, n - 1 - a], [_comb_tree, _comb_tree, _comb_tree]
            elif kind == "comb+comb+comb":
                a = rng.randrange(4, 7)
                b = rng.randrange(a + 1, a + 4)
                sizes, makers = [a, b, n - a - b], [_comb_tree, _comb_tree, _comb_tree]
            elif kind == "cherry+comb+bal":
                a = rng.randrange(7, 11)
                sizes, makers = [2, a, n - 2 - a], [_comb_tree, _comb_tree, _balanced_tree]
            else:
                a = rng.randrange(5, 8)
                b = rng.randrange(5, 8)
                sizes, makers = [1, a, b, n - 1 - a - b], [_comb_tree, _comb_tree, _balanced_tree, _comb_tree]
            kids, pos = [], 0
            for k, mk in zip(sizes, makers):
                kids.append(mk(labels[pos:pos + k]))
                pos += k
            yield {"tree": canon(kids)[0], "kind": kind,
                   "fracs": [rng.randrange(1 << 64) for _ in range(3)],
                   "mults": [rng.randrange(1, 1 << 12) for _ in range(3)],
                   "offs": [rng.choice([-1, 0, 1, 12345])for _ in range(3)]}

    def observe(self, case):
        t = case["tree"]
        n = len(leaves_of(t))
        r0 = build_tree(t).rank()
        s, l0 = int(r0[0]), int(r0[1])
        N = n_labellings_of(t)
        ls = [l0, 0, N - 1]
        ls += [(f * N) >> 64 for f in case["fracs"]]
        ls += [(m << 63) + o for m, o in zip(case["mults"], case["offs"]) if 0 <= (m << 63) + o < N]
        ls += [10 ** 19 % N, (1 << 63) % N, ((1 << 64) + 1) % N]
        out = []
        for l in ls:
            o = _unrank_obs(n, s, l)
            o["l"] = l
            out.append(o)
        oor = _unrank_obs(n, s, N)
        return {"s": s, "l0": l0, "N": N, "res": out, "oor": oor.get("exc", "accepted")}

    def oracle(self, case, obs):
        t = case["tree"]
        n = len(leaves_of(t))
        s = obs["s"]
        out = []
        for o in obs["res"]:
            l = o["l"]
            if "exc" in o:
                out.append(("unrank-dense-range-rejected", "Tree.unrank(%d,(%d,%d)): %s (num_labellings = n!/|Aut| = %d)" % (n, s, l, o["exc"], obs["N"])))
            elif o["rank"] != [s, l]:
                out.append(("rank-unrank-mismatch", "Tree.unrank(%d,(%d,%d)).rank() = %r" % (n, s, l, o["rank"])))
            elif shape_of(o["tree"]) != shape_of(t) or sorted(leaves_of(o["tree"])) != list(range(n)):
                out.append(("unrank-invalid-tree", "Tree.unrank(%d,(%d,%d)) has another shape" % (n, s, l)))
            if out:
                break
        if obs["res"] and "tree" in obs["res"][0] and obs["res"][0]["tree"] != t:
            out.append(("unrank-rank-mismatch", "unrank(rank(t)) != t for %r" % (t,)))
        if obs["oor"] != "ValueError":
            out.append(("unrank-oor-label-accepted", "Tree.unrank(%d,(%d,N=%d)): %s" % (n, s, obs["N"], obs["oor"])))
        return out

    def coq_check(self, case, obs):
        n = cz(len(leaves_of(case["tree"])))
        s = cz(obs["s"])
        big = [o for o in obs["res"] if "tree" in o and o["l"] >= (1 << 63)]
        pick = (big or [o for o in obs["res"] if "tree" in o])[:1]
        terms = ["pt_is (tree_unrank %s %s %s) (%s) && rank_is (tree_rank (%s)) %s %s"
                 % (n, s, cz(o["l"]), cpt(o["tree"]), cpt(o["tree"]), cz(o["rank"][0]), cz(o["rank"][1]))
                 for o in pick if isinstance(o.get("rank"), list)]
        return " && ".join(terms) if terms else None

    def describe(self, case, obs):
        return {"kind": case["kind"], "n": len(leaves_of(case["tree"])), "N_over_2^63": obs["N"] >= (1 << 63)}


class TreeOOR(Family):
    """Out-of-range ranks must be rejected (ValueError)."""
    name = "tree_oor"
    prelude = PRELUDE
    workers = 6
    timeout = 60.0

    def generate(self, rng, tier):
        from tskit import combinatorics as c
        for n in range(1, 9):
            S = bf_num_shapes_fast(n)
            for s in (S, S + 1, 2 * S + 7, 10 ** 30):
                for l in (0, 1):
                    yield {"n": n, "s": s, "l": l, "why": "shape"}
            for s in sorted(set([0, S - 1] + [rng.randrange(S) for _ in range(3)])):
                N = c.num_labellings(n, s)
                for l in (N, N + 1, 3 * N + 5, 10 ** 40):
                    yield {"n": n, "s": s, "l": l, "why": "label"}
                yield {"n": n, "s": s, "l": -1, "why": "negative"}
                yield {"n": n, "s": -1, "l": 0, "why": "negative"}
                yield {"n": n, "s": -3, "l": -2, "why": "negative"}
        for n in (0, -1, -5):
            for s, l in ((0, 0), (1, 0), (0, 1)):
                yield {"n": n, "s": s, "l": l, "why": "n<1"}

    def observe(self, case):
        return _unrank_obs(case["n"], case["s"], case["l"])

    def oracle(self, case, obs):
        n, s, l = case["n"], case["s"], case["l"]
        if "exc" not in obs:
            if n == 1 and case["why"] == "shape":
                key = "unrank-oor-n1-accepted"
            else:
                key = "unrank-oor-%s-accepted" % case["why"]
            return [(key, "Tree.unrank(%d,(%d,%d)) accepted and returned %r with rank %r" % (n, s, l, obs["tree"], obs["rank"]))]
        if obs["exc"] != "ValueError":
            return [("unrank-oor-wrong-exception", "Tree.unrank(%d,(%d,%d)): %s" % (n, s, l, obs["exc"]))]
        return []

    def coq_check(self, case, obs):
        n, s, l = cz(case["n"]), cz(case["s"]), cz(case["l"])
        if "exc" in obs:
            return "err_is (tree_unrank %s %s %s) E_RANK" % (n, s, l) if obs["exc"] == "ValueError" else "false"
        return "pt_is (tree_unrank %s %s %s) (%s)" % (n, s, l, cpt(obs["tree"]))

    def describe(self, case, obs):
        return {"why": case["why"], "n": case["n"] if case["n"] <= 1 else "2+"}


class RankInvariance(Family):
    """rank() of real tskit Trees built from tables: invariant under renumbering of internal
    nodes, order of the edge rows / children, branch lengths and sequence length; equal to the
    rank of the listed topology; polytomies included; order-preserving renumbering of the
    leaves (leaf ids interleaved with internal ids) keeps the rank."""
    name = "rank_invariance"
    prelude = PRELUDE
    workers = 8
    timeout = 60.0

    def generate(self, rng, tier):
        for _ in range(260 if tier == "quick" else 2500):
            n = rng.choice([2, 3, 3, 4, 4, 5, 5, 6, 6, 7, 8, 9, 10, 12])
            yield {"tree": random_topology(rng, range(n), p_poly=rng.choice([0, 0.3, 0.6])), "seed": rng.randrange(1 << 30)}
        # structured: a node whose children fall into >= 3 leaf-count groups that each admit more
        # than one shape (sizes >= 3), so that every weight of the mixed-radix shape rank matters
        for _ in range(40 if tier == "quick" else 300):
            yield {"tree": grouped_topology(rng), "seed": rng.randrange(1 << 30), "grouped": True}
        # malformed stream: unary nodes and several roots are refused
        for _ in range(30):
            n = rng.randrange(2, 6)
            yield {"tree": random_topology(rng, range(n)), "seed": rng.randrange(1 << 30), "bad": rng.choice(["unary", "multiroot"])}

    def observe(self, case):
        import tskit
        rng = random.Random(case["seed"])
        t = case["tree"]
        if case.get("bad"):
            tables = build_tree(t).tree_sequence.dump_tables()
            if case["bad"] == "unary":
                root = tables.nodes.num_rows - 1
                top = tables.nodes.add_row(time=max(tables.nodes.time) + 1)
                tables.edges.add_row(0, tables.sequence_length, top, build_tree(t).root)
            else:
                tables.nodes.add_row(flags=1, time=0)
            tables.sort()
            tr = tables.tree_sequence().first()
            try:
                r = tr.rank()
                return {"bad_rank": [int(r[0]), int(r[1])]}
            except Exception as e:
                return {"bad_exc": exc_class(e)}
        n = len(leaves_of(t))
        base = build_tree(t)
        r0 = base.rank()
        out = {"rank": [int(r0[0]), int(r0[1])], "order": nested_of_tree(base, keep_order=True)}
        n_int = base.tree_sequence.num_nodes - n
        variants = []
        for _ in range(3):
            ids = list(range(n, n + n_int))
            rng.shuffle(ids)
            v = build_tree(t, ids=ids, rng=rng, jitter=True)
            r = v.rank()
            variants.append({"rank": [int(r[0]), int(r[1])], "order": nested_of_tree(v, keep_order=True)})
        out["variants"] = variants
        # order-preserving leaf renumbering: leaf ids = a random n-subset of [0, total)
        total = n + n_int
        leaf_ids = sorted(rng.sample(range(total), n))
        relabel = lambda x: leaf_ids[x] if isinstance(x, int) else [relabel(c) for c in x]
        ids = [i for i in range(total) if i not in set(leaf_ids)]
        rng.shuffle(ids)
        w = build_tree(relabel(t), ids=ids, rng=rng, jitter=True)
        r = w.rank()
        out["mono"] = {"rank": [int(r[0]), int(r[1])], "order": nested_of_tree(w, keep_order=True)}
        try:
            out["back"] = nested_of_tree(tskit.Tree.unrank(n, tuple(out["rank"])))
        except Exception as e:        # the rank of a valid tree must be accepted by unrank
            out["back"] = exc_class(e)
        # leaves != samples: rank() is defined by the leaf-labelled topology, so sample flags on
        # internal nodes / the root, and leaves that are not samples, must not change it
        flagged = []
        for mode in ("internal", "root", "nonsample_leaf", "mixed"):
            tb = base.tree_sequence.dump_tables()
            fl = tb.nodes.flags.copy()
            internal = [u for u in range(tb.nodes.num_rows) if u >= n]
            if mode in ("internal", "mixed"):
                for u in internal:
                    if rng.random() < 0.5:
                        fl[u] |= 1
                if internal and not any(fl[u] & 1 for u in internal):
                    fl[rng.choice(internal)] |= 1
            if mode == "root":
                fl[base.root] |= 1
            if mode in ("nonsample_leaf", "mixed") and n >= 2:
                off = rng.sample(range(n), rng.randrange(1, n))       # at least one sample leaf stays
                for u in off:
                    fl[u] = int(fl[u]) & 0xFFFFFFFE
            tb.nodes.flags = fl
            try:
                tr = tb.tree_sequence().first()
                r = tr.rank()
                flagged.append({"mode": mode, "rank": [int(r[0]), int(r[1])], "num_roots": int(tr.num_roots),
                                "same_topology": nested_of_tree(tr) == nested_of_tree(base) if tr.num_roots == 1 else None})
            except Exception as e:
                flagged.append({"mode": mode, "exc": exc_class(e) + ": " + str(e)[:60]})
        out["flagged"] = flagged
        return out

    def oracle(self, case, obs):
        if case.get("bad"):
            if "bad_rank" in obs:
                return [("rank-accepts-%s" % case["bad"], repr(obs["bad_rank"]))]
            return [] if obs["bad_exc"] == "ValueError" else [("rank-bad-wrong-exception", obs["bad_exc"])]
        out = []
        for v in obs["variants"]:
            if v["rank"] != obs["rank"]:
                out.append(("rank-not-invariant", "%r: %r vs %r" % (case["tree"], v["rank"], obs["rank"])))
                break
        if obs["mono"]["rank"] != obs["rank"]:
            out.append(("rank-not-invariant-leaf-renumbering", "%r: %r vs %r" % (case["tree"], obs["mono"]["rank"], obs["rank"])))
        if obs["back"] != case["tree"]:
            out.append(("unrank-rank-mismatch", "unrank(rank(%r)) = %r" % (case["tree"], obs["back"])))
        for f in obs.get("flagged", []):
            if "exc" in f:
                out.append(("rank-depends-on-sample-flags", "%s: %r raises %s" % (f["mode"], case["tree"], f["exc"])))
            elif f["num_roots"] == 1 and f["same_topology"] and f["rank"] != obs["rank"]:
                out.append(("rank-depends-on-sample-flags", "%s: %r ranks %r, leaf topology ranks %r"
                            % (f["mode"], case["tree"], f["rank"], obs["rank"])))
            if out:
                break
        return out

    def coq_check(self, case, obs):
        if case.get("bad"):
            return None
        terms = ["rank_is (tree_rank (%s)) %s %s" % (cpt(o["order"]), cz(o["rank"][0]), cz(o["rank"][1]))
                 for o in [obs] + obs["variants"][:1] + [obs["mono"]]]
        return " && ".join(terms)

    def nontrivial(self, case, obs):
        return not case.get("bad") and len(leaves_of(case["tree"])) >= 3

    def describe(self, case, obs):
        t = case["tree"]
        return {"n": len(leaves_of(t)), "polytomy": _has_poly(t), "bad": str(case.get("bad")),
                "grouped": bool(case.get("grouped"))}

    def shrink(self, case):
        t = case["tree"]
        if isinstance(t, list) and not case.get("bad"):
            for i in range(len(t)):
                if len(t) > 2:
                    keep = [c for j, c in enumerate(t) if j != i]
                    ls = sorted(leaves_of(keep))
                    m = {x: k for k, x in enumerate(ls)}
                    rel = lambda x: m[x] if isinstance(x, int) else [rel(c) for c in x]
                    yield dict(case, tree=canon(rel(keep))[0])


def grouped_topology(rng):
    """12..16 leaves; some node has children of >= 3 different sizes >= 3 (e.g. 3,4,5), with
    random (mostly non-star) subtrees; optionally repeated sizes, extra single leaves, and the
    whole thing hung below another node."""
    sizes = list(rng.choice([[3, 4, 5], [3, 4, 5], [3, 4, 6], [3, 5, 6], [3, 4, 7], [4, 5, 6],
                             [3, 4, 5, 3], [3, 4, 5, 4], [3, 3, 4, 5], [3, 4, 5, 1], [3, 4, 5, 1, 1],
                             [3, 4, 5, 2], [3, 4, 4, 5]]))
    extra = rng.choice([0, 0, 1, 2]) if sum(sizes) + 2 <= 16 else 0
    n = sum(sizes) + extra
    labels = list(range(n))
    rng.shuffle(labels)
    kids, pos = [], 0
    for k in sizes:
        kids.append(random_topology(rng, labels[pos:pos + k], p_poly=rng.choice([0, 0.2, 0.5])))
        pos += k
    t = kids
    if extra:       # hang the grouped node below a new root next to `extra` more leaves / a cherry
        rest = labels[pos:]
        t = [t] + ([rest] if (extra == 2 and rng.random() < 0.5) else rest)
    return canon(t)[0]


def _has_poly(t):
    return (not isinstance(t, int)) and (len(t) > 2 or any(_has_poly(c) for c in t))


# ----------------------------------------------------------------------------------------
# count_topologies
# ----------------------------------------------------------------------------------------

_RANK_OF = {}


def _rank_table(k):
    """canonical topology on labels 0..k-1 -> rank, from tskit.all_trees(k) (whose bijectivity
    and order are what the all_trees / tree_block families check against brute force)."""
    import tskit
    if k not in _RANK_OF:
        d = {}
        for t in tskit.all_trees(k):
            r = t.rank()
            d[freeze(nested_of_tree(t))] = (int(r[0]), int(r[1]))
        _RANK_OF[k] = d
    return _RANK_OF[k]


_RANK_BUILT = {}


def _rank_by_build(t):
    """Rank of a canonical topology on labels 0..k-1 (k > 5) through Tree.rank() of a tree built
    from tables (Tree.rank itself is what the tree_* / rank_invariance families check)."""
    f = freeze(t)
    if f not in _RANK_BUILT:
        r = build_tree(t).rank()
        _RANK_BUILT[f] = (int(r[0]), int(r[1]))
    return _RANK_BUILT[f]


def topology_desc(t, extra_leaves=0, rng=None):
    """gen_ts-style description of ONE tree with the given topology (leaf labels = node ids);
    `extra_leaves` more sample leaves are hung below random internal nodes."""
    leaves = sorted(leaves_of(t))
    n = len(leaves) + extra_leaves
    nxt = [n]
    edges, time = [], {}
    internal = []

    def rec(x):
        if isinstance(x, int):
            time[x] = 0
            return x
        kids = [rec(c) for c in x]
        u = nxt[0]
        nxt[0] += 1
        time[u] = max(time[k] for k in kids) + 1
        internal.append(u)
        for k in kids:
            edges.append([0, 1, u, k, ""])
        return u
    rec(t)
    for e in range(extra_leaves):
        u = rng.choice(internal)
        edges.append([0, 1, u, len(leaves) + e, ""])
    m = nxt[0]
    nodes = [[1 if u < n else 0, time.get(u, 0), -1, -1, ""] for u in range(m)]
    return {"L": 1, "scale": 1, "nodes": nodes, "edges": edges, "sites": [], "mutations": [],
            "individuals": [], "populations": [], "migrations": []}


TWIN_CLADES = [
    [[0, [1, 2]], [3, [4, 5]]],
    [[0, [1, 2]], [3, [4, 5]], 6],
    [[[0, [1, 2]], [3, [4, 5]]], 6],
    [[0, [1, 2]], [3, [4, 5]], [6, 7]],
    [[[0, [1, 2]], [3, [4, 5]]], [6, 7]],
    [[0, [1, [2, 3]]], [4, [5, [6, 7]]]],
    [[0, 1, [2, 3]], [4, 5, [6, 7]]],
    [[0, [1, 2]], [3, [4, 5]], [6, [7, 8]]][:2] + [6, 7],
]


def brute_count(parent, sample_sets):
    """expected[key][rank] = number of ways to pick one sample from every set of the key such
    that the picks hang under one root; the topology is the tree reduced to the picks (unary
    nodes removed), leaves labelled by the position of their set in the key."""
    n = len(parent)
    kids = {}
    for c, p in enumerate(parent):
        if p != -1:
            kids.setdefault(p, []).append(c)
    exp = {}
    idxs = range(len(sample_sets))
    for size in range(1, len(sample_sets) + 1):
        for key in itertools.combinations(idxs, size):
            table = _rank_table(size) if size <= 5 else None
            for pick in itertools.product(*[sample_sets[i] for i in key]):
                label = {u: pos for pos, u in enumerate(pick)}
                below = {}
                roots = set()
                for u in pick:
                    v = u
                    while True:
                        below.setdefault(v, set()).add(u)
                        if parent[v] == -1:
                            roots.add(v)
                            break
                        v = parent[v]
                if len(roots) != 1:
                    continue

                def red(v):
                    if v in label:
                        return label[v]
                    ch = [c for c in kids.get(v, []) if c in below]
                    if len(ch) == 1:
                        return red(ch[0])
                    return [red(c) for c in ch]
                t = canon(red(next(iter(roots))))[0]
                rk = table[freeze(t)] if table is not None else _rank_by_build(t)
                d = exp.setdefault(",".join(map(str, key)), {})
                kk = "%d,%d" % rk
                d[kk] = d.get(kk, 0) + 1
    return exp


def _counter_obs(tc):
    out = {}
    for key, counter in tc.topologies.items():
        d = {"%d,%d" % (int(r[0]), int(r[1])): int(c) for r, c in counter.items() if c != 0}
        if d:
            out[",".join(str(int(i)) for i in key)] = d
    return out


KEY_FORMS = ("scalar", "asc_tuple", "desc_tuple", "perm_tuple", "perm_list", "np_tuple", "np_array")


def _api_keys(nsets, seed):
    """Combinations of sample-set indexes to query: all of them for <= 5 sets, otherwise every
    singleton and pair plus a random selection; each with a fixed random permutation."""
    rng = random.Random(seed)
    combos = []
    idx = list(range(nsets))
    for size in range(1, nsets + 1):
        cs = list(itertools.combinations(idx, size))
        if nsets > 5 and size > 2:
            cs = rng.sample(cs, min(len(cs), 6))
        combos += cs
    out = []
    for c in combos:
        p = list(c)
        rng.shuffle(p)
        if len(p) > 1 and p == sorted(p):
            p = p[1:] + p[:1]              # make sure the permuted form is not ascending
        out.append((list(c), p))
    return out


def _api_obs(tc, nsets, seed):
    """Query the TopologyCounter through its public __getitem__ with every key form the API
    accepts; returns {form: {ascending key string: {rank: count}}} (a copy is queried, indexing a
    defaultdict-backed counter plants empty entries)."""
    import copy
    import numpy as np
    tc = copy.deepcopy(tc)
    res = {f: {} for f in KEY_FORMS}

    def cnt(counter):
        return {"%d,%d" % (int(r[0]), int(r[1])): int(c) for r, c in counter.items() if c != 0}
    for asc, perm in _api_keys(nsets, seed):
        name = ",".join(map(str, asc))
        forms = {"asc_tuple": tuple(asc), "desc_tuple": tuple(reversed(asc)), "perm_tuple": tuple(perm),
                 "perm_list": list(perm), "np_tuple": tuple(np.int32(x) for x in perm),
                 "np_array": np.array(perm, dtype=np.int64)}
        if len(asc) == 1:
            forms["scalar"] = asc[0]
        for f, k in forms.items():
            try:
                res[f][name] = cnt(tc[k])
            except Exception as e:
                res[f][name] = {"exc": exc_class(e)}
    return res


def moves_desc(rng, vanish_p=0.0):
    """A gen_ts-style description: a random topology (polytomies, some unary nodes) on 3..9
    sample leaves over [0,L), changed at 0..3 breakpoints by moving a subtree below another,
    older node (the vacated parent may become unary or childless).  With probability vanish_p
    an internal node additionally disappears from the tree completely (no parent, no children)
    for one or more trees and returns later as a childless dead leaf (or as a parent)."""
    n = rng.randrange(3, 10)
    t = random_topology(rng, range(n), p_poly=rng.choice([0, 0.3, 0.6]))
    parent, time = {}, {}
    nxt = [n]

    def rec(x):
        if isinstance(x, int):
            time[x] = 0
            return x
        kids = [rec(c) for c in x]
        u = nxt[0]
        nxt[0] += 1
        time[u] = max(time[k] for k in kids) + 1
        for k in kids:
            if rng.random() < 0.2:          # a unary node on the branch
                w = nxt[0]
                nxt[0] += 1
                time[w] = time[k] + 0.5
                time[u] = max(time[u], time[w] + 0.5)
                parent[k], parent[w] = w, u
            else:
                parent[k] = u
        return u
    root = rec(t)
    parent[root] = -1
    m = nxt[0]
    L = rng.randrange(1, 5)
    forests = []
    cur = dict(parent)
    # optional schedule: an internal node with sample descendants loses its parent edge and all
    # its child edges at one breakpoint (isolated for one or more trees) and later returns
    # either as a childless dead leaf or with (new) children
    vanish = None
    if vanish_p and rng.random() < vanish_p:
        L = rng.randrange(3, 6)
        cands = [u for u in range(n, m) if u != root]
        if cands:
            v = rng.choice(cands)
            x1 = rng.randrange(1, L - 1)
            x2 = rng.randrange(x1 + 1, L)
            vanish = (v, x1, x2, rng.choice(["dead", "dead", "dead", "parent"]))
    for x in range(L):
        if vanish and x == vanish[1]:
            v = vanish[0]
            cur = dict(cur)
            gp = cur[v]
            for c in range(m):
                if cur[c] == v:
                    cur[c] = gp if (gp != -1 and rng.random() < 0.8) else rng.choice(
                        [q for q in range(n, m) if q != v and time[q] > time[c] and (cur[q] != -1 or q == root)] or [gp])
            cur[v] = -1
        elif vanish and x == vanish[2]:
            v = vanish[0]
            cur = dict(cur)
            older = [q for q in range(n, m) if q != v and time[q] > time[v] and (cur[q] != -1 or q == root)]
            if older:
                cur[v] = rng.choice(older)
                if vanish[3] == "parent":
                    younger = [c for c in range(m) if c != v and time[c] < time[v] and cur[c] != -1]
                    if younger:
                        cur[rng.choice(younger)] = v
        elif x > 0 and not (vanish and vanish[1] < x < vanish[2] and rng.random() < 0.6):
            for _ in range(rng.randrange(1, 3)):
                movable = [u for u in range(m) if cur[u] != -1]
                if not movable:
                    continue
                v = rng.choice(movable)
                below = set()
                stack = [v]
                while stack:
                    w = stack.pop()
                    below.add(w)
                    stack += [c for c in range(m) if cur[c] == w]
                cand = [q for q in range(m) if q not in below and time[q] > time[v] and q >= n
                        and (cur[q] != -1 or q == root) and not (vanish and q == vanish[0])]
                if cand:
                    cur = dict(cur)
                    cur[v] = rng.choice(cand)
        forests.append(dict(cur))
    edges = []
    for u in range(m):
        x = 0
        while x < L:
            p = forests[x][u]
            if p == -1:
                x += 1
                continue
            y = x
            while y + 1 < L and forests[y + 1][u] == p:
                y += 1
            edges.append([x, y + 1, p, u, ""])
            x = y + 1
    rng.shuffle(edges)
    # half-integer times: scale everything by 2 to stay on integers (only order matters)
    nodes = [[1 if u < n else 0, int(round(time[u] * 2)), -1, -1, ""] for u in range(m)]
    return {"L": L, "scale": rng.choice([1, 0.5, 2.5]), "nodes": nodes, "edges": edges, "sites": [],
            "mutations": [], "individuals": [], "populations": [], "migrations": []}


class CountTopologies(Family):
    """Tree.count_topologies / TreeSequence.count_topologies on random small tree sequences
    (harness/gen_ts.py, samples are leaves) x families of disjoint sample sets, against the
    brute force over all one-sample-per-set choices; incremental == per tree."""
    name = "count_topologies"
    prelude = ("From Coq Require Import List ZArith Bool.\nImport ListNotations.\n"
               "From TskVerif Require Import Base.Common C15.Combination C15.Partitions C15.RankTree C15.CountTopo.\n"
               "Open Scope Z_scope.\n"
               "Definition tct_is (roots : list ctree) (want : tcounter) : bool := match tree_count_topologies roots with Ok tc => tc_eqb tc want | _ => false end.\n"
               "Definition tct_key_is (roots : list ctree) (k : list Z) (want : counter) : bool := match tree_count_topologies roots with Ok tc => counter_eqb (tc_getitem tc k) want | _ => false end.\n")
    workers = 8
    timeout = 120.0
    shard = 60

    def generate(self, rng, tier):
        from harness import gen_ts
        made = 0
        want = 220 if tier == "quick" else 2500
        # (0) 6..8 (mostly singleton) sample sets on a tree with two same-shape sibling clades of
        # >= 3 leaves: joining them needs the canonical order (shape rank, then min label) of the
        # UNRANKED subtrees, not of their (index tuple, rank) pairs
        for _ in range(36 if tier == "quick" else 300):
            t = rng.choice(TWIN_CLADES)
            leaves = sorted(leaves_of(t))
            extra = rng.choice([0, 0, 1])
            desc = topology_desc(canon(t)[0], extra_leaves=extra, rng=rng)
            order = list(leaves)
            rng.shuffle(order)
            sets = [[u] for u in order]
            for e in range(extra):
                sets[rng.randrange(len(sets))].append(len(leaves) + e)
            yield {"desc": desc, "sets": [sorted(x) for x in sets], "twin": True}
        # (0b) default sample sets (sample_sets=None): one set per row of the population table, in
        # table order (docstring: "all samples grouped by population"), with ghost populations
        # (no samples) in first / middle / last position and samples whose population is NULL
        for _ in range(40 if tier == "quick" else 300):
            desc = moves_desc(rng, vanish_p=rng.choice([0.0, 0.3]))
            npop = rng.randrange(2, 5)
            ghosts = set(rng.sample(range(npop), rng.choice([0, 1, 1, 1, 2]) if npop > 2 else rng.choice([0, 1])))
            live = [q for q in range(npop) if q not in ghosts] or [0]
            desc["populations"] = [[""] for _ in range(npop)]
            sets = [[] for _ in range(npop)]
            for u, nd in enumerate(desc["nodes"]):
                if nd[0] & 1:
                    q = -1 if rng.random() < 0.15 else rng.choice(live)
                    nd[2] = q
                    if q >= 0:
                        sets[q].append(u)
                elif rng.random() < 0.3:
                    nd[2] = rng.randrange(npop)       # non-sample nodes may sit in a ghost population
            yield {"desc": desc, "sets": sets, "default": True}
        # (0c) several roots carrying the same sample-set combinations
        for _ in range(24 if tier == "quick" else 200):
            a = random_topology(rng, range(0, rng.randrange(2, 5)))
            na = len(leaves_of(a))
            b = random_topology(rng, range(na, na + rng.randrange(2, 5)))
            desc = topology_desc(canon([a, b])[0])
            top = len(desc["nodes"]) - 1                  # the joint root: drop it -> two roots
            desc["edges"] = [e for e in desc["edges"] if e[2] != top]
            nb = len(leaves_of(b))
            nsets = rng.randrange(1, 4)
            sets = [[] for _ in range(nsets)]
            for u in range(na + nb):
                if rng.random() < 0.9:
                    sets[rng.randrange(nsets)].append(u)
            yield {"desc": desc, "sets": [sorted(x) for x in sets], "tworoots": True}
        # (1) single-rooted trees that change by subtree moves along the sequence
        for i in range(want):
            desc = moves_desc(rng, vanish_p=0.5 if i % 2 else 0.0)
            samples = [i for i, nd in enumerate(desc["nodes"]) if nd[0] & 1]
            rng.shuffle(samples)
            nsets = rng.randrange(1, min(4, len(samples)) + 1)
            sets = [[] for _ in range(nsets)]
            for u in samples[:rng.randrange(nsets, len(samples) + 1)]:
                k = rng.randrange(nsets)
                if len(sets[k]) < 4:
                    sets[k].append(u)
            desc, pi = gen_ts.permute_node_ids(rng, desc, p=0.5)
            if pi is not None:
                sets = [[pi[u] for u in x] for x in sets]
            yield {"desc": desc, "sets": [sorted(x) for x in sets], "permuted": pi is not None}
        # (2) the shared generator: several roots, dead branches, gaps, isolated samples
        while made < want:
            desc = gen_ts.random_desc(rng, max_nodes=rng.choice([6, 8, 10, 12]), max_L=rng.choice([1, 3, 6]),
                                      max_sites=0, max_muts=0, metadata=False, individuals=False,
                                      populations=False, p_internal_sample=0.0,
                                      p_gap=rng.choice([0, 0.1]), p_root=rng.choice([0.02, 0.1, 0.2]),
                                      scale=rng.choice([1, 0.5, 2.5]))
            samples = [i for i, nd in enumerate(desc["nodes"]) if nd[0] & 1]
            if len(samples) < 2:
                continue
            rng.shuffle(samples)
            nsets = rng.randrange(1, min(4, len(samples)) + 1)
            used = samples[:rng.randrange(nsets, len(samples) + 1)]
            sets = [[] for _ in range(nsets)]
            for i, u in enumerate(used):
                sets[i if i < nsets else rng.randrange(nsets)].append(u)
            if rng.random() < 0.08:
                sets.append([])          # an empty sample set
            desc, pi = gen_ts.permute_node_ids(rng, desc, p=0.5)
            if pi is not None:
                sets = [[pi[u] for u in x] for x in sets]
            yield {"desc": desc, "sets": [sorted(s) for s in sets], "permuted": pi is not None}
            made += 1

    def observe(self, case):
        from harness import gen_ts
        desc, sets = case["desc"], case["sets"]
        ts = gen_ts.build_tables(desc).tree_sequence()
        per_tree, lefts, api_tree, api_inc = [], [], [], []
        kseed = len(desc["nodes"]) * 7919 + len(sets)
        for tree in ts.trees():
            lefts.append(tree.interval.left / desc["scale"])
            try:
                tc = tree.count_topologies() if case.get("default") else tree.count_topologies(sets)
                per_tree.append(_counter_obs(tc))
                api_tree.append(_api_obs(tc, len(sets), kseed))
            except Exception as e:
                per_tree.append({"exc": exc_class(e) + ": " + str(e)[:80]})
                api_tree.append(None)
        try:
            inc = []
            for tc in (ts.count_topologies() if case.get("default") else ts.count_topologies(sets)):
                inc.append(_counter_obs(tc))
                api_inc.append(_api_obs(tc, len(sets), kseed))
        except Exception as e:
            inc = {"exc": exc_class(e) + ": " + str(e)[:80]}
        return {"lefts": lefts, "per_tree": per_tree, "incremental": inc,
                "api_tree": api_tree, "api_inc": api_inc}

    def oracle(self, case, obs):
        from harness import gen_ts
        desc, sets = case["desc"], case["sets"]
        out = []
        if isinstance(obs["incremental"], dict):
            return [("count-treeseq-raises", obs["incremental"]["exc"])]
        if len(obs["incremental"]) != len(obs["per_tree"]):
            return [("count-treeseq-length", "%d vs %d trees" % (len(obs["incremental"]), len(obs["per_tree"])))]
        for k, left in enumerate(obs["lefts"]):
            x = int(round(left))
            parent = gen_ts.parent_at(desc, x)
            want = brute_count(parent, sets)
            got = obs["per_tree"][k]
            if "exc" in got:
                out.append(("count-tree-raises", got["exc"]))
            elif got != want:
                out.append(("count-tree-mismatch", "tree %d at %r: got %r want %r" % (k, left, got, want)))
            if obs["incremental"][k] != want:
                out.append(("count-treeseq-mismatch", "tree %d at %r: got %r want %r" % (k, left, obs["incremental"][k], want)))
            if "exc" not in got and obs["incremental"][k] != got:
                out.append(("count-incremental-differs", "tree %d at %r" % (k, left)))
            # the counter is indexed by an UNORDERED combination of sample sets: every key form
            # the API accepts must give the brute-force multiset of that combination
            for level, apis in (("tree", obs["api_tree"]), ("treeseq", obs["api_inc"])):
                api = apis[k] if k < len(apis) else None
                if not api:
                    continue
                for form in KEY_FORMS:
                    for name, cnt in api[form].items():
                        if cnt != want.get(name, {}):
                            out.append(("count-key-form-%s" % form,
                                        "%s level, tree %d: tc[%s as %s] = %r, brute force %r"
                                        % (level, k, name, form, cnt, want.get(name, {}))))
                            break
                    if out:
                        break
                if out:
                    break
            if out:
                break
        return out

    def coq_check(self, case, obs):
        """Model (C15/CountTopo.v: tree_count_topologies) on every tree of the sequence."""
        from harness import gen_ts
        desc, sets = case["desc"], case["sets"]
        if len(desc["nodes"]) > 14 or len(sets) > 6 or any("exc" in d for d in obs["per_tree"]):
            return None
        sidx = {}
        for i, st in enumerate(sets):
            for u in st:
                sidx[u] = i
        terms = []
        for k, left in enumerate(obs["lefts"]):
            parent = gen_ts.parent_at(desc, int(round(left)))
            kids = {}
            for c, p in enumerate(parent):
                if p != -1:
                    kids.setdefault(p, []).append(c)

            def ct(u):
                return "CT %s [%s]" % ("(Some %s)" % cz(sidx[u]) if u in sidx else "None",
                                       "; ".join(ct(c) for c in kids.get(u, [])))
            roots = "[" + "; ".join(ct(u) for u in range(len(parent)) if parent[u] == -1) + "]"
            want = "[" + "; ".join(
                "(%s, [%s])" % (clist([int(x) for x in key.split(",")]),
                                "; ".join("((%s, %s), %s)" % (cz(int(r.split(",")[0])), cz(int(r.split(",")[1])), cz(cnt))
                                          for r, cnt in sorted(d.items())))
                for key, d in sorted(obs["per_tree"][k].items())) + "]"
            terms.append("tct_is %s %s" % (roots, want))
            # __getitem__ with permuted keys: model tc_getitem (sorted canonical key) = API answer
            api = obs["api_tree"][k]
            if api and k == 0:
                asc_perm = [(a, p) for a, p in _api_keys(len(sets), len(desc["nodes"]) * 7919 + len(sets)) if len(a) > 1][:3]
                for a, pkey in asc_perm:
                    cnt = api["perm_tuple"].get(",".join(map(str, a)))
                    if cnt is None or "exc" in cnt:
                        continue
                    terms.append("tct_key_is %s %s [%s]" % (
                        roots, clist(pkey),
                        "; ".join("((%s, %s), %s)" % (cz(int(r.split(",")[0])), cz(int(r.split(",")[1])), cz(c))
                                  for r, c in sorted(cnt.items()))))
        return " && ".join(terms) if terms else None

    def nontrivial(self, case, obs):
        return len(case["sets"]) >= 2 and any(len(d) > 1 for d in obs["per_tree"] if "exc" not in d)

    def describe(self, case, obs):
        return {"nsets": len(case["sets"]), "ntrees": len(obs["lefts"]), "twin": bool(case.get("twin")), "default_sets": bool(case.get("default")), "permuted_ids": bool(case.get("permuted")), "tworoots": bool(case.get("tworoots")),
                "max_key": max((len(k.split(",")) for d in obs["per_tree"] for k in d if k != "exc"), default=0)}

    def shrink(self, case):
        sets = case["sets"]
        for i in range(len(sets)):
            if len(sets) > 1:
                yield dict(case, sets=sets[:i] + sets[i + 1:])
            for j in range(len(sets[i])):
                if len(sets[i]) > 1:
                    yield dict(case, sets=sets[:i] + [sets[i][:j] + sets[i][j + 1:]] + sets[i + 1:])


def multi_topology_desc(rng):
    """A tree sequence of 2..5 trees over the same 3..7 sample leaves, every tree an independent
    random unary-free topology with its own internal nodes (all trees are rankable)."""
    n = rng.randrange(3, 8)
    L = rng.randrange(2, 6)
    nodes = [[1, 0, -1, -1, ""] for _ in range(n)]
    edges = []
    for x in range(L):
        t = random_topology(rng, range(n), p_poly=rng.choice([0, 0.3]))

        def rec(y):
            if isinstance(y, int):
                return y, 0
            kids = [rec(c) for c in y]
            tm = max(k[1] for k in kids) + 1
            u = len(nodes)
            nodes.append([0, tm, -1, -1, ""])
            for k, _ in kids:
                edges.append([x, x + 1, u, k, ""])
            return u, tm
        rec(t)
    rng.shuffle(edges)
    return {"L": L, "scale": rng.choice([1, 0.5, 2.5]), "nodes": nodes, "edges": edges, "sites": [],
            "mutations": [], "individuals": [], "populations": [], "migrations": []}


class TreeNavigation(Family):
    """ONE Tree object moved through a multi-tree sequence by every navigation operation; at
    every position rank() (sometimes twice) and count_topologies(sets) must equal those of a
    fresh Tree at that index: no derived state may survive a repositioning."""
    name = "tree_navigation"
    workers = 8
    timeout = 120.0
    OPS = ("next", "prev", "first", "last", "seek", "seek_index", "seek_index_neg", "clear", "copy",
           "iter_fwd", "iter_rev", "rank_twice")

    def generate(self, rng, tier):
        from harness import gen_ts
        for _ in range(70 if tier == "quick" else 600):
            while True:
                desc = (multi_topology_desc(rng) if rng.random() < 0.7
                        else moves_desc(rng, vanish_p=rng.choice([0.0, 0.0, 0.4])))
                if desc["L"] >= 2:
                    break
            samples = [i for i, nd in enumerate(desc["nodes"]) if nd[0] & 1]
            sets = [[], []]
            for u in samples:
                if rng.random() < 0.8:
                    sets[rng.randrange(2)].append(u)
            desc, pi = gen_ts.permute_node_ids(rng, desc, p=0.4)
            if pi is not None:
                sets = [[pi[u] for u in x] for x in sets]
            ops = [rng.choice(self.OPS) for _ in range(rng.randrange(6, 16))]
            yield {"desc": desc, "sets": [sorted(x) for x in sets], "ops": ops,
                   "args": [rng.random() for _ in ops]}

    @staticmethod
    def _probe(tree, sets):
        try:
            r = tree.rank()
            rk = [int(r[0]), int(r[1])]
        except Exception as e:
            rk = exc_class(e)
        try:
            ct = _counter_obs(tree.count_topologies(sets))
        except Exception as e:
            ct = exc_class(e)
        return {"index": int(tree.index), "rank": rk, "count": ct}

    def observe(self, case):
        import tskit
        from harness import gen_ts
        ts = gen_ts.build_tables(case["desc"]).tree_sequence()
        sets = case["sets"]
        fresh = [self._probe(ts.at_index(i), sets) for i in range(ts.num_trees)]
        tree = tskit.Tree(ts)
        log = []

        def rec(op):
            if tree.index != -1:
                p = self._probe(tree, sets)
                p["op"] = op
                log.append(p)
        for op, a in zip(case["ops"], case["args"]):
            try:
                if op == "next":
                    tree.next()
                elif op == "prev":
                    tree.prev()
                elif op == "first":
                    tree.first()
                elif op == "last":
                    tree.last()
                elif op == "seek":
                    tree.seek(a * ts.sequence_length * 0.999999)
                elif op == "seek_index":
                    tree.seek_index(int(a * ts.num_trees) % ts.num_trees)
                elif op == "seek_index_neg":
                    tree.seek_index(-1 - int(a * ts.num_trees) % ts.num_trees)
                elif op == "clear":
                    tree.clear()
                elif op == "copy":
                    tree = tree.copy()
                elif op == "rank_twice":
                    rec("rank_twice(1)")
                elif op == "iter_fwd":
                    for t in ts.trees():
                        if a < 0.5 or t.index % 2 == 0:
                            p = self._probe(t, sets)
                            p["op"] = "iter_fwd"
                            log.append(p)
                    continue
                elif op == "iter_rev":
                    for t in reversed(ts.trees()):
                        if a < 0.5 or t.index % 2 == 0:
                            p = self._probe(t, sets)
                            p["op"] = "iter_rev"
                            log.append(p)
                    continue
            except Exception as e:
                log.append({"op": op, "exc": exc_class(e)})
                continue
            rec(op)
        return {"fresh": fresh, "log": log}

    def oracle(self, case, obs):
        out = []
        for k, p in enumerate(obs["log"]):
            if "exc" in p:
                out.append(("navigation-raises", "%s: %s" % (p["op"], p["exc"])))
                break
            f = obs["fresh"][p["index"]]
            if p["rank"] != f["rank"]:
                out.append(("rank-stale-after-%s" % p["op"].split("(")[0],
                            "step %d (%s) at tree %d: rank() = %r, a fresh Tree there gives %r"
                            % (k, p["op"], p["index"], p["rank"], f["rank"])))
                break
            if p["count"] != f["count"]:
                out.append(("count-stale-after-%s" % p["op"].split("(")[0],
                            "step %d (%s) at tree %d" % (k, p["op"], p["index"])))
                break
        return out

    def nontrivial(self, case, obs):
        return len({p.get("index") for p in obs["log"]}) >= 2

    def describe(self, case, obs):
        d = {"ntrees": len(obs["fresh"]), "ranked": sum(1 for f in obs["fresh"] if isinstance(f["rank"], list))}
        return d

    def shrink(self, case):
        for i in range(len(case["ops"])):
            yield dict(case, ops=case["ops"][:i] + case["ops"][i + 1:], args=case["args"][:i] + case["args"][i + 1:])


FAMILIES = [Comb, CombRank, CombWR, Parts, NumShapes, TreeBlock, TreeRankUnrank, AllTrees,
            AllLabellings, TreeBig, TreeWide, TreeOOR, RankInvariance, TreeNavigation, CountTopologies]

NOT_COVERED = [
    "tree_count_topologies / TopologyCounter / PartialTopologyCounter are modelled (C15/CountTopo.v) and tied by correspondence, but no theorem relates the model to the brute-force definition yet; treeseq_count_topologies (incremental update_state) is tied differentially only",
    "RankTree: the shape half of rank(unrank r) = r and the density of shape ranks are proved unboundedly; the label half and unrank(rank t) = t are proved for bounded n only (bound in the statement)",
    "n > 16 leaves is not exercised against the implementation (num_shapes/unrank cost grows steeply; measured 29 s at n = 20)",
]
