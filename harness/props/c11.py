"""C11 — editing operations change only what they document.

Families
  intervals   keep_intervals / delete_intervals (simplify off and on, TableCollection and
              TreeSequence entry points, malformed interval lists)
  trim        ltrim / rtrim / trim
  delsites    delete_sites
  timecut     split_edges / decapitate / delete_older
  extend      extend_haplotypes (spec level / differential only)

Coordinates.  gen_ts descriptions use integer edge coordinates and half-integer site
positions; everything here is expressed on the *doubled* lattice (x2 = 2*x, integers) so
that interval end points may fall on breakpoints and on midpoints.  Times are doubled as
well (cut-off times fall below / at / above node and mutation times).  The adapter maps
the implementation's doubles back to the lattice (off-lattice values are an adapter
exception, never silently rounded).

Oracles are written from the property text and the docstrings only; they see the generated
description (the input) and the implementation's output tables.
"""
import itertools

from harness import gen_ts
from harness.runner import Family
from harness.common import cz, clist

NULL = -1


# ---------------------------------------------------------------------------
# input descriptions
# ---------------------------------------------------------------------------

def make_desc(rng, migrations=None, edge_md=True, unique_node_md=False, max_nodes=7, max_L=5,
              unknown_times=None, max_sites=4):
    d = gen_ts.random_desc(rng, max_nodes=max_nodes, max_L=max_L, max_sites=max_sites, max_muts=3,
                           migrations=False, unknown_times=unknown_times)
    n = len(d["nodes"])
    times = [r[1] for r in d["nodes"]]
    if not edge_md:
        for e in d["edges"]:
            e[4] = ""
    elif rng.random() < 0.7:                       # make edge metadata dense and distinctive
        for k, e in enumerate(d["edges"]):
            e[4] = bytes([0xE0 + (k % 16), rng.randrange(256)]).hex()
    if unique_node_md:
        for i, r in enumerate(d["nodes"]):
            r[4] = bytes([0xA0, i]).hex()
    if rng.random() < 0.25:                        # application-defined flag bits on top of IS_SAMPLE
        for r in d["nodes"]:
            if rng.random() < 0.5:
                r[0] |= rng.choice([1 << 16, 1 << 19, (1 << 16) | (1 << 20)])
    # known mutation times: move whole (site, node-time) groups half a unit up
    for s in range(len(d["sites"])):
        off = {}
        for m in d["mutations"]:
            if m[0] == s and m[4] is not None:
                t = times[m[1]]
                if t not in off:
                    off[t] = rng.choice([0, 0, 0.5])
                m[4] = t + off[t]
    if rng.random() < 0.3:
        ancient_leaves(d, rng)
        times = [r[1] for r in d["nodes"]]
    if rng.random() < 0.6:
        raise_times(d, rng)
    if migrations is None:
        migrations = rng.random() < 0.5
    migs = []
    if migrations and n:
        while len(d["populations"]) < 2:
            d["populations"].append([gen_ts.hx(rng)])
        L = d["L"]
        for _ in range(rng.randrange(1, 4)):
            a = rng.randrange(0, L)
            migs.append([a, rng.randrange(a + 1, L + 1), rng.randrange(n), 0, 1,
                         rng.randrange(0, max(times) + 2) + rng.choice([0, 0.5]),
                         bytes([0xD0, rng.randrange(256)]).hex() if rng.random() < 0.8 else ""])
        migs.sort(key=lambda m: m[5])
    d["migrations"] = migs
    if rng.random() < 0.3:
        pad_ends(d, rng)
    if rng.random() < 0.35:
        ragged_shapes(d, rng, keep_node_md=unique_node_md, keep_edge_md=not edge_md)
    d, _pi = gen_ts.permute_node_ids(rng, d, p=0.5)
    return d


def pad_ends(d, rng):
    """Long edge-less end regions: everything is shifted right by a and the sequence extended by
    a + b, so the first / last trees have no edges; a few sites (with mutations above isolated
    sample nodes, or none) fall into the empty flanks."""
    a = rng.choice([0, 1, 2, 3])
    b = rng.choice([0, 1, 2, 3])
    L0 = d["L"]
    for e in d["edges"]:
        e[0] += a
        e[1] += a
    for g in d["migrations"]:
        g[0] += a
        g[1] += a
    for s_ in d["sites"]:
        s_[0] += a
    d["L"] = L0 + a + b
    flank = [x / 2 for x in range(0, 2 * a)] + [x / 2 for x in range(2 * (L0 + a), 2 * d["L"])]
    rng.shuffle(flank)
    n = len(d["nodes"])
    times = [r[1] for r in d["nodes"]]
    unknown = any(m[4] is None for m in d["mutations"]) or not d["mutations"]
    for pos in flank[:rng.randrange(0, 3)]:
        pos = int(pos) if pos == int(pos) else pos
        k = sum(1 for s_ in d["sites"] if s_[0] < pos)          # insertion index keeps sites sorted
        d["sites"].insert(k, [pos, rng.choice("ACGT"), gen_ts.hx(rng)])
        for m in d["mutations"]:
            if m[0] >= k:
                m[0] += 1
        if n and rng.random() < 0.6:
            u = rng.randrange(n)
            j = sum(1 for m in d["mutations"] if m[0] < k)
            d["mutations"].insert(j, [k, u, rng.choice("ACGT"), NULL, None if unknown else times[u], gen_ts.hx(rng)])
            for m in d["mutations"]:
                if m[3] != NULL and m[3] >= j:
                    m[3] += 1


def ragged_shapes(d, rng, keep_node_md=False, keep_edge_md=False):
    """Ragged columns in their awkward shapes: a column that is empty in every row beside a
    non-empty sibling, a fixed-width-looking column (every cell the same length), and a column
    whose first cell has the mean length."""
    def reshape(rows, col, is_text):
        if not rows:
            return
        mode = rng.choice(["keep", "empty", "fixed", "first-mean"])
        mk = (lambda k: "ACGT"[:k] if k <= 4 else "A" * k) if is_text else (lambda k: bytes(rng.randrange(256) for _ in range(k)).hex())
        if mode == "empty":
            for r in rows:
                r[col] = ""
        elif mode == "fixed":
            k = rng.choice([1, 2, 4])
            for r in rows:
                r[col] = mk(k)
        elif mode == "first-mean":
            lens = [rng.randrange(0, 5) for _ in rows]
            lens[0] = round(sum(lens) / len(lens))
            for r, k in zip(rows, lens):
                r[col] = mk(k)
    reshape(d["sites"], 1, True)
    reshape(d["sites"], 2, False)
    reshape(d["mutations"], 2, True)
    reshape(d["mutations"], 5, False)
    if not keep_edge_md:
        reshape(d["edges"], 4, False)
    reshape(d["migrations"], 6, False)
    if not keep_node_md:
        reshape(d["nodes"], 4, False)
    reshape(d["populations"], 0, False)
    reshape(d["individuals"], 3, False)


def resort_mutations(d):
    """mutations of a site in non-increasing time order (stable), parent references follow"""
    muts = d["mutations"]
    order = sorted(range(len(muts)), key=lambda j: (muts[j][0], -(muts[j][4] if muts[j][4] is not None else 0)))
    if order != list(range(len(muts))):
        new_id = {old: new for new, old in enumerate(order)}
        d["mutations"] = [list(muts[j]) for j in order]
        for m in d["mutations"]:
            if m[3] != NULL:
                m[3] = new_id[m[3]]


def ancient_leaves(d, rng):
    """Ancient samples: leaves (no child edges) moved up in time to just below their youngest
    parent, so that nodes at / above a cut-off have young parents and old leaves exist."""
    times = [r[1] for r in d["nodes"]]
    has_child = {e[2] for e in d["edges"]}
    for u, r in enumerate(d["nodes"]):
        if u in has_child or rng.random() < 0.5:
            continue
        ps = [times[e[2]] for e in d["edges"] if e[3] == u]
        top = (min(ps) - 1) if ps else rng.randrange(0, 4)
        if top > r[1]:
            r[1] = rng.randrange(r[1] + 1, top + 1)
            r[0] |= 1 if rng.random() < 0.8 else 0
            for m in d["mutations"]:
                if m[1] == u and m[4] is not None and m[4] < r[1]:
                    m[4] = r[1]
    resort_mutations(d)


def raise_times(d, rng):
    """Known mutation times anywhere on the branch: a mutation without a parent mutation may
    be as old as (just below) the parent node of its node at the site.  Mutations of a site
    are re-sorted by decreasing time (stable) and parent references follow."""
    times = [r[1] for r in d["nodes"]]
    muts = d["mutations"]
    for m in muts:
        if m[4] is None or m[3] != NULL or rng.random() < 0.4:
            continue
        pos = d["sites"][m[0]][0]
        par = next((e[2] for e in d["edges"] if e[3] == m[1] and e[0] <= pos < e[1]), None)
        top = times[par] - 0.5 if par is not None else m[4] + rng.choice([0.5, 1, 2.5])
        if top > m[4]:
            steps = int(round((top - m[4]) * 2))
            m[4] = m[4] + rng.randrange(0, steps + 1) / 2
    order = sorted(range(len(muts)), key=lambda j: (muts[j][0], -(muts[j][4] if muts[j][4] is not None else 0)))
    if order != list(range(len(muts))):
        new_id = {old: new for new, old in enumerate(order)}
        d["mutations"] = [list(muts[j]) for j in order]
        for m in d["mutations"]:
            if m[3] != NULL:
                m[3] = new_id[m[3]]


def clip_desc(d, a, b):
    """Generator-side helper: keep only the parts of edges within [a, b) (integer coordinates)
    so that empty flanks exist for the trim operations.  Sites and migrations stay."""
    out = dict(d)
    es = []
    for l, r, p, c, m in d["edges"]:
        l2, r2 = max(l, a), min(r, b)
        if l2 < r2:
            es.append([l2, r2, p, c, m])
    out["edges"] = es
    return out


def rows_of_desc(d):
    """The input as row lists on the doubled lattice (same shape as dump())."""
    return {
        "L": 2 * d["L"],
        "nodes": [[fl, int(2 * t), p, i, m] for fl, t, p, i, m in d["nodes"]],
        "edges": [[2 * l, 2 * r, p, c, m] for l, r, p, c, m in d["edges"]],
        "sites": [[int(round(2 * pos)), a, m] for pos, a, m in d["sites"]],
        "mutations": [[s, u, ds, par, None if t is None else int(round(2 * t)), m]
                      for s, u, ds, par, t, m in d["mutations"]],
        "migrations": [[2 * l, 2 * r, nd, src, dst, int(round(2 * t)), m]
                       for l, r, nd, src, dst, t, m in d["migrations"]],
        "individuals": [[fl, list(loc), list(par), m] for fl, loc, par, m in d["individuals"]],
        "populations": [[m] for m, in d["populations"]],
    }


class OffLattice(Exception):
    pass


def _lat(v, s):
    x = 2.0 * float(v) / s
    r = round(x)
    if abs(x - r) > 1e-6:
        raise OffLattice("coordinate %r is not on the lattice (scale %r)" % (v, s))
    return int(r)


def _t2(t):
    x = 2.0 * float(t)
    r = round(x)
    if abs(x - r) > 1e-9:
        raise OffLattice("time %r not on the half-integer lattice" % (t,))
    return int(r)


def _mdcol(table):
    import tskit
    return [bytes(b).hex() for b in tskit.unpack_bytes(table.metadata, table.metadata_offset)]


def _strcol(data, offset):
    import tskit
    return [bytes(b).decode("utf8") for b in tskit.unpack_bytes(data, offset)]


def dump(tc, s):
    """Row lists on the lattice, read from the raw columns (metadata is never decoded, so
    metadata schemas may be set on the tables)."""
    import tskit
    out = {"L": _lat(tc.sequence_length, s)}
    t = tc.nodes
    md = _mdcol(t)
    out["nodes"] = [[int(t.flags[i]), _t2(t.time[i]), int(t.population[i]), int(t.individual[i]), md[i]]
                    for i in range(t.num_rows)]
    t = tc.edges
    md = _mdcol(t)
    out["edges"] = [[_lat(t.left[i], s), _lat(t.right[i], s), int(t.parent[i]), int(t.child[i]), md[i]]
                    for i in range(t.num_rows)]
    t = tc.sites
    md = _mdcol(t)
    anc = _strcol(t.ancestral_state, t.ancestral_state_offset)
    out["sites"] = [[_lat(t.position[i], s), anc[i], md[i]] for i in range(t.num_rows)]
    t = tc.mutations
    md = _mdcol(t)
    der = _strcol(t.derived_state, t.derived_state_offset)
    out["mutations"] = [[int(t.site[i]), int(t.node[i]), der[i], int(t.parent[i]),
                         None if tskit.is_unknown_time(t.time[i]) else _t2(t.time[i]), md[i]]
                        for i in range(t.num_rows)]
    t = tc.migrations
    md = _mdcol(t)
    out["migrations"] = [[_lat(t.left[i], s), _lat(t.right[i], s), int(t.node[i]), int(t.source[i]),
                          int(t.dest[i]), _t2(t.time[i]), md[i]] for i in range(t.num_rows)]
    t = tc.individuals
    md = _mdcol(t)
    out["individuals"] = [[int(t.flags[i]),
                           [int(x) for x in t.location[t.location_offset[i]:t.location_offset[i + 1]]],
                           [int(x) for x in t.parents[t.parents_offset[i]:t.parents_offset[i + 1]]], md[i]]
                          for i in range(t.num_rows)]
    out["populations"] = [[m] for m in _mdcol(tc.populations)]
    return out


TABLES = ("nodes", "edges", "sites", "mutations", "migrations", "individuals", "populations")


def set_context(tc):
    """Everything an editing operation must leave alone besides the rows: time units, top-level
    metadata and schema, reference sequence, the metadata schema of every table."""
    import tskit
    tc.time_units = "verif-units"
    tc.metadata_schema = tskit.MetadataSchema({"codec": "json", "title": "top"})
    tc.metadata = {"k": [1, 2, 3]}
    tc.reference_sequence.data = "ACGTACGT"
    tc.reference_sequence.url = "http://example.invalid/ref"
    tc.reference_sequence.metadata_schema = tskit.MetadataSchema({"codec": "json", "title": "ref"})
    tc.reference_sequence.metadata = {"r": 1}
    for nm in TABLES:
        getattr(tc, nm).metadata_schema = tskit.MetadataSchema({"codec": "json", "title": "schema-of-" + nm})


def context(tc):
    c = {"time_units": tc.time_units, "metadata": bytes(tc.metadata_bytes).hex(),
         "metadata_schema": repr(tc.metadata_schema),
         "ref_data": tc.reference_sequence.data, "ref_url": tc.reference_sequence.url,
         "ref_metadata": bytes(tc.reference_sequence.metadata_bytes).hex(),
         "ref_schema": repr(tc.reference_sequence.metadata_schema)}
    for nm in TABLES:
        c["schema:" + nm] = repr(getattr(tc, nm).metadata_schema)
    return c


def build(case, **kw):
    tc = gen_ts.build_tables(case["desc"], **kw)
    if case.get("ctx"):
        set_context(tc)
    if case.get("stale") and tc.edges.num_rows:
        # stale derived state: the index was built for one more edge row than the table now has
        tc.edges.truncate(tc.edges.num_rows - 1)
    if case.get("pre"):
        # a history, not a single step: an interval edit first (simplify off), then the operation
        s = case["desc"]["scale"]
        pre = case["pre"]
        getattr(tc, pre["op"])([[real(a, s), real(b, s)] for a, b in pre["intervals"]],
                               simplify=False, record_provenance=False)
    return tc


def complement(ivs, P):
    out, last = [], 0
    for a, b in ivs:
        if a > last:
            out.append([last, a])
        last = b
    if last < P:
        out.append([last, P])
    return out


def keep_rows(rows, ivs):
    """Definition-level keep_intervals (simplify off) on lattice rows: rows clipped to each interval,
    sites / mutations outside dropped with ids renumbered."""
    out = dict(rows)
    out["edges"] = [[max(a, e[0]), min(b, e[1])] + e[2:] for a, b in ivs for e in rows["edges"]
                    if max(a, e[0]) < min(b, e[1])]
    out["migrations"] = [[max(a, g[0]), min(b, g[1])] + g[2:] for a, b in ivs for g in rows["migrations"]
                         if max(a, g[0]) < min(b, g[1])]
    keep = [in_ivs(ivs, r[0]) for r in rows["sites"]]
    out["sites"], out["mutations"] = site_mut_expect(rows["sites"], rows["mutations"], keep)
    return out


def effective_input(case):
    """The rows the operation under test starts from, derived from the description only."""
    rows = rows_of_desc(case["desc"])
    if case.get("stale") and rows["edges"]:
        tm = [r[1] for r in rows["nodes"]]
        last = max(range(len(rows["edges"])),
                   key=lambda k: (tm[rows["edges"][k][2]], rows["edges"][k][2], rows["edges"][k][3], rows["edges"][k][0]))
        rows["edges"] = rows["edges"][:last] + rows["edges"][last + 1:]
    if case.get("pre"):
        ivs = case["pre"]["intervals"]
        if case["pre"]["op"] == "delete_intervals":
            ivs = complement(ivs, rows["L"])
        rows = keep_rows(rows, ivs)
    return rows


def finish(obs, case, tc_in_ctx, out):
    obs["nprov"] = out.provenances.num_rows
    if case.get("ctx"):
        obs["ctx_in"] = tc_in_ctx
        obs["ctx_out"] = context(out)


def check_context(op, case, obs, fails, has_prov_arg=True):
    want = 1 if (has_prov_arg and case.get("prov")) else 0
    if obs.get("nprov", want) != want:
        fails.append((op + ":provenance-rows", "%d provenance rows, expected %d (record_provenance=%r)"
                      % (obs["nprov"], want, bool(case.get("prov")))))
    if case.get("ctx") and obs.get("ctx_out") != obs.get("ctx_in"):
        diff = [k for k in obs["ctx_in"] if obs["ctx_in"][k] != (obs.get("ctx_out") or {}).get(k)]
        fails.append((op + ":context-changed", "changed: %r" % diff))


def dump_raw(tc, s):
    """dump() for tables that may be invalid (coordinates outside [0, L])."""
    return dump(tc, s)


def validity(tc):
    t = tc.copy()
    try:
        t.build_index()
        t.tree_sequence()
        return True
    except Exception as e:        # noqa: BLE001
        return "%s: %s" % (type(e).__name__, str(e)[:120])


def real(x2, s):
    """lattice (doubled) coordinate -> the double build_tables uses for the same point"""
    return (x2 // 2) * s if x2 % 2 == 0 else (x2 / 2) * s


# ---------------------------------------------------------------------------
# naive definitions used by the oracles
# ---------------------------------------------------------------------------

def cover_map(edges, x, n, fails, tag):
    """child -> (parent, metadata) at lattice point x, from rows by the definition."""
    par = {}
    for l, r, p, c, m in edges:
        if l <= x < r:
            if c in par:
                fails.append((tag + ":two-parents", "child %d has two covering edges at x2=%d" % (c, x)))
            par[c] = (p, m)
    return par


def mig_cover(migs, x):
    return sorted([m[2:] for m in migs if m[0] <= x < m[1]])


def in_ivs(ivs, x):
    return any(a <= x < b for a, b in ivs)


def site_mut_expect(sites, muts, keep_site):
    """Expected site / mutation rows when exactly the sites with keep_site[i] are retained:
    ids remapped by rank, mutation parents remapped by rank (parents live at the same site)."""
    smap, k = {}, 0
    for i, kp in enumerate(keep_site):
        if kp:
            smap[i] = k
            k += 1
    es = [list(r) for i, r in enumerate(sites) if keep_site[i]]
    mmap, k = {}, 0
    for j, m in enumerate(muts):
        if keep_site[m[0]]:
            mmap[j] = k
            k += 1
    em = []
    for j, m in enumerate(muts):
        if keep_site[m[0]]:
            par = m[3]
            em.append([smap[m[0]], m[1], m[2], NULL if par == NULL else mmap.get(par, "parent-dropped"), m[4], m[5]])
    return es, em


def cmp_rows(tag, what, got, exp, fails, ordered=True):
    g, e = (got, exp) if ordered else (sorted(got, key=repr), sorted(exp, key=repr))
    if g != e:
        k = next((i for i in range(min(len(g), len(e))) if g[i] != e[i]), min(len(g), len(e)))
        fails.append(("%s:%s" % (tag, what), "%s differ at row %d: got %r expected %r (lens %d/%d)"
                      % (what, k, g[k] if k < len(g) else None, e[k] if k < len(e) else None, len(g), len(e))))
        return False
    return True


def unchanged(tag, names, inp, out, fails):
    for nm in names:
        cmp_rows(tag, nm + "-changed", out[nm], inp[nm], fails)


def strip_md(rows):
    return [r[:-1] + [""] for r in rows]


def mut_time(m, nodes):
    return nodes[m[1]][1] if m[4] is None else m[4]


def chain(par, u):
    out = []
    while u in par:
        u = par[u][0]
        out.append(u)
        if len(out) > 1000:
            break
    return out


def is_subseq(a, b):
    it = iter(b)
    return all(any(x == y for y in it) for x in a)


def genotype(rows, site_index, sample, fails):
    pos = rows["sites"][site_index][0]
    par = cover_map(rows["edges"], pos, len(rows["nodes"]), fails, "geno")
    v = sample
    hops = 0
    while True:
        ms = [m for m in rows["mutations"] if m[0] == site_index and m[1] == v]
        if ms:
            return ms[-1][2]
        if v not in par or hops > 1000:
            return rows["sites"][site_index][1]
        v = par[v][0]
        hops += 1


def samples_of(rows):
    return [i for i, r in enumerate(rows["nodes"]) if r[0] & 1]


# ---------------------------------------------------------------------------
# Coq term printing
# ---------------------------------------------------------------------------

def hexl(h):
    return clist(list(bytes.fromhex(h)))


def strl(s):
    return clist(list(s.encode("utf8")))


def q_edge(e):
    return "(mkE %s %s %s %s %s)" % (cz(e[0]), cz(e[1]), cz(e[2]), cz(e[3]), hexl(e[4]))


def q_site(r):
    return "(mkS %s %s %s)" % (cz(r[0]), strl(r[1]), hexl(r[2]))


def q_mut(m):
    return "(mkM %s %s %s %s %s %s)" % (cz(m[0]), cz(m[1]), cz(m[3]),
                                         "None" if m[4] is None else "(Some %s)" % cz(m[4]), strl(m[2]), hexl(m[5]))


def q_mig(g):
    return "(mkG %s %s %s %s %s %s %s)" % (cz(g[0]), cz(g[1]), cz(g[2]), cz(g[3]), cz(g[4]), cz(g[5]), hexl(g[6]))


def q_node(r):
    return "(mkN %s %s %s %s %s)" % (cz(r[0]), cz(r[1]), cz(r[2]), cz(r[3]), hexl(r[4]))


def q_list(rows, f):
    return "[" + "; ".join(f(r) for r in rows) + "]"


def q_tables(t):
    return "(mkT %s %s %s %s %s %s)" % (cz(t["L"]), q_list(t["nodes"], q_node), q_list(t["edges"], q_edge),
                                        q_list(t["sites"], q_site), q_list(t["mutations"], q_mut),
                                        q_list(t["migrations"], q_mig))


def q_ivs(ivs):
    return "[" + "; ".join("(%s, %s)" % (cz(a), cz(b)) for a, b in ivs) + "]"


PRELUDE = "From TskVerif Require Import Base.Common C11.Model C11.Collection.\nOpen Scope Z_scope."


def with_prov(term, case, obs, has_arg):
    """also tie the number of provenance rows the model predicts (Collection.v) to the observed one"""
    if term is None or "nprov" not in obs:
        return term
    return "(%s) && (prov_rows_added %s %s =? %d)" % (term, "true" if has_arg else "false",
                                                      "true" if case.get("prov") else "false", obs["nprov"])


def q_expect(obs):
    """res tables the implementation produced: Ok tables | Err 1 (ValueError) | Err 2 (LibraryError)"""
    if "error" in obs:
        code = {"ValueError": 1, "LibraryError": 2}.get(obs["error"])
        if code is None:
            return None
        return "(Err %s)" % cz(code)
    return "(Ok %s)" % q_tables(obs["out"])


# ---------------------------------------------------------------------------
# shrinking (shared)
# ---------------------------------------------------------------------------

def shrink_desc(d):
    for k in range(len(d["edges"])):
        e = dict(d)
        e["edges"] = d["edges"][:k] + d["edges"][k + 1:]
        yield e
    for k in range(len(d["migrations"])):
        e = dict(d)
        e["migrations"] = d["migrations"][:k] + d["migrations"][k + 1:]
        yield e
    for j in reversed(range(len(d["mutations"]))):
        if any(m[3] == j for m in d["mutations"]):
            continue
        e = dict(d)
        ms = []
        for i, m in enumerate(d["mutations"]):
            if i == j:
                continue
            m = list(m)
            if m[3] > j:
                m[3] -= 1
            ms.append(m)
        e["mutations"] = ms
        yield e
    if d["sites"]:
        last = len(d["sites"]) - 1
        if not any(m[0] == last for m in d["mutations"]):
            e = dict(d)
            e["sites"] = d["sites"][:-1]
            yield e
    if d.get("scale", 1) != 1:
        e = dict(d)
        e["scale"] = 1
        yield e
    if d["individuals"] and all(r[3] == NULL for r in d["nodes"]):
        e = dict(d)
        e["individuals"] = []
        yield e


def shrink_case(case):
    for d in shrink_desc(case["desc"]):
        c = dict(case)
        c["desc"] = d
        yield c


def as_layout(values, layout, dtype):
    """The same argument values as a list or as numpy arrays of various layouts (already-correct
    dtype so that no conversion copy happens, strided / reversed views, a column of a 2-D array)."""
    import numpy as np
    if layout == "list":
        return values
    if layout == "tuple":
        return tuple(tuple(v) if isinstance(v, (list, tuple)) else v for v in values)
    if layout == "small-dtype":
        flat = [x for v in values for x in (v if isinstance(v, (list, tuple)) else [v])]
        if all(float(x) == int(x) and 0 <= x < 120 for x in flat):
            return np.array(values, dtype=np.random.default_rng(len(flat)).choice([np.int8, np.uint8, np.int16, np.uint32, np.int64]))
        return np.array(values, dtype=dtype)
    a = np.array(values, dtype=dtype)
    if layout == "array":
        return a
    if layout == "other-dtype":
        return np.array(values, dtype=np.int64 if dtype == np.int32 else np.float32) if dtype == np.int32 else a.astype(np.float64, order="F")
    if layout == "strided":
        big = np.zeros((2 * len(values),) + a.shape[1:], dtype=dtype)
        big[::2] = a
        big[1::2] = -7
        return big[::2]
    if layout == "reversed":
        return np.array(values[::-1], dtype=dtype)[::-1]
    if layout == "column":
        if a.ndim == 1:
            big = np.full((len(values), 3), -7, dtype=dtype)
            big[:, 1] = a
            return big[:, 1]
        big = np.full((len(values), 5), -7.0, dtype=dtype)
        big[:, 1:4:2] = a
        return big[:, 1:4:2]
    raise ValueError(layout)


LAYOUTS = ["list", "list", "tuple", "array", "other-dtype", "small-dtype", "strided", "reversed", "column"]


def try_op(f):
    try:
        return f(), None
    except Exception as e:   # noqa: BLE001
        return None, type(e).__name__


# ---------------------------------------------------------------------------
# keep_intervals / delete_intervals
# ---------------------------------------------------------------------------

def valid_interval_lists(P, rng, count):
    """interval lists over the lattice points 0..P (doubled lattice): sorted, disjoint,
    abutting allowed."""
    out = []
    for _ in range(count):
        k = rng.choice([0, 1, 1, 2, 2, 2, 3, 4])
        pts = sorted(rng.choice(range(P + 1)) for _ in range(2 * k))
        ivs = [[pts[2 * i], pts[2 * i + 1]] for i in range(k)]
        ivs = [iv for iv in ivs if iv[0] < iv[1]]
        if ivs and rng.random() < 0.25:
            ivs[0][0] = 0                      # touching the left end of the sequence
        if ivs and rng.random() < 0.25:
            ivs[-1][1] = P                     # touching the right end
        out.append(ivs)
    return out


def all_interval_lists(P, maxk):
    pts = list(range(P + 1))
    res = [[]]
    for k in range(1, maxk + 1):
        for comb in itertools.combinations_with_replacement(pts, 2 * k):
            ivs = [[comb[2 * i], comb[2 * i + 1]] for i in range(k)]
            if all(a < b for a, b in ivs):
                res.append(ivs)
    return res


class Flagged(Family):
    """adds the context / provenance switches to every generated case"""
    ctx_ok = True

    def generate(self, rng, tier):
        r2 = __import__("random").Random(rng.random())
        for c in self._generate(rng, tier):
            if self.ctx_ok and r2.random() < 0.35:
                c["ctx"] = True
                c.pop("metadata", None)          # node schema is JSON: new nodes get the empty value {}
            if r2.random() < 0.3:
                c["prov"] = True
            if c.get("op") in ("keep_intervals", "delete_intervals", "delete_sites") and "raw_intervals" not in c:
                c["layout"] = r2.choice(LAYOUTS)
            table_level = c.get("api", "tc") == "tc" and c.get("op") in (
                "keep_intervals", "delete_intervals", "delete_sites", "ltrim", "rtrim", "trim", "delete_older")
            if table_level and c.get("sorted", True) and not c.get("simplify") and r2.random() < 0.12:
                c["stale"] = True
            if c.get("op") in ("ltrim", "rtrim", "trim", "delete_sites", "delete_older") and c.get("sorted", True) \
                    and r2.random() < 0.2:
                P = 2 * c["desc"]["L"]
                c["pre"] = {"op": r2.choice(["keep_intervals", "delete_intervals"]),
                            "intervals": valid_interval_lists(P, r2, 1)[0]}
            yield c


class Intervals(Flagged):
    name = "intervals"
    prelude = PRELUDE
    workers = 8
    timeout = 30.0

    def _generate(self, rng, tier):
        nd = 120 if tier == "quick" else 650
        per = 10 if tier == "quick" else 16
        # exhaustive interval lists on a few small descriptions
        for k in range(3 if tier == "quick" else 12):
            d = make_desc(rng, max_L=2 if k % 2 else 3, max_nodes=5)
            lists = all_interval_lists(2 * d["L"], 2) if d["L"] <= 3 else valid_interval_lists(2 * d["L"], rng, 60)
            for ivs in lists:
                yield {"op": rng.choice(["keep_intervals", "delete_intervals"]), "api": "tc", "simplify": False,
                       "intervals": ivs, "desc": d}
        for _ in range(nd):
            d = make_desc(rng)
            P = 2 * d["L"]
            for ivs in valid_interval_lists(P, rng, per):
                yield {"op": rng.choice(["keep_intervals", "delete_intervals"]),
                       "api": rng.choice(["tc", "tc", "ts"]), "simplify": False, "intervals": ivs, "desc": d}
        # simplify=True: no edge metadata, no migrations (simplify refuses both); node tags
        for _ in range(nd // 2):
            d = make_desc(rng, migrations=False, edge_md=False, unique_node_md=True)
            for ivs in valid_interval_lists(2 * d["L"], rng, per // 2):
                yield {"op": rng.choice(["keep_intervals", "delete_intervals"]),
                       "api": rng.choice(["tc", "ts"]), "simplify": True, "intervals": ivs, "desc": d}
        # simplify=True on inputs simplify refuses (edge metadata / migrations): documented error
        for _ in range(nd // 10):
            d = make_desc(rng, migrations=rng.random() < 0.5, edge_md=True, unique_node_md=True)
            for ivs in valid_interval_lists(2 * d["L"], rng, 2):
                yield {"op": rng.choice(["keep_intervals", "delete_intervals"]),
                       "api": rng.choice(["tc", "ts"]), "simplify": True, "intervals": ivs, "desc": d}
        # wrongly shaped interval arguments
        for _ in range(nd // 10):
            d = make_desc(rng)
            yield {"op": rng.choice(["keep_intervals", "delete_intervals"]), "api": "tc", "simplify": False,
                   "intervals": [], "raw_intervals": rng.choice([[0, 1], [[0, 1, 2]], [[0], [1]], [[[0, 1]]]]),
                   "desc": d, "malformed": True}
        # malformed interval lists
        for _ in range(nd // 2):
            d = make_desc(rng)
            P = 2 * d["L"]
            a, b = sorted([rng.randrange(0, P + 1), rng.randrange(0, P + 1)])
            bad = rng.choice([
                [[b, a]], [[a, a]], [[-1, b]], [[a, P + 1]], [[a, b], [b - 1, P]] if b - 1 >= 0 else [[1, 0]],
                [[a, b], [a, b]], [[b, P], [0, a]],
            ])
            yield {"op": rng.choice(["keep_intervals", "delete_intervals"]), "api": "tc", "simplify": False,
                   "intervals": bad, "desc": d, "malformed": True}

    def observe(self, case):
        d = case["desc"]
        s = d["scale"]
        tc = build(case)
        obs = {"in": dump(tc, s)}
        ctx0 = context(tc) if case.get("ctx") else None
        prov = bool(case.get("prov"))
        ivs = [[real(a, s), real(b, s)] for a, b in case["intervals"]]
        if "raw_intervals" in case:
            ivs = case["raw_intervals"]
        elif ivs and case.get("layout", "list") != "list":
            import numpy as np
            ivs = as_layout(ivs, case["layout"], np.float64)
        try:
            if case["api"] == "ts":
                ts = tc.tree_sequence()
                out = getattr(ts, case["op"])(ivs, simplify=case["simplify"], record_provenance=prov).dump_tables()
            else:
                getattr(tc, case["op"])(ivs, simplify=case["simplify"], record_provenance=prov)
                out = tc
        except Exception as e:      # noqa: BLE001
            obs["error"] = type(e).__name__
            obs["msg"] = str(e)[:100]
            return obs
        obs["out"] = dump(out, s)
        obs["valid"] = validity(out)
        finish(obs, case, ctx0, out)
        return obs

    @staticmethod
    def well_formed(ivs, P):
        last = 0
        for a, b in ivs:
            if a < 0 or b > P or b <= a or a < last:
                return False
            last = b
        return True

    def oracle(self, case, obs):
        fails = []
        inp = effective_input(case)
        op = case["op"]
        P = inp["L"]
        check_input(inp, obs, fails)
        ok = self.well_formed(case["intervals"], P) and "raw_intervals" not in case
        if not ok:
            if obs.get("error") != "ValueError":
                fails.append((op + ":malformed-intervals-accepted", "%r -> %r" % (case["intervals"], obs.get("error"))))
            return fails
        ins = (lambda x: in_ivs(case["intervals"], x)) if op == "keep_intervals" else \
              (lambda x: not in_ivs(case["intervals"], x))
        survives = lambda row: any(ins(x) for x in range(max(row[0], 0), min(row[1], P)))     # noqa: E731
        refused = case["simplify"] and (any(survives(g) for g in inp["migrations"])
                                        or any(e[4] and survives(e) for e in inp["edges"]))
        if refused:
            # documented: simplify must be False with migrations; simplify cannot process edge metadata
            if obs.get("error") != "LibraryError":
                fails.append((op + ":simplify-unsupported-input-accepted", "%r" % obs.get("error")))
            return fails
        if "error" in obs:
            fails.append((op + ":unexpected-error", "%s %s" % (obs["error"], obs.get("msg"))))
            return fails
        out = obs["out"]
        kept = case["intervals"] if op == "keep_intervals" else None
        inside = (lambda x: in_ivs(case["intervals"], x)) if op == "keep_intervals" else \
                 (lambda x: not in_ivs(case["intervals"], x))
        if obs["valid"] is not True:
            fails.append((op + ":result-invalid", str(obs["valid"])))
        if out["L"] != P:
            fails.append((op + ":sequence-length-changed", "%r" % out["L"]))
        check_context(op, case, obs, fails)
        n = len(inp["nodes"])
        keep_site = [inside(r[0]) for r in inp["sites"]]
        if not case["simplify"]:
            unchanged(op, ["nodes", "individuals", "populations"], inp, out, fails)
            for l, r, p, c, m in out["edges"]:
                if not (0 <= l < r <= P):
                    fails.append((op + ":bad-edge-interval", "%r" % [l, r, p, c]))
            for x in range(P):
                pin = cover_map(inp["edges"], x, n, [], op)
                pout = cover_map(out["edges"], x, n, fails, op)
                if inside(x):
                    if {c: v[0] for c, v in pin.items()} != {c: v[0] for c, v in pout.items()}:
                        fails.append((op + ":inside-parent-changed", "x2=%d in=%r out=%r" % (x, pin, pout)))
                    elif pin != pout:
                        fails.append((op + ":inside-edge-metadata-changed", "x2=%d in=%r out=%r" % (x, pin, pout)))
                    if mig_cover(inp["migrations"], x) != mig_cover(out["migrations"], x):
                        fails.append((op + ":inside-migration-changed", "x2=%d" % x))
                else:
                    if pout:
                        fails.append((op + ":outside-edge-remains", "x2=%d %r" % (x, pout)))
                    if mig_cover(out["migrations"], x):
                        fails.append((op + ":outside-migration-remains", "x2=%d" % x))
            es, em = site_mut_expect(inp["sites"], inp["mutations"], keep_site)
            cmp_rows(op, "sites", out["sites"], es, fails)
            cmp_rows(op, "mutations", out["mutations"], em, fails)
            return dedup(fails)
        # ---- simplify=True: nodes are renumbered; node metadata tags identify them --------
        tag = {r[4]: i for i, r in enumerate(inp["nodes"])}
        orig = []
        for r in out["nodes"]:
            if r[4] not in tag:
                fails.append((op + ":simplify-unknown-node", "%r" % r))
                return fails
            o = tag[r[4]]
            orig.append(o)
            if r[:2] != inp["nodes"][o][:2]:
                fails.append((op + ":simplify-node-row-changed", "%r vs %r" % (r, inp["nodes"][o])))
        s_in = samples_of(inp)
        s_out = samples_of(out)
        if [orig[u] for u in s_out] != s_in:
            fails.append((op + ":simplify-samples", "%r vs %r" % ([orig[u] for u in s_out], s_in)))
            return fails
        for x in range(P):
            pin = cover_map(inp["edges"], x, n, [], op)
            pout = cover_map(out["edges"], x, n, fails, op)
            if not inside(x):
                if pout:
                    fails.append((op + ":outside-edge-remains", "x2=%d %r" % (x, pout)))
                continue
            cin = {u: [u] + chain(pin, u) for u in s_in}
            cout = {orig[u]: [orig[v] for v in [u] + chain(pout, u)] for u in s_out}
            for u in s_in:
                if not is_subseq(cout[u], cin[u]):
                    fails.append((op + ":simplify-ancestry-not-preserved", "x2=%d sample %d: %r not within %r" % (x, u, cout[u], cin[u])))
            for a, b in itertools.combinations(s_in, 2):
                mi = next((v for v in cin[a] if v in cin[b]), None)
                mo = next((v for v in cout[a] if v in cout[b]), None)
                if mi != mo:
                    fails.append((op + ":simplify-mrca-changed", "x2=%d samples %d,%d: %r -> %r" % (x, a, b, mi, mo)))
        # sites: every output site is an inside input site, unchanged; genotypes preserved;
        # a dropped inside site carries no variation among the samples
        pos_in = {r[0]: i for i, r in enumerate(inp["sites"])}
        seen = set()
        last = -1
        for k, r in enumerate(out["sites"]):
            i = pos_in.get(r[0])
            if i is None or not keep_site[i]:
                fails.append((op + ":outside-site-remains", "%r" % r))
                continue
            if r != inp["sites"][i]:
                fails.append((op + ":sites", "site row changed %r vs %r" % (r, inp["sites"][i])))
            if i <= last:
                fails.append((op + ":sites", "site order changed"))
            last = i
            seen.add(i)
            gi = [genotype(inp, i, u, []) for u in s_in]
            go = [genotype(out, k, u, fails) for u in s_out]
            if gi != go:
                fails.append((op + ":simplify-genotypes-changed", "site %d: %r -> %r" % (i, gi, go)))
        for i, kp in enumerate(keep_site):
            if kp and i not in seen:
                gi = [genotype(inp, i, u, []) for u in s_in]
                if any(g != inp["sites"][i][1] for g in gi):
                    fails.append((op + ":simplify-variable-site-dropped", "site %d genotypes %r" % (i, gi)))
        for m in out["mutations"]:
            if not (0 <= m[0] < len(out["sites"])):
                fails.append((op + ":mutations", "dangling site reference"))
        return dedup(fails)

    def coq_check(self, case, obs):
        if case["simplify"] or "raw_intervals" in case:
            return None
        exp = q_expect(obs)
        if exp is None:
            return None
        fn = "keep_intervals_c" if case["op"] == "keep_intervals" else "delete_intervals_c"
        return with_prov("res_tables_eqb (%s %s %s) (canon_res %s)" % (fn, q_ivs(case["intervals"]), q_tables(obs["in"]), exp), case, obs, True)

    def nontrivial(self, case, obs):
        return bool(case["intervals"]) and bool(case["desc"]["edges"]) and "error" not in obs

    def describe(self, case, obs):
        d = case["desc"]
        return {"op": case["op"], "simplify": case["simplify"], "n_intervals": len(case["intervals"]),
                "edge_md": any(e[4] for e in d["edges"]), "migrations": len(d["migrations"]),
                "unknown_times": any(m[4] is None for m in d["mutations"]),
                "mut_parents": any(m[3] != NULL for m in d["mutations"]),
                "result": obs.get("error", "ok")}

    def shrink(self, case):
        for k in range(len(case["intervals"])):
            c = dict(case)
            c["intervals"] = case["intervals"][:k] + case["intervals"][k + 1:]
            yield c
        yield from shrink_case(case)


def dedup(fails):
    seen, out = set(), []
    for k, m in fails:
        if k not in seen:
            seen.add(k)
            out.append((k, m))
    return out


def check_input(inp, obs, fails):
    """The implementation's view of the input must be the description (sorted)."""
    o = obs["in"]
    for nm in ("nodes", "sites", "mutations", "individuals", "populations"):
        if o[nm] != inp[nm]:
            fails.append(("input-mismatch", "%s: %r vs %r" % (nm, o[nm], inp[nm])))
    for nm in ("edges", "migrations"):
        if sorted(o[nm]) != sorted(inp[nm]):
            fails.append(("input-mismatch", nm))


# ---------------------------------------------------------------------------
# ltrim / rtrim / trim
# ---------------------------------------------------------------------------

_TRIM_FACTS = []


def trim_facts():
    """Which variant of ltrim / _check_trim_conditions the source under test contains: the three
    booleans of translator/facts_c11.py, extracted (fail-closed) from the same tree the
    implementation was built from.  Passed to the model as arguments."""
    if not _TRIM_FACTS:
        import importlib.util
        import os
        import re
        from harness import common
        path = os.path.join(common.VERIF, "translator", "facts_c11.py")
        spec = importlib.util.spec_from_file_location("facts_c11", path)
        mod = importlib.util.module_from_spec(spec)
        spec.loader.exec_module(mod)

        def die(msg):
            raise RuntimeError(msg)
        lines = mod.facts(lambda rel: open(os.path.join(common.REPO, rel)).read(), die, None)
        vals = {}
        for ln in lines:
            m = re.match(r"Definition (\w+) : bool := (true|false)\.", ln)
            vals[m.group(1)] = m.group(2)
        _TRIM_FACTS.append((vals["C11_ltrim_passes_edge_metadata"], vals["C11_ltrim_passes_migration_metadata"],
                            vals["C11_trim_check_uses_or"]))
    return _TRIM_FACTS[0]


class Trim(Flagged):
    name = "trim"
    prelude = PRELUDE
    workers = 8

    def _generate(self, rng, tier):
        nd = 500 if tier == "quick" else 3500
        for k in range(nd):
            d = make_desc(rng, migrations=(rng.random() < 0.5))
            L = d["L"]
            if rng.random() < 0.8 and L >= 2:
                a = rng.randrange(0, L)
                b = rng.randrange(a + 1, L + 1)
                d2 = clip_desc(d, a, b)
                if d2["edges"] or rng.random() < 0.1:
                    d = d2
            if d["migrations"] and d["edges"] and rng.random() < 0.6:
                lo = min(e[0] for e in d["edges"])
                hi = max(e[1] for e in d["edges"])
                for m in d["migrations"]:          # most cases: migrations within the edge span
                    m[0], m[1] = max(m[0], lo), min(m[1], hi)
                d["migrations"] = [m for m in d["migrations"] if m[0] < m[1]]
            for op in ("ltrim", "rtrim", "trim"):
                yield {"op": op, "api": rng.choice(["tc", "ts"]), "desc": d}

    def observe(self, case):
        d = case["desc"]
        s = d["scale"]
        tc = build(case)
        obs = {"in": dump(tc, s)}
        ctx0 = context(tc) if case.get("ctx") else None
        prov = bool(case.get("prov"))
        try:
            if case["api"] == "ts":
                ts = tc.tree_sequence()
                out = getattr(ts, case["op"])(record_provenance=prov).dump_tables()
            else:
                getattr(tc, case["op"])(record_provenance=prov)
                out = tc
        except Exception as e:      # noqa: BLE001
            obs["error"] = type(e).__name__
            obs["msg"] = str(e)[:100]
            if case["api"] == "ts" and obs["error"] == "LibraryError":
                # TreeSequence.<op> = TableCollection.<op> + tables.tree_sequence(); the model is of
                # the TableCollection method, so record what that produced before validation failed
                tc2 = build(case)
                try:
                    getattr(tc2, case["op"])(record_provenance=False)
                    obs["tc_out"] = dump_raw(tc2, s)
                except Exception as e2:      # noqa: BLE001
                    obs["tc_error"] = type(e2).__name__
            return obs
        obs["out"] = dump(out, s)
        obs["valid"] = validity(out)
        finish(obs, case, ctx0, out)
        return obs

    def oracle(self, case, obs):
        fails = []
        inp = effective_input(case)
        op = case["op"]
        check_input(inp, obs, fails)
        if not inp["edges"]:
            if obs.get("error") != "ValueError":
                fails.append((op + ":no-edges-accepted", "%r" % obs.get("error")))
            return fails
        lo = min(e[0] for e in inp["edges"])
        hi = max(e[1] for e in inp["edges"])
        mig_left = any(g[0] < lo for g in inp["migrations"])
        mig_right = any(g[1] > hi for g in inp["migrations"])
        must_raise = (op in ("ltrim", "trim") and mig_left) or (op in ("rtrim", "trim") and mig_right)
        if must_raise:
            # documented: "Cannot trim a tree sequence with migrations which exist to the left of
            # the leftmost edge or to the right of the rightmost edge."
            if obs.get("error") != "ValueError":
                fails.append((op + ":migration-outside-edges-accepted",
                              "migration beyond the edge span [%d,%d): got %r, valid=%r"
                              % (lo, hi, obs.get("error", "no error"), obs.get("valid"))))
            return fails
        if "error" in obs:
            if obs["error"] == "ValueError" and (mig_left or mig_right):
                return fails        # the other flank: the documented refusal is acceptable
            fails.append((op + ":unexpected-error", "%s %s" % (obs["error"], obs.get("msg"))))
            return fails
        out = obs["out"]
        d = lo if op in ("ltrim", "trim") else 0
        top = hi if op in ("rtrim", "trim") else inp["L"]
        if obs["valid"] is not True:
            fails.append((op + ":result-invalid", str(obs["valid"])))
        if out["L"] != top - d:
            fails.append((op + ":sequence-length", "%r expected %r" % (out["L"], top - d)))
        check_context(op, case, obs, fails)
        unchanged(op, ["nodes", "individuals", "populations"], inp, out, fails)
        ee = [[l - d, r - d, p, c, m] for l, r, p, c, m in inp["edges"]]
        if sorted(out["edges"]) != sorted(ee):
            if sorted(strip_md(out["edges"])) == sorted(strip_md(ee)):
                fails.append((op + ":edge-metadata-dropped", "edge rows shifted correctly but metadata differs: %r vs %r"
                              % (sorted(out["edges"])[:3], sorted(ee)[:3])))
            else:
                fails.append((op + ":edges", "%r vs %r" % (sorted(out["edges"]), sorted(ee))))
        eg = [[g[0] - d, g[1] - d] + g[2:] for g in inp["migrations"]]
        if sorted(out["migrations"]) != sorted(eg):
            if sorted(strip_md(out["migrations"])) == sorted(strip_md(eg)):
                fails.append((op + ":migration-metadata-dropped", "migration rows shifted correctly but metadata differs"))
            else:
                fails.append((op + ":migrations", "%r vs %r" % (sorted(out["migrations"]), sorted(eg))))
        keep_site = [d <= r[0] < top for r in inp["sites"]]
        es, em = site_mut_expect(inp["sites"], inp["mutations"], keep_site)
        es = [[r[0] - d, r[1], r[2]] for r in es]
        cmp_rows(op, "sites", out["sites"], es, fails)
        cmp_rows(op, "mutations", out["mutations"], em, fails)
        n = len(inp["nodes"])
        for x in range(d, top):
            pin = {c: v[0] for c, v in cover_map(inp["edges"], x, n, [], op).items()}
            pout = {c: v[0] for c, v in cover_map(out["edges"], x - d, n, fails, op).items()}
            if pin != pout:
                fails.append((op + ":topology-changed", "x2=%d" % x))
        return dedup(fails)

    def coq_check(self, case, obs):
        if "tc_out" in obs:
            exp = "(Ok %s)" % q_tables(obs["tc_out"])
        elif "tc_error" in obs:
            return None
        else:
            exp = q_expect(obs)
        if exp is None:
            return None
        emd, gmd, cf = trim_facts()
        flags = {"ltrim": "%s %s %s" % (emd, gmd, cf), "rtrim": cf, "trim": "%s %s %s" % (emd, gmd, cf)}[case["op"]]
        return with_prov("res_tables_eqb (%s_c %s %s) %s" % (case["op"], flags, q_tables(obs["in"]), exp), case, obs, True)

    def nontrivial(self, case, obs):
        d = case["desc"]
        return bool(d["edges"]) and "error" not in obs and \
            (min(e[0] for e in d["edges"]) > 0 or max(e[1] for e in d["edges"]) < d["L"])

    def describe(self, case, obs):
        d = case["desc"]
        return {"op": case["op"], "edge_md": any(e[4] for e in d["edges"]), "migrations": len(d["migrations"]),
                "sites": len(d["sites"]), "result": obs.get("error", "ok")}

    def shrink(self, case):
        yield from shrink_case(case)


# ---------------------------------------------------------------------------
# delete_sites
# ---------------------------------------------------------------------------

class DelSites(Flagged):
    name = "delsites"
    prelude = PRELUDE
    workers = 8

    def _generate(self, rng, tier):
        nd = 100 if tier == "quick" else 700
        for _ in range(nd):
            d = make_desc(rng, max_sites=5)
            ns = len(d["sites"])
            lists = [[]]
            if ns <= 4:
                for k in range(1, ns + 1):
                    lists += [list(c) for c in itertools.combinations(range(ns), k)]
            for _ in range(4):
                lists.append([rng.randrange(ns) for _ in range(rng.randrange(1, 6))] if ns else [])
            lists.append([ns])
            lists.append([-1])
            if ns:
                lists.append([0, ns + 1])
                lists.append(list(reversed(range(ns))))
            for ids in lists:
                yield {"op": "delete_sites", "api": rng.choice(["tc", "ts"]), "ids": ids, "desc": d}

    def observe(self, case):
        d = case["desc"]
        s = d["scale"]
        tc = build(case)
        obs = {"in": dump(tc, s)}
        ctx0 = context(tc) if case.get("ctx") else None
        prov = bool(case.get("prov"))
        ids = case["ids"]
        if ids and case.get("layout", "list") != "list":
            import numpy as np
            ids = as_layout(ids, case["layout"], np.int32)
        try:
            if case["api"] == "ts":
                out = tc.tree_sequence().delete_sites(ids, record_provenance=prov).dump_tables()
            else:
                tc.delete_sites(ids, record_provenance=prov)
                out = tc
        except Exception as e:      # noqa: BLE001
            obs["error"] = type(e).__name__
            obs["msg"] = str(e)[:100]
            return obs
        obs["out"] = dump(out, s)
        obs["valid"] = validity(out)
        finish(obs, case, ctx0, out)
        return obs

    def oracle(self, case, obs):
        fails = []
        inp = effective_input(case)
        check_input(inp, obs, fails)
        ns = len(inp["sites"])
        ids = case["ids"]
        if any(i < 0 or i >= ns for i in ids):
            if obs.get("error") != "ValueError":
                fails.append(("delete_sites:out-of-range-id-accepted", "%r -> %r" % (ids, obs.get("error"))))
            return fails
        if "error" in obs:
            fails.append(("delete_sites:unexpected-error", "%s %s" % (obs["error"], obs.get("msg"))))
            return fails
        out = obs["out"]
        op = "delete_sites"
        if obs["valid"] is not True:
            fails.append((op + ":result-invalid", str(obs["valid"])))
        if out["L"] != inp["L"]:
            fails.append((op + ":sequence-length-changed", ""))
        check_context(op, case, obs, fails)
        unchanged(op, ["nodes", "individuals", "populations"], inp, out, fails)
        cmp_rows(op, "edges-changed", out["edges"], obs["in"]["edges"], fails)
        cmp_rows(op, "migrations-changed", out["migrations"], obs["in"]["migrations"], fails)
        keep = [i not in ids for i in range(ns)]
        es, em = site_mut_expect(inp["sites"], inp["mutations"], keep)
        cmp_rows(op, "sites", out["sites"], es, fails)
        cmp_rows(op, "mutations", out["mutations"], em, fails)
        return dedup(fails)

    def coq_check(self, case, obs):
        exp = q_expect(obs)
        if exp is None:
            return None
        return with_prov("res_tables_eqb (delete_sites_c %s %s) %s" % (clist(case["ids"]), q_tables(obs["in"]), exp), case, obs, True)

    def nontrivial(self, case, obs):
        return bool(case["ids"]) and "error" not in obs and bool(case["desc"]["mutations"])

    def describe(self, case, obs):
        return {"n_ids": len(case["ids"]), "dups": len(set(case["ids"])) != len(case["ids"]),
                "mut_parents": any(m[3] != NULL for m in case["desc"]["mutations"]),
                "result": obs.get("error", "ok")}

    def shrink(self, case):
        for k in range(len(case["ids"])):
            c = dict(case)
            c["ids"] = case["ids"][:k] + case["ids"][k + 1:]
            yield c
        yield from shrink_case(case)


# ---------------------------------------------------------------------------
# split_edges / decapitate / delete_older
# ---------------------------------------------------------------------------

def cut_times(d):
    """doubled cut-off times: below, at and above every node / mutation time."""
    ts = set()
    for r in d["nodes"]:
        ts.add(int(2 * r[1]))
    for m in d["mutations"]:
        if m[4] is not None:
            ts.add(int(round(2 * m[4])))
    for g in d["migrations"]:
        ts.add(int(round(2 * g[5])))
    out = set()
    for t in ts:
        out.update([t - 1, t, t + 1])
    return sorted(out) or [0]


class TimeCut(Flagged):
    name = "timecut"
    prelude = PRELUDE
    workers = 8

    def _generate(self, rng, tier):
        nd = 80 if tier == "quick" else 800
        for k in range(nd):
            mig = rng.random() < 0.25
            d = make_desc(rng, migrations=mig)
            if rng.random() < 0.2:
                d = extend_pattern(rng)            # chains of unary nodes, by-passed / re-used per tree
                mig = False
            npop = len(d["populations"])
            for t2 in cut_times(d):
                for op in ("split_edges", "decapitate", "delete_older"):
                    if mig and op != "delete_older" and rng.random() < 0.7:
                        continue
                    c = {"op": op, "time2": t2, "desc": d}
                    if op != "delete_older":
                        if rng.random() < 0.5:
                            c["flags"] = rng.choice([0, 1, 2, 1 << 20])
                        if rng.random() < 0.5:
                            c["population"] = rng.choice(list(range(-1, npop)) + [npop, -2])
                        if rng.random() < 0.5:
                            c["metadata"] = gen_ts.hx(rng, p=1.0)
                    else:
                        c["sorted"] = rng.random() < 0.6
                    yield c

    def observe(self, case):
        d = case["desc"]
        s = d["scale"]
        op = case["op"]
        t = case["time2"] / 2
        if op == "delete_older":
            tc = build(case, sort=case["sorted"], index=case["sorted"])
            obs = {"in": dump(tc, s)}
            ctx0 = context(tc) if case.get("ctx") else None
            try:
                tc.delete_older(t)
            except Exception as e:      # noqa: BLE001
                obs["error"] = type(e).__name__
                obs["msg"] = str(e)[:100]
                return obs
            obs["out"] = dump(tc, s)
            if case["sorted"]:
                obs["valid"] = validity(tc)
            finish(obs, case, ctx0, tc)
            return obs
        tc = build(case)
        obs = {"in": dump(tc, s)}
        ctx0 = context(tc) if case.get("ctx") else None
        kw = {}
        if "flags" in case:
            kw["flags"] = case["flags"]
        if "population" in case:
            kw["population"] = case["population"]
        if "metadata" in case:
            kw["metadata"] = bytes.fromhex(case["metadata"])
        try:
            ts = tc.tree_sequence()
            out = getattr(ts, op)(t, **kw).dump_tables()
        except Exception as e:      # noqa: BLE001
            obs["error"] = type(e).__name__
            obs["msg"] = str(e)[:100]
            return obs
        obs["out"] = dump(out, s)
        obs["valid"] = validity(out)
        finish(obs, case, ctx0, out)
        return obs

    def oracle(self, case, obs):
        fails = []
        inp = effective_input(case)
        op = case["op"]
        t = case["time2"]
        if op == "delete_older" and not case["sorted"]:
            if obs["in"]["edges"] != inp["edges"] or obs["in"]["mutations"] != inp["mutations"]:
                fails.append(("input-mismatch", "unsorted input changed"))
        else:
            check_input(inp, obs, fails)
        nodes = inp["nodes"]
        N = len(nodes)
        tm = lambda u: nodes[u][1]      # noqa: E731
        if op == "delete_older":
            if "error" in obs:
                fails.append((op + ":unexpected-error", "%s %s" % (obs["error"], obs.get("msg"))))
                return fails
            out = obs["out"]
            check_context(op, case, obs, fails, has_prov_arg=False)
            unchanged(op, ["nodes", "individuals", "populations", "sites"], inp, out, fails)
            if out["L"] != inp["L"]:
                fails.append((op + ":sequence-length-changed", ""))
            ine = obs["in"]["edges"]
            cmp_rows(op, "edges", out["edges"], [e for e in ine if tm(e[2]) <= t], fails)
            cmp_rows(op, "migrations", out["migrations"], [g for g in obs["in"]["migrations"] if g[5] < t], fails)
            keep = [mut_time(m, nodes) < t for m in inp["mutations"]]
            cmp_rows(op, "mutations", out["mutations"], mut_filter_expect(inp["mutations"], keep), fails)
            if case["sorted"] and obs.get("valid") is not True:
                fails.append((op + ":result-invalid", str(obs.get("valid"))))
            return dedup(fails)
        # split_edges / decapitate
        flags = case.get("flags", 0)
        pop = case.get("population", NULL)
        md = case.get("metadata", "7b7d" if case.get("ctx") else "")
        if inp["migrations"] or pop < -1 or pop >= len(inp["populations"]):
            if obs.get("error") not in ("LibraryError", "ValueError"):
                fails.append((op + ":unsupported-input-accepted", "%r" % obs.get("error")))
            return fails
        if "error" in obs:
            fails.append((op + ":unexpected-error", "%s %s" % (obs["error"], obs.get("msg"))))
            return fails
        out = obs["out"]
        if obs["valid"] is not True:
            fails.append((op + ":result-invalid", str(obs["valid"])))
        if out["L"] != inp["L"]:
            fails.append((op + ":sequence-length-changed", ""))
        check_context(op, case, obs, fails, has_prov_arg=False)
        unchanged(op, ["individuals", "populations", "sites", "migrations"], inp, out, fails)
        cmp_rows(op, "old-node-rows-changed", out["nodes"][:N], nodes, fails)
        for r in out["nodes"][N:]:
            if r != [flags, t, pop, NULL, md]:
                fails.append((op + ":new-node-row", "%r expected %r" % (r, [flags, t, pop, NULL, md])))
        S = [e for e in inp["edges"] if tm(e[3]) < t < tm(e[2])]
        if len(out["nodes"]) - N != len(S):
            fails.append((op + ":new-node-count", "%d new nodes for %d intersecting edges" % (len(out["nodes"]) - N, len(S))))
            return dedup(fails)
        oe = out["edges"]
        lower = {}
        upper = {}
        plain = []
        for e in oe:
            if e[2] >= N and e[3] >= N:
                fails.append((op + ":edges", "edge between two new nodes %r" % e))
            elif e[2] >= N:
                lower.setdefault(e[2], []).append(e)
            elif e[3] >= N:
                upper.setdefault(e[3], []).append(e)
            else:
                plain.append(e)
        new_of = {}          # (l, r, child) -> new node
        rec = []
        for u in range(N, len(out["nodes"])):
            lo = lower.get(u, [])
            up = upper.get(u, [])
            if len(lo) != 1 or len(up) != (1 if op == "split_edges" else 0):
                fails.append((op + ":edges", "new node %d has %d child edges, %d parent edges" % (u, len(lo), len(up))))
                continue
            l, r, _u, c, m = lo[0]
            new_of[(l, r, c)] = u
            if op == "split_edges":
                l2, r2, p, _u2, m2 = up[0]
                if (l, r, m) != (l2, r2, m2):
                    fails.append((op + ":edges", "halves differ: %r %r" % (lo[0], up[0])))
                rec.append([l, r, p, c, m])
            else:
                rec.append([l, r, c, m])
        if op == "split_edges":
            if sorted(rec) != sorted(S):
                fails.append((op + ":edges", "split edges %r expected %r" % (sorted(rec), sorted(S))))
            rest = [e for e in inp["edges"] if not (tm(e[3]) < t < tm(e[2]))]
            if sorted(plain) != sorted(rest):
                fails.append((op + ":edges-at-or-off-cut-changed", "%r vs %r" % (sorted(plain), sorted(rest))))
        else:
            if sorted(rec) != sorted([e[0], e[1], e[3], e[4]] for e in S):
                fails.append((op + ":edges", "broken edges %r expected from %r" % (sorted(rec), sorted(S))))
            rest = [e for e in inp["edges"] if tm(e[2]) <= t]
            if sorted(plain) != sorted(rest):
                fails.append((op + ":edges-below-cut-changed", "%r vs %r" % (sorted(plain), sorted(rest))))
            for e in oe:
                if out["nodes"][e[3]][1] >= t or out["nodes"][e[2]][1] > t:
                    fails.append((op + ":edge-at-or-above-cut-remains", "%r" % e))
        # ancestry below the cut-off unchanged, by the definition, at every lattice point
        for x in range(inp["L"]):
            pin = cover_map(inp["edges"], x, N, [], op)
            pout = cover_map(oe, x, N, fails, op)
            for c in range(N):
                a = pin.get(c)
                b = pout.get(c)
                if a is None:
                    exp = None
                elif tm(a[0]) <= t or (op == "split_edges" and not (tm(c) < t)):
                    exp = a
                elif tm(c) < t:
                    exp = "new"
                else:
                    exp = None
                if exp == "new":
                    ok = b is not None and b[0] >= N and b[1] == a[1]
                    if ok and op == "split_edges":
                        ok = pout.get(b[0]) == a
                    if not ok:
                        fails.append((op + ":ancestry", "x2=%d child %d: in %r out %r" % (x, c, a, b)))
                elif b != exp:
                    fails.append((op + ":ancestry", "x2=%d child %d: in %r out %r expected %r" % (x, c, a, b, exp)))
        # mutations
        ms = inp["mutations"]
        exp = []
        for m in ms:
            pos = inp["sites"][m[0]][0]
            pin = cover_map(inp["edges"], pos, N, [], op)
            a = pin.get(m[1])
            mt = mut_time(m, nodes)
            node = m[1]
            if a is not None and tm(m[1]) < t < tm(a[0]) and mt >= t:
                e = next(e for e in inp["edges"] if e[3] == m[1] and e[0] <= pos < e[1])
                node = new_of.get((e[0], e[1], e[3]), "missing-new-node")
            exp.append([m[0], node, m[2], m[3], m[4], m[5]])
        if op == "split_edges":
            cmp_rows(op, "mutations", out["mutations"], exp, fails)
        else:
            keep = [mut_time(m, nodes) < t for m in ms]
            cmp_rows(op, "mutations", out["mutations"], mut_filter_expect(ms, keep), fails)
        return dedup(fails)

    def coq_check(self, case, obs):
        exp = q_expect(obs)
        if exp is None:
            return None
        op = case["op"]
        if op == "delete_older":
            return with_prov("res_tables_eqb (delete_older_c %s %s) %s" % (cz(case["time2"]), q_tables(obs["in"]), exp), case, obs, False)
        npop = len(case["desc"]["populations"])
        return with_prov("res_tables_eqb (%s_c %s %s %s %s %s %s) (canon_res %s)" % (
            op, cz(case["time2"]), cz(case.get("flags", 0)), cz(case.get("population", NULL)),
            hexl(case.get("metadata", "7b7d" if case.get("ctx") else "")), cz(npop), q_tables(obs["in"]), exp), case, obs, False)

    def nontrivial(self, case, obs):
        if "error" in obs:
            return False
        return obs["out"]["edges"] != obs["in"]["edges"] or obs["out"]["mutations"] != obs["in"]["mutations"]

    def describe(self, case, obs):
        d = case["desc"]
        nodes = d["nodes"]
        t = case["time2"] / 2
        rel = "at-node-time" if any(r[1] == t for r in nodes) else "off-node-time"
        return {"op": case["op"], "cut": rel, "unknown_times": any(m[4] is None for m in d["mutations"]),
                "migrations": bool(d["migrations"]), "result": obs.get("error", "ok"),
                "new_nodes": (len(obs["out"]["nodes"]) - len(nodes)) if "out" in obs else -1}

    def shrink(self, case):
        yield from shrink_case(case)


def mut_filter_expect(ms, keep):
    """delete_older: retained mutation rows, parents remapped; a parent that is itself
    removed becomes NULL."""
    mmap, k = {}, 0
    for j, kp in enumerate(keep):
        if kp:
            mmap[j] = k
            k += 1
    return [[m[0], m[1], m[2], NULL if m[3] == NULL else mmap.get(m[3], NULL), m[4], m[5]]
            for j, m in enumerate(ms) if keep[j]]


# ---------------------------------------------------------------------------
# extend_haplotypes: spec level only
# ---------------------------------------------------------------------------

def extend_pattern(rng):
    """Structured input for extend_haplotypes: a random tree with unary nodes on one side of a
    breakpoint and the same tree with some unary nodes by-passed on the other side, sites on
    both sides, mutations with times anywhere on their branch (so that extension makes
    mutations slide onto the inserted node)."""
    ns = rng.randrange(2, 5)
    ni = rng.randrange(2, 6)
    n = ns + ni
    times = [0] * ns + sorted(rng.randrange(1, 6) for _ in range(ni))
    for i in range(ns + 1, n):                      # strictly increasing internal times
        if times[i] <= times[i - 1]:
            times[i] = times[i - 1] + 1
    nodes = [[1 if i < ns or rng.random() < 0.08 else 0, times[i], NULL, NULL, bytes([i]).hex()] for i in range(n)]
    parent = [NULL] * n
    for u in range(n - 1):
        older = [v for v in range(ns, n) if times[v] > times[u]]
        if older and rng.random() < 0.9:
            parent[u] = older[min(int(rng.expovariate(0.9)), len(older) - 1)]
    L = rng.randrange(2, 7)
    bps = sorted(rng.sample(range(1, L), rng.randrange(1, min(L, 4))))
    segs = list(zip([0] + bps, bps + [L]))
    forests = []
    for k in range(len(segs)):
        par = list(parent)
        for _ in range(rng.randrange(0, 3)):        # by-pass a node on this segment ...
            cand = [v for v in range(ns, n) if par[v] != NULL and any(par[c] == v for c in range(n))]
            if not cand:
                break
            v = rng.choice(cand)
            for c in range(n):
                if par[c] == v:
                    par[c] = par[v]
            par[v] = NULL
            if rng.random() < 0.5:
                # ... and use it somewhere else in this tree (unary above another node, possibly as
                # a new root), so that it cannot be extended into this segment: edges are then
                # lengthened / shortened without any edge disappearing
                spots = [c for c in range(n) if c != v and times[c] < times[v]
                         and (par[c] == NULL or times[par[c]] > times[v])]
                if spots:
                    c = rng.choice(spots)
                    par[v] = par[c] if rng.random() < 0.7 else NULL
                    par[c] = v
        forests.append(par)
    edges = []
    for u in range(n):
        k = 0
        while k < len(segs):
            p = forests[k][u]
            if p == NULL:
                k += 1
                continue
            j = k
            while j + 1 < len(segs) and forests[j + 1][u] == p:
                j += 1
            edges.append([segs[k][0], segs[j][1], p, u, ""])
            k = j + 1
    rng.shuffle(edges)
    cand = sorted(rng.sample(range(2 * L), min(2 * L, rng.randrange(1, 5))))
    sites = [[p2 / 2 if p2 % 2 else p2 // 2, rng.choice("ACGT"), gen_ts.hx(rng)] for p2 in cand]
    muts = []
    for si, (pos, _a, _m) in enumerate(sites):
        k = max(i for i, (a, b) in enumerate(segs) if a <= pos)
        par = forests[k]
        chosen = sorted(set(rng.randrange(n) for _ in range(rng.randrange(0, 4))), key=lambda u: -times[u])
        rows = []
        for u in chosen:
            if par[u] == NULL and not any(par[c] == u for c in range(n)) and rng.random() < 0.8:
                continue                            # mostly avoid nodes absent from this tree (F15 class)
            hi = times[par[u]] - 0.5 if par[u] != NULL else times[u] + 1
            t = times[u] + rng.randrange(0, int(round((hi - times[u]) * 2)) + 1) / 2
            rows.append([si, u, rng.choice("ACGT"), NULL, t, gen_ts.hx(rng)])
        rows.sort(key=lambda m: -m[4])
        base = len(muts)
        for idx, m in enumerate(rows):              # parent = nearest mutation above on the path
            v, best = m[1], NULL
            hops = 0
            while v != NULL and hops < 100:
                ab = [j for j in range(idx) if rows[j][1] == v and (v != m[1] or True)]
                if ab:
                    best = base + ab[-1]
                    break
                v = par[v]
                hops += 1
            m[3] = best
        muts += rows
    d = {"L": L, "scale": rng.choice([1, 0.5, 2.5]), "nodes": nodes, "edges": edges, "sites": sites,
         "mutations": muts, "individuals": [], "populations": [], "migrations": []}
    return gen_ts.permute_node_ids(rng, d, p=0.5)[0]


def extend_partial(rng):
    """Extension over PART of an edge's span: a unary node n sits on the c--P path in one tree,
    c hangs directly below P in the next two, and in the last of them n is in use elsewhere
    (so it cannot be extended there).  The edge P->c shrinks instead of disappearing (the number
    of edges is unchanged) and mutations above c older than n must move onto n.  Randomised in
    times, extra samples / bystander nodes, where n is re-used, orientation, sites and times."""
    k_extra = rng.randrange(0, 3)
    tn = rng.randrange(1, 4)
    tP = tn + rng.randrange(1, 4)
    tR = tP + rng.randrange(1, 3)
    # ids: 0 = c, 1 = d, 2.. = extra samples, then n, P, R
    ns = 2 + k_extra
    n, P, R = ns, ns + 1, ns + 2
    nodes = [[1, 0, NULL, NULL, bytes([i]).hex()] for i in range(ns)]
    nodes += [[0, tn, NULL, NULL, "6e"], [0, tP, NULL, NULL, "50"], [0, tR, NULL, NULL, "52"]]
    a = rng.randrange(1, 4)
    b = a + rng.randrange(1, 4)
    L = b + rng.randrange(1, 4)
    reuse_root = rng.random() < 0.5          # in the third tree n hangs below R, or is a root itself
    edges = [[0, a, n, 0, ""], [0, a, P, n, ""], [a, L, P, 0, ""],
             [0, b, P, 1, ""], [b, L, n, 1, ""]]
    if reuse_root:
        edges.append([b, L, R, n, ""])
    for x in range(2, ns):
        edges.append([0, L, rng.choice([P, P, R]), x, ""])
    if rng.random() < 0.5:
        edges.append([0, L, R, P, ""])
    # sites: at least one inside [a, b) carrying a mutation above c that is at least as old as n
    pos2 = sorted(set([2 * a + rng.randrange(0, 2 * (b - a))] +
                      [rng.randrange(0, 2 * L) for _ in range(rng.randrange(0, 4))]))
    sites = [[p2 / 2 if p2 % 2 else p2 // 2, rng.choice("ACGT"), gen_ts.hx(rng)] for p2 in pos2]
    muts = []
    for si, (pos, _a, _m) in enumerate(sites):
        if a <= pos < b:
            t = tn + rng.randrange(0, 2 * (tP - tn)) / 2          # in [tn, tP)
            muts.append([si, 0, rng.choice("ACGT"), NULL, t, gen_ts.hx(rng)])
            if rng.random() < 0.4:                                 # a younger one below it
                muts.append([si, 0, rng.choice("ACGT"), len(muts) - 1, rng.randrange(0, 2 * tn) / 2, ""])
        elif rng.random() < 0.6:
            u = rng.randrange(0, ns)
            muts.append([si, u, rng.choice("ACGT"), NULL, rng.choice([0, 0.5]), gen_ts.hx(rng)])
    d = {"L": L, "scale": rng.choice([1, 0.5, 2.5]), "nodes": nodes, "edges": edges, "sites": sites,
         "mutations": muts, "individuals": [], "populations": [], "migrations": []}
    if rng.random() < 0.5:                                         # mirror image (reverse direction)
        d["edges"] = [[L - r, L - l, p, c, m] for l, r, p, c, m in edges]
        new_pos = [L - 0.5 - s_[0] for s_ in sites]
        order = sorted(range(len(sites)), key=lambda i: new_pos[i])
        remap = {old: new for new, old in enumerate(order)}
        d["sites"] = [[int(new_pos[i]) if new_pos[i] == int(new_pos[i]) else new_pos[i], sites[i][1], sites[i][2]]
                      for i in order]
        ms = [[remap[m[0]]] + m[1:] for m in muts]
        idx = sorted(range(len(ms)), key=lambda j: (ms[j][0], -ms[j][4]))
        nid = {old: new for new, old in enumerate(idx)}
        d["mutations"] = [ms[j][:3] + [NULL if ms[j][3] == NULL else nid[ms[j][3]]] + ms[j][4:] for j in idx]
    rng.shuffle(d["edges"])
    return gen_ts.permute_node_ids(rng, d, p=0.5)[0]


class Extend(Flagged):
    name = "extend"
    workers = 8

    def _generate(self, rng, tier):
        nd = 800 if tier == "quick" else 10000
        for k in range(nd):
            d = make_desc(rng, migrations=(rng.random() < 0.05), edge_md=False,
                          unknown_times=(rng.random() < 0.1), max_nodes=8, max_L=6)
            yield {"op": "extend_haplotypes", "max_iter": rng.choice([1, 2, 10, 10, 10, 10, 10, 0, -1]), "desc": d}
        for k in range(nd):
            yield {"op": "extend_haplotypes", "max_iter": rng.choice([1, 2, 10, 10, 10]), "desc": extend_pattern(rng)}
        for k in range(nd // 2):
            yield {"op": "extend_haplotypes", "max_iter": rng.choice([1, 2, 10, 10, 10]), "desc": extend_partial(rng)}

    def observe(self, case):
        d = case["desc"]
        s = d["scale"]
        tc = build(case)
        obs = {"in": dump(tc, s)}
        ctx0 = context(tc) if case.get("ctx") else None
        try:
            ts = tc.tree_sequence()
            out_ts = ts.extend_haplotypes(max_iter=case["max_iter"])
        except Exception as e:      # noqa: BLE001
            obs["error"] = type(e).__name__
            obs["msg"] = str(e)[:100]
            return obs
        out = out_ts.dump_tables()
        obs["out"] = dump(out, s)
        obs["valid"] = validity(out)
        finish(obs, case, ctx0, out)
        # differential part: simplify(result) == simplify(original)
        try:
            a = ts.simplify().dump_tables()
            b = out_ts.simplify().dump_tables()
            a.provenances.clear()
            b.provenances.clear()
            da, db = dump(a, s), dump(b, s)
            da["edges"].sort()
            db["edges"].sort()
            obs["simplify_equal"] = da == db
            if da != db:
                obs["simplify_diff"] = [k for k in da if da[k] != db[k]]
        except Exception as e:      # noqa: BLE001
            obs["simplify_equal"] = "%s: %s" % (type(e).__name__, str(e)[:80])
        return obs

    def oracle(self, case, obs):
        fails = []
        op = "extend_haplotypes"
        inp = rows_of_desc(case["desc"])
        check_input(inp, obs, fails)
        unknown = any(m[4] is None for m in inp["mutations"])
        if case["max_iter"] <= 0 or inp["migrations"] or unknown:
            # documented: requires known mutation times; migrations unsupported; max_iter >= 1
            if obs.get("error") not in ("LibraryError", "ValueError"):
                fails.append((op + ":unsupported-input-accepted", "%r" % obs.get("error")))
            return fails
        if "error" in obs:
            fails.append((op + ":unexpected-error", "%s %s" % (obs["error"], obs.get("msg"))))
            return fails
        out = obs["out"]
        if obs["valid"] is not True:
            fails.append((op + ":result-invalid", str(obs["valid"])))
        if out["L"] != inp["L"]:
            fails.append((op + ":sequence-length-changed", ""))
        check_context(op, case, obs, fails, has_prov_arg=False)
        unchanged(op, ["nodes", "individuals", "populations", "sites", "migrations"], inp, out, fails)
        strip = lambda ms: [[m[0], m[2], m[3], m[4], m[5]] for m in ms]     # noqa: E731
        cmp_rows(op, "mutation-fields-other-than-node-changed", strip(out["mutations"]), strip(inp["mutations"]), fails)
        S = samples_of(inp)
        N = len(inp["nodes"])
        # input class of finding F15: a mutation above a node that is absent from the marginal
        # tree at its site (neither child nor parent of a covering edge)
        absent = set()
        for m in inp["mutations"]:
            pos = inp["sites"][m[0]][0]
            if not any(e[0] <= pos < e[1] and m[1] in (e[2], e[3]) for e in inp["edges"]):
                absent.add(m[0])
        for i in range(len(inp["sites"])):
            gi = [genotype(inp, i, u, []) for u in S]
            go = [genotype(out, i, u, fails) for u in S]
            if gi != go:
                fails.append((op + ":genotypes-changed" + (":mutation-on-absent-node" if i in absent else ""),
                              "site %d: %r -> %r" % (i, gi, go)))
        for x in range(inp["L"]):
            pin = cover_map(inp["edges"], x, N, [], op)
            pout = cover_map(out["edges"], x, N, fails, op)
            cin = {u: [u] + chain(pin, u) for u in S}
            cout = {u: [u] + chain(pout, u) for u in S}
            for u in S:
                if not is_subseq(cin[u], cout[u]):
                    fails.append((op + ":ancestor-removed", "x2=%d sample %d: %r -> %r" % (x, u, cin[u], cout[u])))
                for v in cout[u][1:]:
                    if v not in cin[u] and inp["nodes"][v][0] & 1:
                        pass        # an inserted sample would show up in the simplify comparison
            for a, b in itertools.combinations(S, 2):
                mi = next((v for v in cin[a] if v in cin[b]), None)
                mo = next((v for v in cout[a] if v in cout[b]), None)
                if mi != mo:
                    fails.append((op + ":mrca-changed", "x2=%d samples %d,%d: %r -> %r" % (x, a, b, mi, mo)))
            # (the docstring sentence "edges whose child node is a sample are not modified" does not
            #  describe the code, which only refuses to *insert* a sample; not part of the property)
        # hypotheses of theorem extend_preserves_genotype (C11/ExtendSpec.v), checked on the output:
        # at every site position each node of the input tree keeps its input parent as an ancestor,
        # what is inserted in between is a run of nodes absent from the input tree, each inserted in
        # one place only, and every mutation sits where the slide loop (climb) puts it
        tmn = [r[1] for r in inp["nodes"]]
        for i, st in enumerate(inp["sites"]):
            pos = st[0]
            pin = cover_map(inp["edges"], pos, N, [], op)
            pout = cover_map(out["edges"], pos, N, [], op)
            present = set(pin) | {v[0] for v in pin.values()}
            runs, owner = {}, {}
            for u in present:
                target = pin[u][0] if u in pin else None
                run, v, ok = [], u, True
                while True:
                    nxt = pout[v][0] if v in pout else None
                    if nxt == target:
                        break
                    if nxt is None or len(run) > N:
                        ok = False
                        break
                    run.append(nxt)
                    v = nxt
                if not ok:
                    fails.append((op + ":input-parent-no-longer-ancestor", "site %d node %d" % (i, u)))
                    continue
                runs[u] = run
                for n_ in run:
                    if n_ in present:
                        fails.append((op + ":inserted-node-was-in-the-tree", "site %d node %d inserted above %d" % (i, n_, u)))
                    if n_ in owner and owner[n_] != u:
                        fails.append((op + ":inserted-node-not-unary", "site %d node %d above %d and %d" % (i, n_, owner[n_], u)))
                    owner[n_] = u
            for j, m in enumerate(inp["mutations"]):
                if m[0] != i or m[1] not in runs or m[4] is None:
                    continue
                cur = m[1]
                for n_ in runs[m[1]]:
                    if tmn[n_] <= m[4]:
                        cur = n_
                    else:
                        break
                if j < len(out["mutations"]) and out["mutations"][j][1] != cur:
                    fails.append((op + ":mutation-slide-rule", "mutation %d: node %d -> %d, the slide loop gives %d"
                                  % (j, m[1], out["mutations"][j][1], cur)))
        if obs["simplify_equal"] is not True:
            fails.append((op + ":simplify-differs" + (":mutation-on-absent-node" if absent and set(obs.get("simplify_diff") or ["?"]) <= {"sites", "mutations"} else ""),
                          "%r %r" % (obs["simplify_equal"], obs.get("simplify_diff"))))
        return dedup(fails)

    prelude = ("From TskVerif Require Import Base.Common C11.Model C11.ExtendSpec C11.ExtendCheck.\n"
               "Open Scope Z_scope.")

    def coq_check(self, case, obs):
        """Translation validation: the Coq checker [check_extend] (proved sound: acceptance implies
        that every ancestor chain of the input tree inherits the same state in the output) is
        evaluated on the implementation's output.  It must accept exactly when no mutation sits
        above a node that is absent from the input tree at its site (finding F15's class)."""
        if "out" not in obs:
            return None
        inp, out = obs["in"], obs["out"]
        if any(m[4] is None for m in inp["mutations"]) or len(inp["mutations"]) != len(out["mutations"]):
            return None
        N = len(inp["nodes"])
        codes = {}

        def code(sx):
            return codes.setdefault(sx, len(codes) + 1)

        def sm(m):
            return "(mkSM %s %s %s)" % (cz(m[1]), cz(m[4]), cz(code(m[2])))
        expected = True
        sites = []
        for i, st in enumerate(inp["sites"]):
            pos = st[0]
            idx = [j for j, m in enumerate(inp["mutations"]) if m[0] == i]
            for j in idx:
                u = inp["mutations"][j][1]
                if not any(e[0] <= pos < e[1] and u in (e[2], e[3]) for e in inp["edges"]):
                    expected = False
            sites.append("(%s, %s, %s)" % (cz(pos), "[" + "; ".join(sm(inp["mutations"][j]) for j in idx) + "]",
                                           "[" + "; ".join(sm(out["mutations"][j]) for j in idx) + "]"))
        return "Bool.eqb (check_extend %s %s %s %d%%nat %s [%s]) %s" % (
            q_list(inp["edges"], q_edge), q_list(out["edges"], q_edge), clist(range(N)), N + 1,
            clist([r[1] for r in inp["nodes"]]), "; ".join(sites), "true" if expected else "false")

    def nontrivial(self, case, obs):
        return "out" in obs and sorted(obs["out"]["edges"]) != sorted(obs["in"]["edges"])

    def describe(self, case, obs):
        ch = "out" in obs and sorted(obs["out"]["edges"]) != sorted(obs["in"]["edges"])
        mv = "out" in obs and obs["out"]["mutations"] != obs["in"]["mutations"]
        return {"edges_changed": ch, "mutation_nodes_changed": mv, "result": obs.get("error", "ok")}

    def shrink(self, case):
        yield from shrink_case(case)


FAMILIES = [Intervals, Trim, DelSites, TimeCut, Extend]

NOT_COVERED = [
    "extend_haplotypes is checked against its documented specification only (genotypes, ancestry "
    "containment, untouched tables, simplify(result)=simplify(original) differentially); no Gallina model",
    "simplify=True results of keep/delete_intervals are checked by the oracle only (simplify is C04)",
    "record_provenance=True paths (provenance rows are not part of the property)",
    "numpy negative-index wrap-around in delete_sites for mutation parents < -1 (invalid input)",
]
