"""C19 — IBD segments are exactly the maximal shared-path intervals of each pair.

Families
  ibd_small   random valid tree sequences (<= 8 nodes, L <= 6, harness/gen_ts.py) x within /
              between / default x min_span x max_time; every store option and both public
              entry points (TreeSequence / TableCollection) are called in one observation.
              Oracle = positional definition (below).  Coq: C output = IbdAlg (faithful model
              of tsk_ibd_finder_run + identity_segments store, exact emission order) and
              = IbdSpec (maximal runs of per-position labels), evaluated by vm_compute.
  ibd_shapes  hand-built shapes (docs example, unsquashed abutting edges, internal-sample
              chains, gaps, multiple roots) x a grid of filters.  Same checks.
  ibd_large   up to 14 nodes, L <= 12: oracle only (stress; no Coq evaluation).
  ibd_errors  malformed arguments (duplicates, overlapping between-sets, out-of-range ids
              other than id == num_nodes [that one is C09/F3], negative filters,
              within+between) must be rejected.

The oracle is written from the property text and docs/ibd.md only: for every lattice
position x and requested pair (a, b) walk the edges covering x from a and from b; the
MRCA is the first node on a's walk that also lies on b's walk (a node is its own ancestor);
the label of x is (mrca, edge ids walked from a, edge ids walked from b).  Expected
segments = maximal runs of consecutive positions with the same label, kept iff
span > min_span and time(mrca) < max_time (docs: "more recent than"; see notes/C19.md for
the boundary finding).
"""
import itertools
import math

from harness.runner import Family
from harness.common import cz, cn, clist, copt
from harness import gen_ts

EXACT_SCALES = (1, 1, 0.5, 0.25, 2.5, 8)
STORE = (("FF", False, False), ("TF", True, False), ("FT", False, True), ("TT", True, True))


# --------------------------------------------------------------------------------------
# case construction
# --------------------------------------------------------------------------------------

def slim(desc):
    """Keep only what IBD depends on (nodes: flags,time; edges: l,r,p,c)."""
    return {"L": desc["L"], "scale": desc["scale"],
            "nodes": [[n[0], n[1]] for n in desc["nodes"]],
            "edges": [[e[0], e[1], e[2], e[3]] for e in desc["edges"]]}


def full(case):
    d = case["desc"]
    return {"L": d["L"], "scale": d["scale"],
            "nodes": [[f, t, -1, -1, ""] for f, t in d["nodes"]],
            "edges": [[l, r, p, c, ""] for l, r, p, c in d["edges"]],
            "sites": [], "mutations": [], "individuals": [], "populations": [], "migrations": []}


def coord(d, x):
    """double coordinate of lattice position x: explicit table (non-dyadic family) or x*scale"""
    return d["coords"][x] if "coords" in d else x * d["scale"]


def cspan(d, l, r):
    """the span the API reports: right - left in double arithmetic"""
    return coord(d, r) - coord(d, l)


def desc_exact(d):
    return "coords" not in d and is_exact(d["scale"])


def build_tc(case):
    d = case["desc"]
    if "coords" not in d:
        return gen_ts.build_tables(full(case))
    import tskit
    tc = tskit.TableCollection(d["coords"][d["L"]])
    for fl, t in d["nodes"]:
        tc.nodes.add_row(flags=fl, time=t)
    for l, r, p, c in d["edges"]:
        tc.edges.add_row(d["coords"][l], d["coords"][r], p, c)
    tc.sort()
    tc.build_index()
    return tc


def is_exact(scale):
    return scale in (1, 0.5, 0.25, 2.5, 8, 2, 4)


def choose_groups(rng, n):
    """within / between / default selection over arbitrary nodes."""
    r = rng.random()
    nodes = list(range(n))
    if r < 0.2:
        return None, None
    if r < 0.6:
        k = rng.randrange(0, n + 1) if rng.random() < 0.3 else rng.randrange((n + 1) // 2, n + 1)
        return rng.sample(nodes, k), None
    k = rng.randrange(1, 4) if rng.random() < 0.4 else 2
    rng.shuffle(nodes)
    used = nodes[:rng.randrange(0, n + 1) if rng.random() < 0.3 else rng.randrange((n + 1) // 2, n + 1)]
    sets = [[] for _ in range(k)]
    for u in used:
        sets[rng.randrange(k)].append(u)
    return None, sets


def choose_filters(rng, desc):
    L, scale = desc["L"], desc["scale"]
    times = sorted({desc["nodes"][p][1] for _l, _r, p, _c in desc["edges"]}) or sorted({t for _f, t in desc["nodes"]}) or [0]
    spans = sorted({r - l for l, r, _p, _c in desc["edges"]}) or [L]
    r = rng.random()
    if r < 0.35:
        ms2 = 0
    elif r < 0.8:
        sp = min(rng.choice(spans), rng.choice(spans)) if rng.random() < 0.5 else rng.randrange(1, max(2, L // 2 + 1))
        ms2 = max(0, 2 * sp + (rng.choice([-1, 0, 1]) if is_exact(scale) else rng.choice([-1, 1])))
    elif is_exact(scale):
        ms2 = rng.randrange(0, 2 * L + 3)            # on (even) / between (odd) lattice spans
    else:
        ms2 = 2 * rng.randrange(0, L + 1) + 1        # never on a span: float rounding is not the subject
    r = rng.random()
    if r < 0.3:
        mt2 = None
    elif r < 0.35:
        mt2 = "inf"
    else:
        t = max(rng.choice(times), rng.choice(times)) if rng.random() < 0.8 else rng.choice([t for _f, t in desc["nodes"]] or [0])
        mt2 = max(0, 2 * t + rng.choice([-1, 0, 0, 1]))
    return ms2, mt2


def make_case(rng, max_nodes, max_L, exact_only=False):
    p_int = rng.choice([0.15, 0.15, 0.4, 0.8])
    scale = rng.choice(EXACT_SCALES) if (exact_only or rng.random() < 0.85) else 1 / 3
    d = gen_ts.random_desc(rng, max_nodes=max_nodes, max_L=max_L, max_sites=0, max_muts=0,
                           metadata=False, individuals=False, populations=False,
                           p_internal_sample=p_int, p_gap=rng.choice([0.0, 0.15, 0.3]),
                           p_root=rng.choice([0.1, 0.2, 0.4]), scale=scale)
    d = slim(d)
    for _ in range(6):      # gen_ts yields many edge-less collections; keep some, not a third
        if len(d["edges"]) >= 2 or rng.random() < 0.1:
            break
        d = slim(gen_ts.random_desc(rng, max_nodes=max_nodes, max_L=max_L, max_sites=0, max_muts=0,
                                    metadata=False, individuals=False, populations=False,
                                    p_internal_sample=p_int, p_gap=0.1, p_root=0.15, scale=scale))
    within, between = choose_groups(rng, len(d["nodes"]))
    ms2, mt2 = choose_filters(rng, d)
    # application-defined flag bits: a sample stays a sample (flags & 1), a non-sample stays one
    if rng.random() < 0.5:
        for nd in d["nodes"]:
            if rng.random() < 0.4:
                nd[0] |= rng.choice([1 << 16, 1 << 19, 2, (1 << 31), (1 << 16) | 4])
    return {"desc": d, "within": within, "between": between, "min_span2": ms2, "max_time2": mt2,
            "layout": rng.choice(LAYOUTS)}


# --------------------------------------------------------------------------------------
# implementation adapter
# --------------------------------------------------------------------------------------

LAYOUTS = ("list", "list", "tuple", "int64", "int32", "strided", "reversed", "column")


def as_layout(ids, layout, nn):
    """The same logical id list handed over in different array layouts: python list / tuple, int64
    (conversion copy), contiguous int32 (no copy needed), and NON-CONTIGUOUS int32 views (every second
    element, reversed view, a column of a 2-D array) whose neighbouring memory holds other valid ids."""
    ids = [int(u) for u in ids]
    if layout == "list":
        return ids
    if layout == "tuple":
        return tuple(ids)
    import numpy as np
    n = len(ids)
    fill = [(u + 1) % max(nn, 1) if u >= 0 else 0 for u in ids]
    if layout == "int64":
        return np.array(ids, dtype=np.int64)
    if layout == "int32":
        return np.array(ids, dtype=np.int32)
    if layout == "strided":
        buf = np.zeros(2 * n, dtype=np.int32)
        buf[0::2] = ids
        buf[1::2] = fill
        return buf[0::2]
    if layout == "reversed":
        return np.array(ids[::-1], dtype=np.int32)[::-1]
    if layout == "column":
        m = np.zeros((n, 3), dtype=np.int32)
        m[:, 0] = fill
        m[:, 1] = ids
        m[:, 2] = fill
        return m[:, 1]
    raise ValueError(layout)


def call_args(case):
    s = case["desc"]["scale"]
    kw = {}
    lay = case.get("layout", "list")
    nn = len(case["desc"]["nodes"])
    if case["within"] is not None:
        kw["within"] = as_layout(case["within"], lay, nn)
    if case["between"] is not None:
        kw["between"] = [as_layout(x, lay, nn) for x in case["between"]]
    if "min_span_f" in case:
        kw["min_span"] = case["min_span_f"]
    elif case["min_span2"] is not None:
        kw["min_span"] = case["min_span2"] / 2 * s
    mt2 = case["max_time2"]
    if mt2 == "inf":
        kw["max_time"] = math.inf
    elif mt2 is not None:
        kw["max_time"] = mt2 / 2
    return kw


def exc(e):
    return type(e).__name__


def lattice_map(desc):
    return {float(coord(desc, x)): x for x in range(desc["L"] + 1)}


def probe_pair(res, a, b):
    try:
        sl = res[(a, b)]
        return [len(sl), float(sl.total_span)]
    except Exception as e:
        return exc(e)


def read_result(res, lat, probe=()):
    """Everything observable through the public result classes, canonicalised."""
    out = {"num_segments": int(res.num_segments), "total_span": float(res.total_span)}
    try:
        out["num_pairs"] = int(res.num_pairs)
    except Exception as e:
        out["num_pairs"] = exc(e)
    try:
        out["len"] = len(res)
    except Exception as e:
        out["len"] = exc(e)
    try:
        pairs = [[int(a), int(b)] for a, b in res.pairs]
        keys = [[int(a), int(b)] for a, b in res]
    except Exception as e:
        out["pairs"] = exc(e)
        return out
    out["pairs"] = pairs
    out["keys_equal_pairs"] = keys == pairs
    per = []
    # every REQUESTED pair is looked up in both orders (KeyError expected when it has no segment)
    out["probe"] = [[a, b, probe_pair(res, a, b), probe_pair(res, b, a)] for a, b in probe]
    for a, b in pairs:
        try:
            sl = res[(a, b)]
            rev = res[(b, a)]
        except Exception as e:
            per.append({"lookup_error": exc(e)})
            continue
        item = {"n": len(sl), "span": float(sl.total_span),
                "sym": len(rev) == len(sl) and float(rev.total_span) == float(sl.total_span)}
        try:
            segs = [(float(x.left), float(x.right), int(x.node)) for x in sl]
            arr = list(zip((float(v) for v in sl.left), (float(v) for v in sl.right), (int(v) for v in sl.node)))
            item["arrays_equal_iter"] = arr == segs
            item["segs"] = [[lat.get(l, l), lat.get(r, r), u] for l, r, u in segs]    # emission order
            item["span_attr"] = [float(x.span) == float(x.right) - float(x.left) for x in sl] == [True] * len(segs)
        except Exception as e:
            item["segs"] = exc(e)
        per.append(item)
    out["per_pair"] = per
    return out


def observe_case(case):
    import tskit  # noqa: F401
    tc = build_tc(case)
    lat = lattice_map(case["desc"])
    edges = [[lat[float(e.left)], lat[float(e.right)], int(e.parent), int(e.child)] for e in tc.edges]
    out = {"edges": edges}
    try:
        ts = tc.tree_sequence()
    except Exception as e:
        return {"edges": edges, "invalid": exc(e) + ": " + str(e)}
    kw = call_args(case)
    probe = requested_pairs(case)
    for api, obj in (("ts", ts), ("tc", tc)):
        runs = {}
        for name, sp, ss in STORE:
            k = dict(kw)
            # None and False must mean the same: alternate between them
            if sp or api == "tc":
                k["store_pairs"] = sp
            if ss or api == "tc":
                k["store_segments"] = ss
            try:
                runs[name] = read_result(obj.ibd_segments(**k), lat, probe)
            except Exception as e:
                runs[name] = {"error": exc(e)}
        out[api] = runs
    if case["within"] is None and case["between"] is None:
        # the default call is "all samples": compare with the explicit list, whatever other flag bits are set
        try:
            k = dict(kw)
            k["within"] = ts.samples()
            ex = read_result(ts.ibd_segments(store_segments=True, **k), lat, probe)
            out["default_equals_samples"] = ex == out["ts"]["FT"]
        except Exception as e:
            out["default_equals_samples"] = exc(e)
    out["api_equal"] = out["ts"] == out["tc"]
    out["r"] = out.pop("ts")
    if out["api_equal"]:
        out.pop("tc")
    return out


# --------------------------------------------------------------------------------------
# the positional oracle
# --------------------------------------------------------------------------------------

def requested_pairs(case):
    d = case["desc"]
    n = len(d["nodes"])
    if case["between"] is not None:
        sid = {}
        for k, s in enumerate(case["between"]):
            for u in s:
                sid[u] = k
        return sorted((a, b) for a in sid for b in sid if a < b and sid[a] != sid[b])
    if case["within"] is not None:
        w = list(case["within"])
    else:
        w = [u for u in range(n) if d["nodes"][u][0] & 1]
    return sorted((a, b) for a in w for b in w if a < b)


_ABOVE = {}


def edges_above(desc, x):
    """{child: [edge ids covering x]} — the definition, tabulated once per (edge table, position)"""
    key = (id(desc["edges"]), len(desc["edges"]), x)
    tab = _ABOVE.get(key)
    if tab is None or tab[0] is not desc["edges"]:
        m = {}
        for k, (l, r, p, c) in enumerate(desc["edges"]):
            if l <= x < r:
                m.setdefault(c, []).append(k)
        if len(_ABOVE) > 64:
            _ABOVE.clear()
        tab = _ABOVE[key] = (desc["edges"], m)
    return tab[1]


def walk(desc, x, u):
    """[(node, edge id used to leave node or None)] from u to its root at position x."""
    out = []
    seen = 0
    above = edges_above(desc, x)
    while True:
        up = above.get(u, [])
        assert len(up) <= 1, "two edges above a node at one position: invalid tree sequence"
        if not up:
            out.append((u, None))
            return out
        out.append((u, up[0]))
        u = desc["edges"][up[0]][2]
        seen += 1
        assert seen <= len(desc["nodes"]), "cycle"


def label(desc, x, a, b):
    wa, wb = walk(desc, x, a), walk(desc, x, b)
    nb = [u for u, _ in wb]
    for i, (u, _e) in enumerate(wa):
        if u in nb:
            j = nb.index(u)
            return (u, tuple(e for _u, e in wa[:i]), tuple(e for _u, e in wb[:j]))
    return None


def unfiltered(desc, a, b):
    """maximal runs of equal labels: [(l, r, mrca)] in left-to-right order"""
    out, cur, start = [], None, 0
    for x in range(desc["L"] + 1):
        lab = label(desc, x, a, b) if x < desc["L"] else ("end",)
        if lab != cur:
            if cur is not None and cur != ("end",):
                out.append((start, x, cur[0]))
            cur, start = lab, x
    return out


def span_ok(case, l, r):
    d = case["desc"]
    if "min_span_f" in case:            # "spans greater than min_span", span = right - left as reported
        return cspan(d, l, r) > case["min_span_f"]
    return cspan(d, l, r) > case["min_span2"] / 2 * d["scale"]


def time_ok(case, u, strict):
    mt2 = case["max_time2"]
    if mt2 is None or mt2 == "inf":
        return True
    t2 = 2 * case["desc"]["nodes"][u][1]
    return t2 < mt2 if strict else t2 <= mt2


def expected(case, strict=True):
    d = case["desc"]
    exp = {}
    for a, b in requested_pairs(case):
        segs = [(l, r, u) for l, r, u in unfiltered(d, a, b) if span_ok(case, l, r) and time_ok(case, u, strict)]
        if segs:
            exp[(a, b)] = sorted(segs)
    return exp


def close(x, y, exact):
    return x == y if exact else abs(x - y) <= 1e-9 * max(1.0, abs(y))


def check_run(case, name, sp, ss, run, exp, key_prefix, out):
    d = case["desc"]
    s = d["scale"]
    exact = desc_exact(d)
    fail = lambda k, m: out.append((key_prefix + k, "[%s] %s" % (name, m)))  # noqa: E731
    if "error" in run:
        fail("unexpected-error", run["error"])
        return
    nseg = sum(len(v) for v in exp.values())
    tot = sum(cspan(d, l, r) for v in exp.values() for l, r, _u in v)
    if run["num_segments"] != nseg:
        fail("num_segments", "num_segments=%r expected %r" % (run["num_segments"], nseg))
    if not close(run["total_span"], tot, exact):
        fail("total_span", "total_span=%r expected %r" % (run["total_span"], tot))
    if not (sp or ss):
        for f in ("num_pairs", "len", "pairs"):
            if run.get(f) != "IdentityPairsNotStoredError":
                fail("pairs-not-stored-access", "%s -> %r without store_pairs" % (f, run.get(f)))
        return
    if run["num_pairs"] != len(exp) or run["len"] != len(exp):
        fail("num_pairs", "num_pairs=%r len=%r expected %r" % (run["num_pairs"], run["len"], len(exp)))
    nn = len(d["nodes"])
    if any(not (0 <= u < nn) for p in run["pairs"] for u in p):
        fail("pair-ids-out-of-range", "pairs=%r with %d nodes" % (run["pairs"][:6], nn))
    for a, b, fw, bw in run.get("probe", []):
        e = exp.get((a, b))
        want = "KeyError" if not e else [len(e), None]
        for got, order in ((fw, (a, b)), (bw, (b, a))):
            if want == "KeyError":
                if got != "KeyError":
                    fail("pair-lookup", "result[%r] -> %r, pair has no segment" % (order, got))
            elif not isinstance(got, list) or got[0] != want[0] or \
                    not close(got[1], sum(cspan(d, l, r) for l, r, _ in e), exact):
                fail("pair-lookup", "result[%r] -> %r, expected %d segments span %r"
                     % (order, got, want[0], sum(cspan(d, l, r) for l, r, _ in e)))
    if run["pairs"] != [list(p) for p in sorted(exp)]:
        fail("pairs", "pairs=%r expected %r" % (run["pairs"][:8], sorted(exp)[:8]))
        return
    if not run["keys_equal_pairs"]:
        fail("pairs", "iteration differs from .pairs")
    for (a, b), item in zip(sorted(exp), run["per_pair"]):
        e = exp[(a, b)]
        if "lookup_error" in item:
            fail("pair-lookup", "result[(%d,%d)] raised %s for a listed pair" % (a, b, item["lookup_error"]))
            continue
        if item["n"] != len(e):
            fail("pair-len", "len(%d,%d)=%r expected %r" % (a, b, item["n"], len(e)))
        if not close(item["span"], sum(cspan(d, l, r) for l, r, _ in e), exact):
            fail("pair-total_span", "total_span(%d,%d)=%r expected %r" % (a, b, item["span"], sum(cspan(d, l, r) for l, r, _ in e)))
        if not item["sym"]:
            fail("pair-symmetry", "result[(b,a)] differs from result[(a,b)]")
        if not ss:
            if item["segs"] != "IdentitySegmentsNotStoredError":
                fail("segments-not-stored-access", "segments readable without store_segments: %r" % (item["segs"],))
            continue
        if isinstance(item["segs"], str):
            fail("segments-unreadable", item["segs"])
            continue
        got = sorted(tuple(x) for x in item["segs"])
        if got != e:
            fail("segments", "pair (%d,%d): got %r expected %r" % (a, b, got, e))
        if not item["arrays_equal_iter"] or not item["span_attr"]:
            fail("segment-views", "left/right/node arrays or .span disagree with iteration")
        # aggregates of the *stored* segments (independent of exp)
        if item["n"] != len(got):
            fail("pair-len-vs-stored", "len=%r, %d stored" % (item["n"], len(got)))
        if all(isinstance(x[0], int) and isinstance(x[1], int) for x in got) and \
                not close(item["span"], sum(cspan(d, l, r) for l, r, _ in got), exact):
            fail("pair-span-vs-stored", "total_span=%r, stored sum %r" % (item["span"], sum(cspan(d, l, r) for l, r, _ in got)))
    if ss:
        stored = [tuple(x) for it in run["per_pair"] if not isinstance(it.get("segs", ""), str) for x in it["segs"]]
        if run["num_segments"] != len(stored):
            fail("num_segments-vs-stored", "num_segments=%r, %d stored" % (run["num_segments"], len(stored)))
        if run["num_pairs"] != len([it for it in run["per_pair"] if it.get("segs")]):
            fail("num_pairs-vs-stored", "num_pairs=%r" % (run["num_pairs"],))


def oracle_case(case, obs):
    out = []
    if "invalid" in obs:
        return [("generator-invalid-ts", obs["invalid"])]
    if not obs["api_equal"]:
        out.append(("ts-vs-tables", "TreeSequence.ibd_segments and TableCollection.ibd_segments differ"))
    if obs.get("default_equals_samples", True) is not True:
        out.append(("default-vs-samples", "ibd_segments() differs from ibd_segments(within=ts.samples()): %r"
                    % (obs["default_equals_samples"],)))
    exp = expected(case, strict=True)
    exp_incl = expected(case, strict=False)
    boundary = exp != exp_incl
    d = case["desc"]
    for api in ("r", "tc"):
        if api not in obs:
            continue
        for name, sp, ss in STORE:
            run = obs[api][name]
            if boundary:
                # docs say "more recent than" max_time; the inclusive reading is evaluated too so
                # that only the boundary itself is attributed to the boundary finding
                got = []
                check_run(case, name, sp, ss, run, exp, "", got)
                if got:
                    alt = []
                    check_run(case, name, sp, ss, run, exp_incl, "", alt)
                    if alt:
                        out += alt
                    else:
                        out.append(("max_time-boundary-included",
                                    "[%s] segments whose MRCA time equals max_time are returned (docs: more recent than)" % name))
            else:
                check_run(case, name, sp, ss, run, exp, "", out)
    # no filters: disjoint and covering exactly where the pair has a common ancestor
    nofilter = case["min_span2"] == 0 and "min_span_f" not in case and case["max_time2"] in (None, "inf")
    tt = obs["r"]["TT"]
    if nofilter and "error" not in tt and isinstance(tt.get("pairs"), list):
        got = {tuple(p): it["segs"] for p, it in zip(tt["pairs"], tt["per_pair"]) if not isinstance(it.get("segs", ""), str)}
        for a, b in requested_pairs(case):
            cov = [0] * d["L"]
            for l, r, _u in got.get((a, b), []):
                if isinstance(l, int) and isinstance(r, int):
                    for x in range(l, r):
                        cov[x] += 1
            want = [1 if label(d, x, a, b) is not None else 0 for x in range(d["L"])]
            if any(c > 1 for c in cov):
                out.append(("overlap", "pair (%d,%d) segments overlap: %r" % (a, b, got.get((a, b)))))
            elif cov != want:
                out.append(("cover", "pair (%d,%d) covers %r, common ancestor exists at %r" % (a, b, cov, want)))
        for p in got:
            if p not in set(requested_pairs(case)):
                out.append(("unrequested-pair", "pair %r reported" % (p,)))
    # dedupe
    seen, ded = set(), []
    for k, m in out:
        if (k, m) not in seen:
            seen.add((k, m))
            ded.append((k, m))
    return ded


# --------------------------------------------------------------------------------------
# Coq terms
# --------------------------------------------------------------------------------------

def coq_case(case, obs):
    d = case["desc"]
    edges = "[" + "; ".join("mkE %s %s %s %s" % (cz(l), cz(r), cz(p), cz(c)) for l, r, p, c in obs["edges"]) + "]"
    if case["between"] is not None:
        grp = "(GBetween [%s])" % "; ".join(clist(s) for s in case["between"])
    elif case["within"] is not None:
        grp = "(GWithin %s)" % clist(case["within"])
    else:
        grp = "GDefault"
    mt2 = case["max_time2"]
    mt = "None" if mt2 in (None, "inf") else "(Some %s)" % cz(mt2)
    return "(mkCase %s %s %s %s %s %s %s)" % (
        cz(d["L"]), clist([t for _f, t in d["nodes"]]), clist([f for f, _t in d["nodes"]]),
        edges, grp, cz(case["min_span2"]), mt)


def coq_obs(run, scale):
    """C observation with store_segments: [((a,b), [(l,r,u)...] in emission order)], num_segments, total_span (lattice)"""
    items = []
    for (a, b), it in zip(run["pairs"], run["per_pair"]):
        segs = "[" + "; ".join("(%s, %s, %s)" % (cz(l), cz(r), cz(u)) for l, r, u in it["segs"]) + "]"
        items.append("((%s, %s), %s)" % (cz(a), cz(b), segs))
    return "[" + "; ".join(items) + "]"


def coq_term(case, obs):
    if "invalid" in obs or not obs.get("api_equal") or "coords" in case["desc"]:
        return None
    s = case["desc"]["scale"]
    tt, tf, ff = obs["r"]["TT"], obs["r"]["TF"], obs["r"]["FF"]
    if any("error" in r for r in (tt, tf, ff)):
        return None
    for it in tt["per_pair"]:
        if isinstance(it.get("segs", ""), str) or any(not isinstance(v, int) for x in it["segs"] for v in x):
            return None
    c = coq_case(case, obs)
    stored = coq_obs(tt, s)
    summ = "[" + "; ".join("((%s, %s), (%s, %s))" % (cz(a), cz(b), cz(it["n"]), cz(round(it["span"] / s)))
                           for (a, b), it in zip(tf["pairs"], tf["per_pair"])) + "]"
    exact = is_exact(s)
    tot = cz(round(ff["total_span"] / s))
    # (1) faithful algorithm model = C exactly (emission order, summaries, totals)
    # (2) specification = C as sets per pair
    # (3) the hypotheses of Props.C19.ibd_alg_refines_spec_partial hold at every position
    # (4) the Python facade: result[(a,b)] / result[(b,a)] for every requested pair, len(), pairs
    probes = "[" + "; ".join("((%s, %s), %s)" % (cz(a), cz(b), "None" if fw == "KeyError" else "(Some %s)" % cz(fw[0]))
                             for a, b, fw, bw in tt.get("probe", []) if fw == bw and (fw == "KeyError" or isinstance(fw, list))) + "]"
    t = ("let c := %s in let stored := %s in c19_check_alg c stored %s %s %s %s && c19_check_spec c stored && c19_check_valid c"
         " && c19_check_facade c %s %s"
         % (c, stored, summ, cz(ff["num_segments"]), tot, "true" if exact else "false", probes, cz(tt["num_pairs"])))
    return t


# --------------------------------------------------------------------------------------
# families
# --------------------------------------------------------------------------------------

PRELUDE = ("From TskVerif Require Import Base.Common C19.Model C19.IbdAlg.\n"
           "Open Scope Z_scope.")


class IbdBase(Family):
    prelude = PRELUDE
    workers = 8
    shard = 150
    coq = True

    def observe(self, case):
        return observe_case(case)

    def oracle(self, case, obs):
        return oracle_case(case, obs)

    def coq_check(self, case, obs):
        if not self.coq:
            return None
        return coq_term(case, obs)

    def nontrivial(self, case, obs):
        return "r" in obs and "error" not in obs["r"]["FF"] and obs["r"]["FF"]["num_segments"] > 0

    def describe(self, case, obs):
        if "r" not in obs or "error" in obs["r"]["FF"]:
            return {"outcome": "error"}
        d = case["desc"]
        es = sorted((c, p, l, r) for l, r, p, c in d["edges"])
        unsq = any(a[0] == b[0] and a[1] == b[1] and a[3] == b[2] for a, b in zip(es, es[1:]))
        return {
            "mode": "between" if case["between"] is not None else ("within" if case["within"] is not None else "default"),
            "min_span": "0" if case["min_span2"] == 0 else ("on-lattice" if case["min_span2"] % 2 == 0 else "between"),
            "max_time": "none" if case["max_time2"] in (None, "inf") else ("on-node-time" if case["max_time2"] % 2 == 0 else "between"),
            "segments": min(obs["r"]["FF"]["num_segments"], 20) // 5 * 5,
            "nodes": len(d["nodes"]),
            "unsquashed_adjacent_edges": unsq,
            "internal_samples": any(f & 1 and t > 0 for f, t in d["nodes"]),
            "scale_exact": is_exact(d["scale"]),
            "layout": case.get("layout", "list"),
            "extra_flag_bits": any(f & ~1 for f, _t in d["nodes"]),
        }

    def shrink(self, case):
        d = case["desc"]
        for k in range(len(d["edges"])):
            c = dict(case)
            c["desc"] = dict(d, edges=d["edges"][:k] + d["edges"][k + 1:])
            yield c
        if case["min_span2"]:
            yield dict(case, min_span2=0)
        if case["max_time2"] is not None:
            yield dict(case, max_time2=None)
        if case["within"]:
            for k in range(len(case["within"])):
                yield dict(case, within=case["within"][:k] + case["within"][k + 1:])
        if case["between"]:
            for i, s in enumerate(case["between"]):
                for k in range(len(s)):
                    b = [list(x) for x in case["between"]]
                    del b[i][k]
                    yield dict(case, between=b)
        if d["scale"] != 1:
            c = dict(case)
            c["desc"] = dict(d, scale=1)
            yield c


class IbdSmall(IbdBase):
    name = "ibd_small"

    def generate(self, rng, tier):
        n = 1500 if tier == "quick" else 16000
        for _ in range(n):
            yield make_case(rng, 8, 6)


def shape_cases():
    S, N = 1, 0
    shapes = []
    # docs/ibd.md example
    shapes.append({"L": 10, "scale": 1, "nodes": [[S, 0], [S, 0], [S, 0], [N, 1], [N, 2], [N, 3]],
                   "edges": [[2, 10, 3, 0], [2, 10, 3, 2], [0, 10, 4, 1], [0, 2, 4, 2], [2, 10, 4, 3], [0, 2, 5, 0], [0, 2, 5, 4]]})
    # unsquashed abutting edges on one lineage, same MRCA all along
    shapes.append({"L": 6, "scale": 1, "nodes": [[S, 0], [S, 0], [N, 1]],
                   "edges": [[0, 2, 2, 0], [2, 6, 2, 0], [0, 6, 2, 1]]})
    # unsquashed edges above the MRCA must NOT split the segment
    shapes.append({"L": 6, "scale": 0.5, "nodes": [[S, 0], [S, 0], [N, 1], [N, 2]],
                   "edges": [[0, 6, 2, 0], [0, 6, 2, 1], [0, 3, 3, 2], [3, 6, 3, 2]]})
    # chain of internal samples with a unary node
    shapes.append({"L": 4, "scale": 1, "nodes": [[S, 0], [S, 1], [N, 2], [S, 3], [S, 0]],
                   "edges": [[0, 4, 1, 0], [0, 4, 2, 1], [0, 3, 3, 2], [1, 4, 3, 4]]})
    # gap in the middle, two roots
    shapes.append({"L": 6, "scale": 2.5, "nodes": [[S, 0], [S, 0], [S, 0], [N, 1], [N, 1]],
                   "edges": [[0, 2, 3, 0], [0, 2, 3, 1], [4, 6, 3, 0], [4, 6, 3, 1], [0, 6, 4, 2]]})
    # same MRCA through different paths left and right
    shapes.append({"L": 4, "scale": 1, "nodes": [[S, 0], [S, 0], [N, 1], [N, 1], [N, 2]],
                   "edges": [[0, 2, 2, 0], [2, 4, 3, 0], [0, 4, 4, 1], [0, 4, 4, 2], [0, 4, 4, 3]]})
    # polytomy + isolated sample, no edges at all for node 3
    shapes.append({"L": 3, "scale": 1, "nodes": [[S, 0], [S, 0], [S, 0], [S, 0], [N, 5]],
                   "edges": [[0, 3, 4, 0], [0, 3, 4, 1], [0, 2, 4, 2]]})
    # empty edge table
    shapes.append({"L": 2, "scale": 1, "nodes": [[S, 0], [S, 0]], "edges": []})
    return shapes


class IbdShapes(IbdBase):
    name = "ibd_shapes"

    def generate(self, rng, tier):
        for d in shape_cases():
            n = len(d["nodes"])
            times = sorted({t for _f, t in d["nodes"]})
            groups = [(None, None), (list(range(n)), None), (list(range(n - 1, -1, -2)), None),
                      (None, [list(range(0, n, 2)), list(range(1, n, 2))]),
                      (None, [[0], [], [u for u in range(1, n)]])]
            mss = [0, 1, 2, 3, 4, 2 * d["L"] - 1, 2 * d["L"]]
            mts = [None, "inf"] + [2 * t + k for t in times for k in (-1, 0, 1) if 2 * t + k >= 0]
            for (w, b), ms2, mt2 in itertools.product(groups, mss, mts):
                if tier == "quick" and rng.random() < 0.6:
                    continue
                dd = d
                if rng.random() < 0.3:
                    dd = dict(d, nodes=[[f | rng.choice([0, 1 << 16, 1 << 19, 2]), t] for f, t in d["nodes"]])
                yield {"desc": dd, "within": w, "between": b, "min_span2": ms2, "max_time2": mt2,
                       "layout": rng.choice(LAYOUTS)}


class IbdLarge(IbdBase):
    name = "ibd_large"
    coq = False

    def generate(self, rng, tier):
        for _ in range(400 if tier == "quick" else 6000):
            yield make_case(rng, 14, 12)


class IbdErrors(Family):
    """Arguments the documentation excludes must be rejected, not silently accepted."""
    name = "ibd_errors"
    workers = 4
    prelude = PRELUDE

    def coq_check(self, case, obs):
        # the C-level rejections are modelled (init_ssid / parameter checks); within+between is
        # rejected by the Python layer before the C code is reached
        if case["bad"] == "within+between" or isinstance(obs["tc"], dict):
            return None
        d = case["desc"]
        tc = gen_ts.build_tables(full(case))
        lat = lattice_map(d)
        edges = [[lat[float(e.left)], lat[float(e.right)], int(e.parent), int(e.child)] for e in tc.edges]
        return "c19_alg_rejects %s" % coq_case(case, {"edges": edges})

    def generate(self, rng, tier):
        for _ in range(40 if tier == "quick" else 400):
            c = make_case(rng, 7, 5, exact_only=True)
            n = len(c["desc"]["nodes"])
            if n < 2:
                continue
            kind = rng.choice(["dup-within", "dup-between", "overlap-between", "neg-id", "big-id",
                               "neg-min_span", "neg-max_time", "within+between"])
            c["bad"] = kind
            u = rng.randrange(n)
            if kind == "dup-within":
                c["within"], c["between"] = [u, rng.randrange(n), u], None
            elif kind == "dup-between":
                c["within"], c["between"] = None, [[u, u], [(u + 1) % n]]
            elif kind == "overlap-between":
                c["within"], c["between"] = None, [[u], [(u + 1) % n, u]]
            elif kind == "neg-id":
                c["within"], c["between"] = [u, -1 - rng.randrange(3)], None
            elif kind == "big-id":       # id == n is finding F3 of C09 (guard `>`), not exercised here
                c["within"], c["between"] = [u, n + 1 + rng.randrange(5)], None
            elif kind == "neg-min_span":
                c["min_span2"] = -1 - rng.randrange(4)
            elif kind == "neg-max_time":
                c["max_time2"] = -1 - rng.randrange(4)
            else:
                c["within"], c["between"] = [u], [[u], [(u + 1) % n]]
            yield c

    def observe(self, case):
        desc = full(case)
        tc = gen_ts.build_tables(desc)
        out = {}
        def snap(o):
            r = o.ibd_segments(store_segments=True)
            return sorted([int(a), int(b), float(x.left), float(x.right), int(x.node)] for (a, b), sl in r.items() for x in sl)
        fresh = snap(gen_ts.build_tables(desc).tree_sequence())
        for api, obj in (("ts", tc.tree_sequence()), ("tc", tc)):
            try:
                r = obj.ibd_segments(store_segments=True, **call_args(case))
                out[api] = {"accepted": int(r.num_segments)}
            except Exception as e:
                out[api] = exc(e)
            # error, then a valid call on the SAME object = the result on a fresh object
            try:
                out[api + "_reuse_ok"] = snap(obj) == fresh
            except Exception as e:
                out[api + "_reuse_ok"] = exc(e)
        return out

    def oracle(self, case, obs):
        out = []
        for api in ("ts", "tc"):
            if isinstance(obs[api], dict):
                out.append(("accepted-" + case["bad"], "%s.ibd_segments accepted %s" % (api, case["bad"])))
            if obs.get(api + "_reuse_ok", True) is not True:
                out.append(("error-then-reuse", "%s: valid call after the rejected one differs from a fresh object: %r"
                            % (api, obs[api + "_reuse_ok"])))
        return out

    def describe(self, case, obs):
        return {"kind": case["bad"], "outcome": str(obs["ts"]) if not isinstance(obs["ts"], dict) else "accepted"}


class IbdBigNodes(IbdBase):
    """LARGE NODE TABLES: 50000-100000 mostly unused node rows and a handful of high-id nodes.
    The pair key of the result container is min(a,b)*num_nodes + max(a,b), which exceeds 2^31 here;
    the Coq model computes it in Z, so only this family guards the C integer widths (int64 key,
    integer_to_pair, AVL order, get/get_keys) — oracle only.  Cases are stored sparsely."""
    name = "ibd_bignodes"
    coq = False
    workers = 4
    timeout = 120.0

    def generate(self, rng, tier):
        for k in range(6 if tier == "quick" else 24):
            N = rng.choice([50000, 65536, 70000, 100000]) if k else 70000
            ids = sorted(rng.sample(range(N // 2, N - 3), rng.randrange(4, 7))) if k else [40000, 50000, 60000, 65000]
            root, mid = N - 1, N - 2
            L = rng.randrange(2, 6)
            cut = rng.randrange(1, L)
            special = {str(u): [(1 if (k % 3 or i % 2 == 0) else 0) | rng.choice([0, 0, 1 << 16, 1 << 19]), 0]
                       for i, u in enumerate(ids)}
            special[str(mid)] = [rng.randrange(2), 1]
            special[str(root)] = [0, 2]
            edges = []
            for i, u in enumerate(ids):
                if i % 2 and rng.random() < 0.7:      # via the internal node on the left part
                    edges += [[0, cut, mid, u], [cut, L, root, u]]
                else:
                    edges.append([0, L, root, u])
            edges.append([0, L, root, mid])
            mode = k % 3
            within = between = None
            if mode == 1:
                within = [u for u in reversed(ids)] + ([mid] if rng.random() < 0.5 else [])
            elif mode == 2:
                between = [ids[0::2], ids[1::2] + [mid]]
            yield {"big": {"N": N, "special": special}, "L": L, "scale": rng.choice([1, 0.5, 2.5]),
                   "edges": edges, "within": within, "between": between, "layout": rng.choice(LAYOUTS),
                   "min_span2": rng.choice([0, 0, 1, 2]), "max_time2": rng.choice([None, None, 3, 4])}

    @staticmethod
    def expand(case):
        N = case["big"]["N"]
        nodes = [[0, 0]] * N
        nodes = list(nodes)
        for u, ft in case["big"]["special"].items():
            nodes[int(u)] = list(ft)
        c = {k: case[k] for k in ("within", "between", "min_span2", "max_time2", "layout")}
        c["desc"] = {"L": case["L"], "scale": case["scale"], "nodes": nodes, "edges": case["edges"]}
        return c

    def observe(self, case):
        return observe_case(self.expand(case))

    def oracle(self, case, obs):
        return oracle_case(self.expand(case), obs)

    def describe(self, case, obs):
        return {"num_nodes": case["big"]["N"],
                "mode": "between" if case["between"] is not None else ("within" if case["within"] is not None else "default"),
                "max_key_bits": (max(int(u) for u in case["big"]["special"]) * case["big"]["N"]).bit_length()}

    def shrink(self, case):
        return []


DECIMALS = [0.1, 0.2, 0.3, 0.4, 0.6, 0.7, 0.9, 1.0, 1.1, 1.3, 1.7, 2.2, 2.3, 3.1]


class IbdDecimal(IbdBase):
    """NON-DYADIC coordinates (breakpoints 0.1, 0.2, 0.4, 0.7, 0.9, ...): guards the FLOATING-POINT
    form of the min_span comparison.  The Coq model lives on exact lattice coordinates and cannot see
    one-ulp effects; here min_span is the double value of some `right - left` or a nearby decimal
    (0.3 vs 0.4-0.1 = 0.30000000000000004, 0.7 vs 0.9-0.2 = 0.7 ...).  Expected: a segment is
    returned iff `seg.right - seg.left > min_span` in double arithmetic (the span the API reports),
    evaluated (a) on the positional oracle's unfiltered segments and (b) on the implementation's own
    unfiltered result.  Oracle only."""
    name = "ibd_decimal"
    coq = False

    def generate(self, rng, tier):
        n = 0
        want = 160 if tier == "quick" else 2500
        # the two witnesses of seeded change C19-3 first
        for coords, ms in (([0, 0.1, 0.4, 1.0], 0.3), ([0, 0.2, 0.9, 1.0], 0.7)):
            for grp in ((None, None), ([0, 1, 2], None), (None, [[0], [1, 2]])):
                yield {"desc": {"L": 3, "scale": 1, "coords": coords, "nodes": [[1, 0], [1, 0], [1, 0], [0, 1], [0, 2]],
                                "edges": [[1, 2, 3, 0], [1, 2, 3, 1], [0, 3, 4, 2], [0, 1, 4, 0], [0, 1, 4, 1],
                                          [2, 3, 4, 0], [2, 3, 4, 1], [1, 2, 4, 3]]},
                       "within": grp[0], "between": grp[1], "min_span2": 1, "min_span_f": ms, "max_time2": None}
        while n < want:
            c = make_case(rng, 8, 6, exact_only=True)
            d = c["desc"]
            if len(d["edges"]) < 2:
                continue
            L = d["L"]
            start = rng.randrange(0, len(DECIMALS) - L)
            pool = sorted(rng.sample(DECIMALS, L)) if rng.random() < 0.6 else DECIMALS[start:start + L]
            d["coords"] = [0] + pool
            d["scale"] = 1
            spans = sorted({d["coords"][r] - d["coords"][l] for l in range(L + 1) for r in range(l + 1, L + 1)})
            r = rng.random()
            if r < 0.45:
                ms = rng.choice(spans)                                   # the double value of some right-left
            elif r < 0.9:
                ms = round(rng.choice(spans), 1)                         # the nearby decimal
            else:
                ms = rng.choice([0.0, 0.05, 0.15, 0.25])
            c["min_span_f"] = ms
            c["min_span2"] = 1
            if rng.random() < 0.7:
                c["max_time2"] = None
            n += 1
            yield c

    def observe(self, case):
        obs = observe_case(case)
        # the implementation's own unfiltered result, raw doubles
        tc = build_tc(case)
        kw = call_args(case)
        kw.pop("min_span", None)
        try:
            un = tc.tree_sequence().ibd_segments(store_segments=True, **kw)
            fi = tc.tree_sequence().ibd_segments(store_segments=True, min_span=case["min_span_f"], **kw)
            obs["raw_unfiltered"] = sorted([int(a), int(b), float(x.left), float(x.right), int(x.node)]
                                           for (a, b), sl in un.items() for x in sl)
            obs["raw_filtered"] = sorted([int(a), int(b), float(x.left), float(x.right), int(x.node)]
                                         for (a, b), sl in fi.items() for x in sl)
        except Exception as e:
            obs["raw_error"] = exc(e)
        return obs

    def oracle(self, case, obs):
        out = oracle_case(case, obs)
        if "raw_error" in obs:
            out.append(("unexpected-error", obs["raw_error"]))
        elif "raw_unfiltered" in obs:
            ms = case["min_span_f"]
            want = [x for x in obs["raw_unfiltered"] if x[3] - x[2] > ms]
            if want != obs["raw_filtered"]:
                diff = [x for x in want if x not in obs["raw_filtered"]] + [x for x in obs["raw_filtered"] if x not in want]
                out.append(("min_span-float-comparison",
                            "min_span=%r: filtered result differs from {seg in unfiltered : seg.right - seg.left > min_span} at %r"
                            % (ms, diff[:3])))
        return out

    def describe(self, case, obs):
        d = case["desc"]
        spans = {d["coords"][r] - d["coords"][l] for l in range(d["L"] + 1) for r in range(l + 1, d["L"] + 1)}
        return {"mode": "between" if case["between"] is not None else ("within" if case["within"] is not None else "default"),
                "min_span": "equals-a-span" if case["min_span_f"] in spans else "decimal",
                "segments": min(obs["r"]["FF"]["num_segments"], 20) // 5 * 5 if "r" in obs and "error" not in obs["r"]["FF"] else "error"}

    def shrink(self, case):
        return []


class IbdUnsorted(Family):
    """TableCollection.ibd_segments on integrity-clean tables whose EDGES ARE NOT SORTED by parent time
    (outside the property's quantifier; documented requirement "same as simplify", which rejects them).
    Expected: an error, or the result for the sorted tables.  Finding C19-unsorted-tables."""
    name = "ibd_unsorted"
    workers = 4
    prelude = PRELUDE

    def generate(self, rng, tier):
        yield {"desc": {"L": 10, "scale": 1, "nodes": [[1, 0], [1, 0], [0, 1], [0, 2]],
                        "edges": [[0, 10, 3, 2], [0, 10, 2, 0], [0, 10, 3, 1]]}, "within": None, "between": None,
               "min_span2": 0, "max_time2": None}
        n = 0
        while n < (25 if tier == "quick" else 300):
            c = make_case(rng, 7, 5, exact_only=True)
            if len(c["desc"]["edges"]) < 3:
                continue
            c["layout"] = "list"
            n += 1
            yield c          # edges are in the generator's shuffled order and are NOT sorted here

    @staticmethod
    def snap(r):
        return sorted([int(a), int(b), float(x.left), float(x.right), int(x.node)] for (a, b), sl in r.items() for x in sl)

    def observe(self, case):
        tc = gen_ts.build_tables(full(case), sort=False, index=False)
        srt = gen_ts.build_tables(full(case))
        times = [t for _f, t in case["desc"]["nodes"]]
        ptimes = [times[e.parent] for e in tc.edges]
        out = {"sorted_by_parent_time": ptimes == sorted(ptimes)}
        kw = call_args(case)
        out["want"] = self.snap(srt.ibd_segments(store_segments=True, **kw))
        try:
            out["got"] = self.snap(tc.ibd_segments(store_segments=True, **kw))
        except Exception as e:
            out["got"] = exc(e)
        try:
            tc.simplify()
            out["simplify"] = "accepted"
        except Exception as e:
            out["simplify"] = exc(e)
        return out

    def oracle(self, case, obs):
        if isinstance(obs["got"], str) or obs["got"] == obs["want"]:
            return []
        return [("unsorted-tables-silently-wrong",
                 "unsorted edge table accepted, result %r differs from the sorted tables' %r (simplify: %s)"
                 % (obs["got"][:3], obs["want"][:3], obs["simplify"]))]

    def nontrivial(self, case, obs):
        return not obs["sorted_by_parent_time"]

    def describe(self, case, obs):
        return {"sorted_by_parent_time": obs["sorted_by_parent_time"],
                "outcome": "error" if isinstance(obs["got"], str) else ("same" if obs["got"] == obs["want"] else "different"),
                "simplify": obs["simplify"]}


WIDE_K = (62, 63, 64, 65, 66, 126, 127, 128, 129, 130, 257)


def wide_desc(rng, k, shape):
    """k requested nodes whose ancestry travels over ONE edge (star), or accumulates over a chain of
    stars (caterpillar: k1 under u1, u1 and k2 more under u2, ...), one to three trees; some leaf edges
    are left unsquashed so that one sample contributes several ancestry segments to the same edge."""
    L = rng.choice([1, 2, 2, 3])
    parts = [k] if shape == "star" else sorted(rng.sample(range(1, k), rng.choice([1, 2])) + [k])
    parts = [b - a for a, b in zip([0] + parts[:-1], parts)]
    nodes, edges = [], []
    for _ in range(k + 1):                      # k under the stars + one more under the root
        nodes.append([1, 0])
    centers = []
    for i, _n in enumerate(parts):
        nodes.append([rng.choice([0, 0, 1]), i + 1])
        centers.append(len(nodes) - 1)
    nodes.append([0, len(parts) + 1])
    root = len(nodes) - 1
    u = 0
    for i, n in enumerate(parts):
        for _ in range(n):
            if L > 1 and rng.random() < 0.15:
                cut = rng.randrange(1, L)
                if rng.random() < 0.5:          # same parent, abutting unsquashed edges: 2 ancestry segments
                    edges += [[0, cut, centers[i], u], [cut, L, centers[i], u]]
                else:                           # moves to the root in the right part
                    edges += [[0, cut, centers[i], u], [cut, L, root, u]]
            else:
                edges.append([0, L, centers[i], u])
            u += 1
    edges.append([0, L, root, k])
    for i, c in enumerate(centers):
        edges.append([0, L, centers[i + 1] if i + 1 < len(centers) else root, c])
    rng.shuffle(edges)
    return {"L": L, "scale": rng.choice([1, 0.5, 2.5]), "nodes": nodes, "edges": edges}


class IbdWide(IbdBase):
    """SIZES AT AND BEYOND INTERNAL CAPACITY BOUNDARIES: the per-edge segment queue of tsk_ibd_finder starts
    at 64 entries and doubles (tables.c, enqueue_segment), the finder's segment heap is carved from 8192-byte
    blocks (256 segments), the result heap from 1 MiB blocks (~10^4 pairs).  Stars / caterpillars of stars
    with k = 62..66, 126..130, 257 (random k <= 300 in thorough) samples under one internal node, checked
    against the positional definition: totals, every pair's (len, total_span), every stored segment, and
    reversed lookups.  k <= 66 additionally goes through the full observation and the Coq correspondence
    (C = IbdAlg = IbdSpec); larger k use a lean observation (the full one would be ~30 MB of JSON)."""
    name = "ibd_wide"
    workers = 6
    timeout = 300.0
    shard = 1
    coq_timeout = 1500

    def generate(self, rng, tier):
        ks = list(WIDE_K)
        if tier != "quick":
            ks += [61, 67, 125, 131, 255, 256, 258] + [rng.randrange(60, 300) for _ in range(6)]
        for i, k in enumerate(ks):
            for j in range(2 if k in (65, 129) else 1):
                mode = (i + j) % 3
                d = wide_desc(rng, k, "star" if (i + j) % 2 == 0 else "caterpillar")
                n = len(d["nodes"])
                ids = list(range(k + 1))
                within = between = None
                if mode == 1:
                    within = ids[::-1] + [n - 2]
                elif mode == 2:
                    cut = rng.choice([1, k // 2, k])
                    between = [ids[:cut], ids[cut:]]
                yield {"desc": d, "within": within, "between": between,
                       "min_span2": rng.choice([0, 0, 0, 1, 2]), "max_time2": rng.choice([None, None, 3, 5]),
                       "layout": rng.choice(LAYOUTS), "k": k,
                       # full observation + Coq correspondence where the model's cost allows
                       "lean": k > 66 or (tier == "quick" and not (k in (63, 65, 66) and j == 0))}

    # ---- lean observation for the big ones ----
    def observe(self, case):
        if not case["lean"]:
            return observe_case(case)
        tc = build_tc(case)
        ts = tc.tree_sequence()
        lat = lattice_map(case["desc"])
        kw = call_args(case)
        out = {"lean": True}
        r = ts.ibd_segments(**kw)
        out["FF"] = [int(r.num_segments), float(r.total_span)]
        r = tc.ibd_segments(**kw)
        out["tcFF"] = [int(r.num_segments), float(r.total_span)]
        r = ts.ibd_segments(store_pairs=True, **kw)
        out["TF"] = {"num_segments": int(r.num_segments), "total_span": float(r.total_span), "num_pairs": int(r.num_pairs),
                     "rows": [[int(a), int(b), len(r[(a, b)]), float(r[(a, b)].total_span), len(r[(b, a)])] for a, b in r.pairs]}
        r = tc.ibd_segments(store_segments=True, **kw)
        rows = []
        for a, b in r.pairs:
            sl = r[(a, b)]
            rows.append([int(a), int(b), len(sl), float(sl.total_span),
                         sorted([lat.get(float(l), float(l)), lat.get(float(rr), float(rr)), int(u)]
                                for l, rr, u in zip(sl.left, sl.right, sl.node))])
        out["TT"] = {"num_segments": int(r.num_segments), "total_span": float(r.total_span), "num_pairs": int(r.num_pairs),
                     "len": len(r), "rows": rows}
        return out

    def oracle(self, case, obs):
        if not case["lean"]:
            return oracle_case(case, obs)
        d = case["desc"]
        exact = desc_exact(d)
        exp = expected(case, strict=True)
        if exp != expected(case, strict=False):
            exp = expected(case, strict=False)          # the max_time boundary is the other finding's subject
        out = []
        nseg = sum(len(v) for v in exp.values())
        tot = sum(cspan(d, l, r) for v in exp.values() for l, r, _u in v)
        for name in ("FF", "tcFF"):
            if obs[name][0] != nseg:
                out.append(("num_segments", "[%s] num_segments=%r expected %r" % (name, obs[name][0], nseg)))
            if not close(obs[name][1], tot, exact):
                out.append(("total_span", "[%s] total_span=%r expected %r" % (name, obs[name][1], tot)))
        want_rows = [[a, b, len(v), sum(cspan(d, l, r) for l, r, _ in v)] for (a, b), v in sorted(exp.items())]
        for name in ("TF", "TT"):
            o = obs[name]
            if o["num_segments"] != nseg or not close(o["total_span"], tot, exact):
                out.append(("num_segments", "[%s] num_segments=%r total_span=%r expected %r / %r"
                            % (name, o["num_segments"], o["total_span"], nseg, tot)))
            if o["num_pairs"] != len(exp) or o.get("len", len(exp)) != len(exp):
                out.append(("num_pairs", "[%s] num_pairs=%r expected %r" % (name, o["num_pairs"], len(exp))))
            got_pairs = [(x[0], x[1]) for x in o["rows"]]
            if got_pairs != sorted(exp):
                missing = sorted(set(exp) - set(got_pairs))[:5]
                extra = sorted(set(got_pairs) - set(exp))[:5]
                out.append(("pairs", "[%s] %d pairs, expected %d; missing %r unexpected %r"
                            % (name, len(got_pairs), len(exp), missing, extra)))
                continue
            for x, w in zip(o["rows"], want_rows):
                if x[2] != w[2]:
                    out.append(("pair-len", "[%s] len(%d,%d)=%r expected %r" % (name, x[0], x[1], x[2], w[2])))
                    break
                if not close(x[3], w[3], exact):
                    out.append(("pair-total_span", "[%s] total_span(%d,%d)=%r expected %r" % (name, x[0], x[1], x[3], w[3])))
                    break
                if name == "TF" and x[4] != w[2]:
                    out.append(("pair-lookup", "[TF] len(result[(%d,%d)])=%r expected %r" % (x[1], x[0], x[4], w[2])))
                    break
                if name == "TT" and [tuple(y) for y in x[4]] != exp[(x[0], x[1])]:
                    out.append(("segments", "[TT] pair (%d,%d): got %r expected %r" % (x[0], x[1], x[4][:3], exp[(x[0], x[1])][:3])))
                    break
        return out

    def coq_check(self, case, obs):
        if case["lean"]:
            return None
        return coq_term(case, obs)

    def nontrivial(self, case, obs):
        if case["lean"]:
            return obs["FF"][0] > 0
        return IbdBase.nontrivial(self, case, obs)

    def describe(self, case, obs):
        nseg = obs["FF"][0] if case["lean"] else (obs["r"]["FF"]["num_segments"] if "r" in obs and "error" not in obs["r"]["FF"] else -1)
        return {"k": case["k"], "lean": case["lean"],
                "mode": "between" if case["between"] is not None else ("within" if case["within"] is not None else "default"),
                "trees": case["desc"]["L"], "segments_log2": max(nseg, 1).bit_length()}

    def shrink(self, case):
        return []


FAMILIES = [IbdShapes, IbdSmall, IbdLarge, IbdErrors, IbdBigNodes, IbdDecimal, IbdUnsorted, IbdWide]

NOT_COVERED = [
    "tsk_ibd_finder -> IbdSpec refinement is not proved in Coq (ibd_alg_refines_spec_partial); tied per run on the generated cases",
    "node ids equal to num_nodes in within/between (C09 finding F3: guard `>`), unsorted / invalid table collections",
    "AVL tree balancing and blkalloc internals of identity_segments (modelled as a key-sorted association list)",
    "C integer widths: the model computes the pair key min*N+max in Z (no 32-bit wrap); only the oracle-level family ibd_bignodes (50000-100000 node rows, keys > 2^31) guards them",
    "floating point: the Coq model is over exact lattice coordinates (lattice*scale with exactly representable scale) and cannot see ulp effects; the double-arithmetic form of `right - left > min_span` is guarded by the oracle-only family ibd_decimal (non-dyadic breakpoints, min_span equal to the double of some right-left or a nearby decimal); scale 1/3 is oracle-only with a 1e-9 tolerance on total_span",
]
